"""Self-test of the reference geometry against closed forms (run by setup_cmd)."""
import os, sys
import numpy as np
sys.path.insert(0, os.path.dirname(os.path.dirname(os.path.abspath(__file__))))
from vf import refgeo as rg

C = lambda *v: {"k": "const", "v": list(v)}
sq = {"t": "par", "var": "x", "o": C(0, 0), "c1": C(2, 0), "c2": C(0, 2)}
sq_cw = {"t": "par", "var": "x", "o": C(0, 0), "c1": C(0, 2), "c2": C(2, 0)}
circ = {"t": "circle", "var": "x", "c": C(1, 1), "r": C(1)}
tri = {"t": "tri", "var": "x", "o": C(0, 0), "c1": C(2, 0), "c2": C(0, 2)}
env = {"x": np.array([[1.0, 1.0], [3.0, 1.0], [1.9, 1.9], [0.5, 0.2], [-0.1, 0.5]])}
for E in (sq, sq_cw):
    assert rg.contains(E, env).tolist() == [True, False, True, True, False]
    assert np.allclose(rg.margin(E, env), [1, 1, 0.1, 0.2, 0.1])
assert rg.contains(circ, env).tolist() == [True, False, False, True, False]
assert rg.contains(tri, env).tolist() == [True, False, False, True, False]
assert np.allclose(rg.leaf_measure(sq, {}), 4) and np.allclose(rg.leaf_measure(sq_cw, {}), 4)
assert np.allclose(rg.leaf_measure(tri, {}), 2) and np.allclose(rg.leaf_measure(circ, {}), np.pi)
assert np.allclose(rg.leaf_measure(sq, {}, True), 8)
assert np.allclose(rg.leaf_measure(tri, {}, True), 4 + 2 * 2 ** 0.5)
# Boolean algebra and QMC measure
cut = {"t": "cut", "a": sq, "b": circ}
m, box, frac = rg.qmc_measure(cut, {}, 8192)
assert abs(m - (4 - np.pi)) < 0.02, m
un = {"t": "union", "a": sq, "b": {"t": "translate", "a": circ, "v": C(1, 0)}}
m, _, _ = rg.qmc_measure(un, {}, 8192)
assert abs(m - (4 + np.pi / 2)) < 0.03, m
# rotation: square rotated by 45 degrees around its centre contains (1, 1+1.3) but not (1.9,1.9)
rot = {"t": "rotate", "a": sq, "angle": C(np.pi / 4), "around": C(1, 1), "form": "angles"}
e2 = {"x": np.array([[1.0, 2.3], [1.9, 1.9], [1.0, 1.0]])}
assert rg.contains(rot, e2).tolist() == [True, False, True]
b = rg.ref_box(rot, {})[0]
assert np.allclose(b, [1 - 2 ** 0.5, 1 + 2 ** 0.5, 1 - 2 ** 0.5, 1 + 2 ** 0.5], atol=1e-6)
# polygon with hole, even-odd
poly = {"t": "poly", "var": "x", "verts": [[0, 0], [4, 0], [4, 4], [0, 4]], "hole": [[1, 1], [1, 3], [3, 3], [3, 1]]}
e3 = {"x": np.array([[0.5, 0.5], [2.0, 2.0], [5.0, 1.0], [3.5, 2.0]])}
assert rg.contains(poly, e3).tolist() == [True, False, False, True]
assert np.allclose(rg.leaf_measure(poly, {}), 12) and np.allclose(rg.leaf_measure(poly, {}, True), 24)
# mesh box
V = [[sx, sy, sz] for sx in (-1, 1) for sy in (-1, 1) for sz in (-1, 1)]
F = [[0, 1, 3], [0, 3, 2], [4, 6, 7], [4, 7, 5], [0, 4, 5], [0, 5, 1], [2, 3, 7], [2, 7, 6], [0, 2, 6], [0, 6, 4], [1, 5, 7], [1, 7, 3]]
mesh = {"t": "mesh", "var": "y", "verts": V, "faces": F}
e4 = {"y": np.array([[0, 0, 0.5], [0, 0, 1.5], [0.9, 0.9, 0.9]])}
assert rg.contains(mesh, e4).tolist() == [True, False, True]
assert abs(rg.mesh_volume(mesh) - 8) < 1e-12 and abs(rg.mesh_area(mesh) - 24) < 1e-12
# boundary status: circle boundary, union boundary (shared part is not boundary)
bd = {"t": "boundary", "a": circ}
e5 = {"x": np.array([[2.0, 1.0], [1.0, 1.0], [2.00005, 1.0], [2.5, 1.0]])}
assert rg.status(bd, e5, 1e-4).tolist() == [rg.IN, rg.OUT, rg.IN, rg.OUT]
sq2 = {"t": "par", "var": "x", "o": C(2, 0), "c1": C(4, 0), "c2": C(2, 2)}
ub = {"t": "boundary", "a": {"t": "union", "a": sq, "b": sq2}}
e6 = {"x": np.array([[2.0, 1.0], [1.0, 0.0], [4.0, 1.0], [1.0, 1.0]])}
st_ = rg.status(ub, e6, 1e-4).tolist()
assert st_[1] == rg.IN and st_[2] == rg.IN and st_[3] == rg.OUT and st_[0] != rg.IN, st_
# parameter dependence, row-wise
dc = {"t": "circle", "var": "x", "c": {"k": "affine", "var": "p", "v0": [0, 0], "V1": [[2], [0]]}, "r": C(1)}
e7 = {"x": np.array([[0.0, 0.0], [0.0, 0.0], [2.0, 0.0]]), "p": np.array([[0.0], [1.0], [1.0]])}
assert rg.contains(dc, e7).tolist() == [True, False, True]
assert rg.free_vars({"t": "product", "a": {"t": "interval", "var": "u", "lo": C(0), "hi": {"k": "affine", "var": "t", "v0": [1], "V1": [[1]]}},
                     "b": {"t": "interval", "var": "t", "lo": C(0), "hi": {"k": "affine", "var": "p", "v0": [1], "V1": [[1]]}}}) == {"p"}
print("refgeo selftest ok")
