"""Sampling scenarios shared by C01 (membership of samples) and C02 (row counts / pairing)."""
import numpy as np
import torch
from hypothesis import strategies as st

from torchphysics.problem.spaces import Points
from torchphysics.problem import samplers as S

from . import build, geo, refgeo as rg, specs

NS = [1, 1, 2, 3, 5, 8, 10, 11, 12, 17, 37, 64, 100]
DOM_PATHS = ["dom-random-n", "dom-grid-n", "dom-grid-n", "dom-random-d", "dom-grid-d"]
SAMPLER_PATHS = ["S-random-n", "S-grid-n", "S-grid-n", "S-random-d", "S-grid-d",
                 "S-random-n-filter", "S-random-n-filter", "S-grid-n-filter", "S-random-d-filter", "S-grid-d-filter",
                 "static-random", "static-grid", "adaptive-threshold", "adaptive-random"]
INTERIOR_ONLY = ["gaussian", "lhs"]


def scenario_strategy(tier, kinds=("interior", "interior", "boundary", "boundary", "product",
                                   "depproduct", "bproduct")):
    @st.composite
    def s(draw):
        case = draw(geo.case_strategy(tier, kinds=kinds))
        E = case["dom"]["E"]
        is_prod = rg.has(E, lambda n: n["t"] == "product")
        bdry = rg.has(E, rg.is_boundary)
        paths = list(DOM_PATHS) + list(SAMPLER_PATHS)
        if not bdry and not is_prod:
            paths += INTERIOR_ONLY * 2
        if E["t"] == "interval":
            paths += ["expo-interval"]
        if is_prod:       # grid sampling of a ProductDomain is NotImplemented by design
            paths = [p for p in paths if "grid" not in p]
        path = draw(st.sampled_from(paths))
        k = geo.nrows(case["prows"])
        if path in ("dom-random-d", "dom-grid-d", "dom-grid-n") and k > 1:
            # domain-level grid / density sampling is driven with one parameter row at a time
            case["prows"] = {kk: v[:1] for kk, v in case["prows"].items()}
        case["path"] = path
        case["n"] = draw(st.sampled_from(NS if tier == "quick" else NS + [128, 250]))
        case["m"] = draw(st.integers(1, 120))                 # target count for density paths
        case["fq"] = draw(st.integers(60, 85)) / 100.0        # filter keeps about this share
        if case["dom"]["kind"] == "depproduct" and k >= 2 and draw(st.integers(0, 9)) < 8:
            # dependent product with several external parameter rows: known finding D17, keep
            # most of the budget behind it
            case["prows"] = {kk: v[:1] for kk, v in case["prows"].items()}
        case["faxis"] = draw(st.integers(0, 2))
        case["gq"] = draw(st.integers(0, 10 ** 6))
        case["expo"] = draw(st.sampled_from([0.5, 2.0, 3.0]))
        case["ratio"] = draw(st.sampled_from([0.0, 0.25, 0.5, 1.0]))
        # the domain is first evaluated with its (single) parameter row, `D(**row)`, and the result is
        # sampled without parameters: the sample must lie in the set of that row
        case["evaluate"] = bool(geo.nrows(case["prows"]) >= 1 and draw(st.integers(0, 4)) == 0)
        if case["evaluate"]:
            case["prows"] = {kk: v[:1] for kk, v in case["prows"].items()}
        return case
    return s()


class FilterGaveUp(Exception):
    """the samplers' documented give-up after 20 fruitless rounds (clean rejection by design)"""


def _by_design(e):
    return isinstance(e, RuntimeError) and "Run 20 iterations" in str(e)


class Outcome:
    """what a scenario produced: env of returned rows (float64), which rows pair with which
    parameter row, bookkeeping for the count oracles."""

    def __init__(self):
        self.calls = []        # list of dict(points=Points, env=..., k=..., n=..., kind=...)
        self.skipped = None


def _filter_fn(var, axis, c):
    ns = {"c": float(c), "axis": int(axis)}
    exec(f"def flt({var}):\n    return {var}[:, axis] <= c\n", ns)
    return ns["flt"]


def _first_penv(prows):
    return {kk: v[:1] for kk, v in build.params_env(prows).items()}


def reference_measure(E, penv1):
    """measure of the (possibly boundary / product) expression at ONE parameter row, as exactly
    as the reference can: closed form, else QMC for single-variable interiors, else None."""
    m = rg.exact_measure(E, penv1)
    if m is not None:
        return float(m[0])
    if not rg.has(E, rg.is_boundary) and not rg.has(E, lambda n: n["t"] == "product"):
        return rg.qmc_measure(E, penv1, 4096)[0]
    return None


def library_volume(D, prows):
    params = build.params_points({kk: v[:1] for kk, v in prows.items()}) if prows else Points.empty()
    import warnings
    with warnings.catch_warnings():
        warnings.simplefilter("ignore")
        v = D.volume(params)
    return float(torch.as_tensor(v).reshape(-1)[0])


def run_scenario(spec, ctx, D=None):
    """Executes the sampling path of the scenario.  Returns Outcome (calls may be empty when the
    scenario had to be skipped)."""
    E, prows, path, n = spec["dom"]["E"], spec["prows"], spec["path"], spec["n"]
    k = geo.nrows(prows)
    gen = np.random.default_rng(spec["rng"])
    out = Outcome()
    top = geo.node_label(geo._strip_boundary(E) if E["t"] != "product" else E)
    penv = build.params_env(prows)
    feat = f"{path}|{top}"
    pc = path       # crash signatures: exception type + library frame + sampling path
    if spec["dom"]["kind"] == "depproduct" and k >= 2:
        pc = "depproduct-extparams-k2+"
    if rg.has(E, rg.is_boundary):
        try:
            if geo.touching(E, penv, 1e-4 * geo.scale_of(E, penv)):
                pc += "+touching"
        except Exception:      # noqa: BLE001 - classification only
            pass
    out.tag = pc
    if D is None:
        with ctx.lib("construct", feature=top):
            D = build.domain(E)
    ev = bool(spec.get("evaluate")) and k == 1
    if ev and rg.has(E, lambda n_: n_["t"] in ("bleft", "bright") and bool(rg.pvars(n_["a"]["lo"] if n_["t"] == "bleft" else n_["a"]["hi"]))):
        # evaluating a one-sided interval boundary whose own bound is parameter-dependent is known finding
        # D25 (listed under C17, where it is checked and reported): sampled with the parameter row instead
        ev = False
        ctx.event("evaluate-skipped:D25")
    lib_prows = prows
    if ev:
        data = {v: torch.tensor(r[:1], dtype=torch.float32).reshape(1, -1) for v, r in prows.items()}
        with ctx.lib("partial-evaluation", feature=top):
            D = D(**data)
        lib_prows = {}
        pc += "|evaluated"
        out.tag = pc
    out.domain = D
    params = build.params_points(lib_prows)
    penv = build.params_env(prows)
    dvars = [v for v, _ in rg.space_vars(geo._strip_boundary(E))]

    def record(P, n_req, kind, pen=None, has_param_cols=False):
        if not isinstance(P, Points):
            ctx.violation("return-type", feat, f"{kind}: returned {type(P).__name__}, not Points")
            return
        if kind.startswith("adaptive"):
            # the adaptive samplers hand out their own stored Points object and overwrite rows of it in
            # the next call: judge a snapshot of what this call returned
            P = Points(P._t.detach().clone(), P.space)
        c = {"points": P, "n": n_req, "k": k, "kind": kind, "param_cols": has_param_cols, "env": None,
             "vars": list(P.space.keys())}
        rows = len(P)
        if ev:
            c["param_cols"] = False
            if all(v in P.space.keys() for v in dvars):
                c["env"] = build.points_env(P, geo.repeat_env(penv, rows))
        elif has_param_cols:
            if all(v in P.space.keys() for v in list(prows.keys()) + dvars):
                c["env"] = build.points_env(P)
        elif pen is not None:
            if all(len(v) == rows for v in pen.values()) and all(v in P.space.keys() for v in dvars):
                c["env"] = build.points_env(P, pen)
        elif not k:
            if all(v in P.space.keys() for v in dvars):
                c["env"] = build.points_env(P)
        out.calls.append(c)

    # ---------------- density: choose d from the library's own volume so that the count is sane
    d = None
    if path.endswith("-d") or "-d-" in path:
        try:
            vol = library_volume(D, lib_prows)
        except Exception:      # noqa: BLE001 - volume problems are C10's business
            out.skipped = "volume-raises"
            return out
        if not np.isfinite(vol) or vol <= 0:
            out.skipped = "volume-nonpositive"
            return out
        d = spec["m"] / vol
        spec_d = d

    # ---------------- filters: a half space that keeps about fq of the domain (reference)
    flt = None
    if "filter" in path:
        var, dim = rg.space_vars(geo._strip_boundary(E))[0]
        axis = spec["faxis"] % dim
        q = uniform_env(E, prows, gen, 256)
        inside = reference_inside(E, q)
        vals = q[var][inside][:, axis] if inside.any() else q[var][:, axis]
        c = float(np.quantile(vals, spec["fq"]))
        flt = _filter_fn(var, axis, c)
        out.filter = (var, axis, c)

    # a product samples its first factor one point at a time and Boolean results by rejection: the number of
    # random draws of a terminating call grows with the number of requested rows (400 draws per row cover
    # nested acceptance rates down to a fraction of a percent); an endless loop exceeds any such budget
    rows_req = (spec["m"] if d is not None else n) * max(k, 1)
    bud = 4000 + 400 * int(rows_req)
    if path.startswith("dom-"):
        how = "random" if "random" in path else "grid"
        with ctx.lib(path, feature=pc, budget_calls=bud):
            if d is None:
                P, pen = geo.lib_sample(D, how, n, lib_prows)
            else:
                fn = D.sample_random_uniform if how == "random" else D.sample_grid
                P = fn(d=d, params=params)
                pen = geo.repeat_env(penv, len(P)) if k else {}
        record(P, n if d is None else None, path, pen if (k and not ev) else None)
        return out

    # ---------------- point samplers
    def make(kind):
        if kind == "random":
            return S.RandomUniformSampler(D, n_points=None if d else n, density=d, filter_fn=flt)
        return S.GridSampler(D, n_points=None if d else n, density=d, filter_fn=flt)

    with ctx.lib("construct-sampler:" + path, feature=pc):
        if path.startswith("S-random") or path == "static-random":
            smp = make("random")
        elif path.startswith("S-grid") or path == "static-grid":
            smp = make("grid")
        elif path == "gaussian":
            pts = uniform_env(E, prows, gen, 256)
            ins = reference_inside(E, pts)
            var, dim = rg.space_vars(E)[0]
            cand = pts[var][ins] if ins.any() else pts[var]
            mean = cand[spec["gq"] % len(cand)]
            box = geo.space_box(E, penv)[var]
            std = 0.5 * float(np.max(box[1] - box[0]))
            out.gauss = (mean.tolist(), std)
            smp = S.GaussianSampler(D, n, mean=[float(v) for v in mean] if dim > 1 else float(mean[0]),
                                    std=std)
        elif path == "lhs":
            smp = S.LHSSampler(D, n)
        elif path == "expo-interval":
            smp = S.ExponentialIntervalSampler(D, n, spec["expo"])
        elif path == "adaptive-threshold":
            smp = S.AdaptiveThresholdRejectionSampler(D, spec["ratio"], n_points=n)
        elif path == "adaptive-random":
            smp = S.AdaptiveRandomRejectionSampler(D, n_points=n)
        else:
            raise ValueError(path)
        if path.startswith("static"):
            smp = smp.make_static()
    out.sampler = smp
    n_req = None if d else n
    if path.startswith("adaptive"):
        with ctx.lib(path, feature=pc):
            P = smp.sample_points(params=params)
        record(P, n_req, path + "#0", has_param_cols=True)
        hist = [prows]
        for it in range(2):
            loss = torch.tensor(gen.random(len(P)), dtype=torch.float32)
            # the parameter rows may change from call to call (kept points stay paired with the
            # rows they were sampled for: the returned parameter columns say which)
            if lib_prows and spec["gq"] % 2 == 0:
                moved = {kk: [[min(1.0, max(0.0, x + 0.17 * (it + 1))) for x in r] for r in v] for kk, v in prows.items()}
                params_it = build.params_points(moved)
                hist.append(moved)
            else:
                params_it = params
            with ctx.lib(path, feature=pc):
                P = smp.sample_points(unreduced_loss=loss, params=params_it)
            record(P, n_req, path + f"#{it + 1}", has_param_cols=True)
            out.calls[-1]["param_hist"] = list(hist)
        return out
    reps = 2 if path.startswith("static") else 1
    for it in range(reps):
        with ctx.lib(path, feature=pc, budget_calls=bud):
            try:
                P = smp.sample_points(params)
            except RuntimeError as e:
                if not _by_design(e):
                    raise
                out.skipped = "filter-gave-up-by-design"
                return out
        record(P, n_req, path + (f"#{it}" if reps > 1 else ""), has_param_cols=True)
    return out


def uniform_env(E, prows, gen, N):
    k = geo.nrows(prows)
    penv = build.params_env(prows)
    ridx = np.arange(N) % max(k, 1)
    return geo.uniform_queries(E, penv if k else {}, ridx, gen, inflate=0.05)


def reference_inside(E, env):
    I = geo._strip_boundary(E)
    return rg.contains(I, env)


def judge_membership(E, env, tol):
    """status per row of returned sample rows (IN / OUT / UNDECIDED) for interior or boundary E."""
    return rg.status(E, env, tol)


def pinned_scenarios(seed):
    """every primitive (off-origin, slanted / clockwise, one parameter-dependent) and a few
    one-level compositions x every sampling path, n = 37 and n = 1: deterministic coverage of
    the (shape, path) grid that random generation only visits by luck."""
    C = lambda *v: {"k": "const", "v": list(v)}
    dep = lambda v0, a: {"k": "affine", "var": "p", "v0": list(v0), "V1": [[x] for x in a]}
    box = [[sx * 0.6 + 0.4, sy * 0.5 - 0.3, sz * 0.7 + 0.2] for sx in (-1, 1) for sy in (-1, 1) for sz in (-1, 1)]
    boxf = [[0, 1, 3], [0, 3, 2], [4, 6, 7], [4, 7, 5], [0, 4, 5], [0, 5, 1], [2, 3, 7], [2, 7, 6], [0, 2, 6], [0, 6, 4], [1, 5, 7], [1, 7, 3]]
    disc = {"t": "circle", "var": "x", "c": dep([0.3, -0.2], [0.6, 0.4]), "r": C(1.0)}      # moves with p
    sq = {"t": "par", "var": "x", "o": C(0.1, 0.2), "c1": C(0.5, 1.6), "c2": C(1.7, 0.4)}          # clockwise, slanted
    exprs = [
        {"t": "interval", "var": "u", "lo": C(-0.4), "hi": dep([0.9], [0.5])},
        {"t": "circle", "var": "x", "c": dep([0.4, -0.3], [0.5, 0.2]), "r": C(0.8)},
        sq,
        {"t": "tri", "var": "x", "o": C(-0.6, 0.1), "c1": C(0.9, -0.4), "c2": C(0.2, 1.3)},
        {"t": "sphere", "var": "y", "c": C(0.5, -0.4, 0.3), "r": C(0.8)},
        {"t": "poly", "var": "x", "verts": [[-0.5, -0.5], [1.5, -0.5], [1.5, 0.3], [0.3, 0.3], [0.3, 1.5], [-0.5, 1.5]], "hole": None},
        {"t": "mesh", "var": "y", "verts": box, "faces": boxf, "kind": "box", "winding": "out"},
        {"t": "union", "a": disc, "b": sq, "disjoint": False},
        {"t": "cut", "a": disc, "b": sq, "contained": False},
        {"t": "isect", "a": disc, "b": sq},
        {"t": "translate", "a": sq, "v": dep([0.5, -0.5], [1.0, 0.5])},
        {"t": "rotate", "a": sq, "angle": dep([0.7], [1.1]), "around": C(0.8, -0.3), "form": "angles"},
        {"t": "product", "a": disc, "b": {"t": "interval", "var": "t", "lo": C(0.0), "hi": C(1.5)}},
        {"t": "product", "a": {"t": "circle", "var": "x", "c": C(0.2, 0.1),
                               "r": {"k": "affine", "var": "t", "v0": [0.4], "V1": [[0.6]]}},
         "b": {"t": "interval", "var": "t", "lo": C(0.0), "hi": C(1.0)}},
    ]
    paths_i = ["dom-random-n", "dom-grid-n", "dom-random-d", "dom-grid-d", "S-random-n", "S-grid-n", "S-random-d",
               "S-grid-d", "S-random-n-filter", "S-grid-n-filter", "static-grid", "adaptive-threshold", "gaussian", "lhs"]
    out = []
    i = 0
    for E in exprs:
        prod = rg.has(E, lambda n: n["t"] == "product")
        for bd in (False, True):
            EE = {"t": "boundary", "a": E} if bd else E
            if bd and E["t"] == "product":
                continue
            for path in paths_i:
                if (bd or prod) and path in ("gaussian", "lhs"):
                    continue
                if prod and "grid" in path:
                    continue
                for n in (37, 1, 2):
                    if n == 1 and path not in ("dom-random-n", "dom-grid-n", "S-grid-n"):
                        continue
                    if n == 2 and path not in ("dom-random-n", "S-random-n"):
                        continue
                    fv = rg.free_vars(EE)
                    k2 = (path.startswith("S-") and "-d" not in path) or path == "dom-random-n"
                    rows2 = [[0.1], [0.9], [0.5]] if n == 2 else [[0.3], [0.9]]       # n = 2 with 3 rows: more rows than points
                    prows = {"p": rows2 if k2 else [[0.6]]} if fv else ({"p": [[0.3], [0.9]]} if k2 and i % 3 == 0 else {})
                    i += 1
                    kind = "boundary" if bd else ("depproduct" if prod and "t" in rg.free_vars(E["a"]) else "product" if prod else "interior")
                    out.append({"dom": {"E": EE, "kind": kind, "pvars": sorted(fv), "lattice": False, "far": False},
                                "prows": prows, "rng": seed * 1000 + i, "path": path, "n": n, "m": 23,
                                "fq": 0.7, "faxis": i % 2, "gq": i, "expo": 2.0, "ratio": 0.5})
                    if fv and n == 37 and path in ("dom-random-n", "dom-grid-n", "S-grid-n", "S-random-d"):
                        # the same shape evaluated with its parameter row first, then sampled without parameters
                        i += 1
                        out.append(dict(out[-1], prows={"p": [[0.6]]}, rng=seed * 1000 + i, evaluate=True))
    return out
