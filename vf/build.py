"""spec -> real torchphysics objects (domains, parameter Points)."""
import numpy as np
import torch

import torchphysics as tp
from torchphysics.problem.spaces import Points, R1, R2, R3, Space
from torchphysics.problem import domains as D

from torchphysics.problem.domains.domain2D.shapely_polygon import ShapelyPolygon
from torchphysics.problem.domains.domain3D.trimesh_polyhedron import TrimeshPolyhedron

from . import refgeo as rg


def space_of(name, dim):
    return {1: R1, 2: R2, 3: R3}[dim](name)


def _make_fn(P, scalar):
    """closure over torch for a parameter spec; argument is NAMED after the variable."""
    var = P["var"]
    v0 = torch.tensor(P["v0"], dtype=torch.float32).reshape(1, -1)
    if P["k"] == "affine2":
        V1 = torch.tensor(P["V1"], dtype=torch.float32)
        V2 = torch.tensor(P["V2"], dtype=torch.float32)
        var2 = P["var2"]

        def impl2(x, x2):
            return v0.to(x.device) + x @ V1.T.to(x.device) + x2 @ V2.T.to(x.device)
        ns = {"impl": impl2}
        if P.get("kdef"):
            # a third argument that is never supplied and has a Python default value (f(a, b, k=K)): partial
            # evaluation of a or b must keep it; the default contributes nothing (k - K)
            ns["K"] = torch.full((1, 1), 0.75)
            exec(f"def fn({var}, {var2}, k_extra=K):\n    return impl({var}, {var2}) + (k_extra - 0.75)\n", ns)
            return ns["fn"]
        if P.get("pydef"):
            # the second argument has a Python default value (never the value the cases supply)
            ns["dflt"] = torch.full((1, V2.shape[1]), 7.7)
            exec(f"def fn({var}, {var2}=dflt):\n    return impl({var}, {var2})\n", ns)
        else:
            exec(f"def fn({var}, {var2}):\n    return impl({var}, {var2})\n", ns)
        return ns["fn"]
    if P["k"] == "affine":
        V1 = torch.tensor(P["V1"], dtype=torch.float32)

        def impl(x):
            return v0.to(x.device) + x @ V1.T.to(x.device)
    else:
        amp = torch.tensor(P["amp"], dtype=torch.float32).reshape(1, -1)
        freq = float(P["freq"])

        def impl(x):
            return v0.to(x.device) + amp.to(x.device) * torch.sin(freq * x[:, :1])
    ns = {"impl": impl}
    exec(f"def fn({var}):\n    return impl({var})\n", ns)
    return ns["fn"]


def param(P, scalar=False):
    if P["k"] == "const":
        return float(P["v"][0]) if scalar else [float(v) for v in P["v"]]
    return _make_fn(P, scalar)


def domain(E):
    t = E["t"]
    if t == "interval":
        return D.Interval(space_of(E["var"], 1), param(E["lo"], True), param(E["hi"], True))
    if t == "circle":
        return D.Circle(space_of(E["var"], 2), param(E["c"]), param(E["r"], True))
    if t == "sphere":
        return D.Sphere(space_of(E["var"], 3), param(E["c"]), param(E["r"], True))
    if t == "par":
        return D.Parallelogram(space_of(E["var"], 2), param(E["o"]), param(E["c1"]), param(E["c2"]))
    if t == "tri":
        return D.Triangle(space_of(E["var"], 2), param(E["o"]), param(E["c1"]), param(E["c2"]))
    if t == "poly":
        def ring(r):
            # "dup": a ring handed to the library with one vertex repeated (two identical consecutive
            # vertices are valid for shapely and denote the same polygon; the reference uses the plain ring)
            r = [list(v) for v in r]
            d = E.get("dup")
            if d is not None:
                j = int(d) % len(r)
                r = r[:j + 1] + [list(r[j])] + r[j + 1:]
            return r
        if E.get("hole"):
            import shapely.geometry as sg
            return ShapelyPolygon(space_of(E["var"], 2),
                                  shapely_polygon=sg.Polygon(ring(E["verts"]), holes=[ring(E["hole"])]))
        return ShapelyPolygon(space_of(E["var"], 2), vertices=ring(E["verts"]))
    if t == "mesh":
        if E.get("tol"):
            return TrimeshPolyhedron(space_of(E["var"], 3), vertices=E["verts"], faces=E["faces"], tol=float(E["tol"]))
        return TrimeshPolyhedron(space_of(E["var"], 3), vertices=E["verts"], faces=E["faces"])
    if t == "point":
        dim = rg.space_vars(E)[0][1]
        return D.Point(space_of(E["var"], dim), param(E["p"], dim == 1))
    if t == "union":
        a, b = domain(E["a"]), domain(E["b"])
        if E.get("disjoint"):
            from torchphysics.problem.domains.domainoperations.union import UnionDomain
            return UnionDomain(a, b, disjoint=True)
        return a + b
    if t == "cut":
        a, b = domain(E["a"]), domain(E["b"])
        if E.get("contained"):
            from torchphysics.problem.domains.domainoperations.cut import CutDomain
            return CutDomain(a, b, contained=True)
        return a - b
    if t == "isect":
        return domain(E["a"]) & domain(E["b"])
    if t == "product":
        return domain(E["a"]) * domain(E["b"])
    if t == "translate":
        return D.Translate(domain(E["a"]), param(E["v"]))
    if t == "rotate":
        around = param(E["around"]) if E.get("around") else None
        form = E.get("form", "angles")
        if form == "matrix3":         # 3-D: the rotation matrix itself (from_angles is 2-D only)
            M = torch.tensor(rg._f32(rg.euler_matrix(E["euler"])), dtype=torch.float32)
            return D.Rotate(domain(E["a"]), M, rotate_around=around)
        if form == "angles":
            return D.Rotate.from_angles(domain(E["a"]), param(E["angle"], True), rotate_around=around)
        if form == "matrix":          # constant matrix (documented: array_like)
            a = float(E["angle"]["v"][0])
            M = torch.tensor([[np.cos(a), -np.sin(a)], [np.sin(a), np.cos(a)]], dtype=torch.float32)
            return D.Rotate(domain(E["a"]), M, rotate_around=around)
        # callable returning one matrix per row (as in the library's tests)
        afn = _make_fn(E["angle"], True)
        names = [E["angle"]["var"]] + ([E["angle"]["var2"]] if E["angle"]["k"] == "affine2" else [])

        def impl(*xs):
            ang = afn(*xs)
            row1 = torch.cat((torch.cos(ang), -torch.sin(ang)), dim=1)
            row2 = torch.cat((torch.sin(ang), torch.cos(ang)), dim=1)
            return torch.stack((row1, row2), dim=1)
        ns = {"impl": impl}
        exec(f"def fn({', '.join(names)}):\n    return impl({', '.join(names)})\n", ns)
        return D.Rotate(domain(E["a"]), ns["fn"], rotate_around=around)
    if t == "boundary":
        return domain(E["a"]).boundary
    if t == "bleft":
        return domain(E["a"]).boundary_left
    if t == "bright":
        return domain(E["a"]).boundary_right
    raise ValueError(t)


def params_points(prows):
    """prows: dict var -> list of rows (k rows each) or {} -> tp Points (empty when no rows)."""
    if not prows:
        return Points.empty()
    coords = {k: torch.tensor(v, dtype=torch.float32).reshape(len(v), -1) for k, v in prows.items()}
    return Points.from_coordinates(coords)


def params_env(prows, repeat=1):
    """float64 env of the float32-rounded parameter rows, each repeated `repeat` times."""
    return {k: np.repeat(np.asarray(torch.tensor(v, dtype=torch.float32).reshape(len(v), -1)
                                    .double().numpy()), repeat, axis=0) for k, v in prows.items()}


def points_env(points, extra=None):
    """tp Points -> float64 env (all variables the Points carry), merged with extra env."""
    env = {k: v.detach().double().numpy() for k, v in points.coordinates.items()}
    if extra:
        for k, v in extra.items():
            env.setdefault(k, v)
    return env
