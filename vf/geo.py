"""Shared pieces of the geometry checks (C01, C02, C05, C06, C10, C11, C17, C18)."""
import numpy as np
import torch
from hypothesis import strategies as st

from torchphysics.problem.spaces import Points

from . import build, refgeo as rg, specs


def case_strategy(tier, kinds, dims=(1, 2, 2, 2, 3), kmax=5, **kw):
    """domain case + parameter rows + rng seed."""
    @st.composite
    def s(draw):
        dc = draw(specs.domain_case(tier, kinds=kinds, dims=dims, **kw))
        fv = rg.free_vars(dc["E"])
        names = set(dc["pvars"])
        ks = (0, 1, 2, 2, 3, 5) if not fv else (1, 2, 2, 3, 5)
        extra_unused = draw(st.integers(0, 3)) == 0
        if not extra_unused:
            names = set(fv)
        prows = draw(specs.param_rows(names, kmax=kmax, ks=ks)) if names else {}
        from hypothesis import assume
        assume(specs.ratio_ok_rows(dc["E"], prows))
        return {"dom": dc, "prows": prows, "rng": draw(st.integers(0, 2 ** 31 - 1))}
    return s()


def weighted(*pairs):
    """weighted choice between strategies: (weight, strategy) pairs.  (st.one_of(a, a, b) does NOT weight: it
    drops repeated strategy objects.)"""
    from hypothesis import strategies as st
    table = [s for w, s in pairs for _ in range(int(w))]
    return st.integers(0, len(table) - 1).flatmap(lambda i: table[i])


def big_leaf_case(bdry=True):
    """a single primitive (or its boundary) of size 50 - 400 within about one size of the origin, optionally
    with parameter-dependent shape: absolute tolerances that are fine for unit-sized shapes show here."""
    from hypothesis import strategies as st

    @st.composite
    def s(draw):
        dim = draw(st.sampled_from([1, 2, 2, 2, 3]))
        depv = {"p": (1, 0.0, 1.0)} if draw(st.booleans()) else {}
        ctx = specs.Ctx(depv, 0.5 if depv else 0.0, False, False)
        size = draw(specs.num(50, 400))
        cen = [draw(specs.num(-1.2, 1.2)) * size for _ in range(dim)]
        L = draw(specs.leaf(dim, ctx, (cen, size)).filter(lambda l: l["t"] not in ("poly", "mesh")))
        E = {"t": "boundary", "a": L} if bdry and draw(st.integers(0, 3)) > 0 else L
        fv = rg.free_vars(E)
        prows = draw(specs.param_rows(set(fv), kmax=3, ks=(1, 2, 3))) if fv else {}
        return {"dom": {"E": E, "kind": "boundary" if E is not L else "interior", "pvars": sorted(fv), "lattice": False, "far": False},
                "prows": prows, "rng": draw(st.integers(0, 2 ** 31 - 1))}
    return s()


def nrows(prows):
    for v in prows.values():
        return len(v)
    return 0


def node_label(E):
    lab = E["t"]
    if any(P["k"] != "const" for P in rg.own_params(E)):
        lab += "-dep"
    if E["t"] == "par":
        env = {v: np.zeros((1, d)) for v, d in list(specs.PVARS.items()) + [("t", 1)]}
        V = rg._leaf_polygon(E, env, 1)[0]
        if rg.shoelace(V) < 0:
            lab += "-cw"
    return lab


def case_classes(case):
    E = case["dom"]["E"]
    f = specs.features(E)
    k = nrows(case["prows"])
    cl = [case["dom"]["kind"], f"depth{min(rg.depth(E), 4)}", f"k{k if k < 3 else '3+'}"]
    cl += [x for x in ("dep", "par-cw", "par-slanted", "rotate", "translate", "poly", "mesh",
                       "union", "cut", "isect", "sphere", "tri", "circle", "interval") if x in f]
    if case["dom"].get("lattice"):
        cl.append("lattice")
    if case["dom"].get("far"):
        cl.append("far")
    return cl


def is_plain(case):
    """the class the existing tests live in: an axis-aligned, origin-anchored, parameter-free leaf."""
    E = case["dom"]["E"]
    f = specs.features(E)
    return (rg.depth(E) == 0 and "dep" not in f and "par-cw" not in f and "par-slanted" not in f
            and nrows(case["prows"]) == 0 and E["t"] not in ("poly", "mesh"))


def scale_of(E, penv, floor=1.0):
    """characteristic size: max(floor, max |coordinate|, diameter) over the reference boxes."""
    s = floor
    for n in rg.walk(E):
        if n["t"] in rg.LEAVES and n["t"] != "point":
            pe = _penv_for(n, penv)
            b = rg.ref_box(n, pe)
            s = max(s, float(np.max(np.abs(b))))
        elif n["t"] in ("translate", "rotate"):
            # the motion itself: coordinates of the moved set and of the pivot enter the arithmetic
            pe = _penv_for(n, penv)
            N = max(rg.env_len(pe), 1) if pe else 1
            try:
                if n["t"] == "translate":
                    s = max(s, s + float(np.max(np.abs(rg.pval(n["v"], pe, N)))))
                elif n.get("around"):
                    s = max(s, s + 2 * float(np.max(np.abs(rg.pval(n["around"], pe, N)))))
            except KeyError:
                pass
    return s


def _penv_for(n, penv):
    """env with every variable a leaf's parameters may need (missing ones - a bound product
    variable - are filled with zeros; only used for scale estimates)."""
    pe = dict(penv)
    N = rg.env_len(penv) if penv else 1
    for P in rg.own_params(n):
        if P["k"] != "const" and P["var"] not in pe:
            d = len(P["V1"][0]) if P["k"] in ("affine", "affine2") else 1
            pe[P["var"]] = np.zeros((N, d))
        if P["k"] == "affine2" and P["var2"] not in pe:
            pe[P["var2"]] = np.zeros((N, len(P["V2"][0])))
    if not pe:
        pe = {}
    return pe


def tolerances(E, penv):
    s = scale_of(E, penv)
    tb = 1e-4 * s
    for n in rg.walk(E):
        if n["t"] == "mesh" and n.get("tol"):
            # a polyhedron built with its own boundary tolerance: by the user's declaration points closer to
            # a face than that are on its boundary, so "on the boundary" cannot be judged more finely
            tb = max(tb, 1.5 * float(n["tol"]))
    return {"scale": s, "tol_in": 2e-5 * s, "tol_b": tb}


def split_env(D, env):
    """env -> (Points in the domain's space order, params Points) as float32 tensors."""
    dom_vars = list(D.space.keys())
    pt = Points.from_coordinates({v: torch.tensor(env[v], dtype=torch.float32) for v in dom_vars})
    rest = {k: torch.tensor(v, dtype=torch.float32) for k, v in env.items() if k not in dom_vars}
    pr = Points.from_coordinates(rest) if rest else Points.empty()
    return pt, pr


def env32(env):
    """round an env to float32 (what the library will see) but keep float64 arrays."""
    return {k: np.asarray(v, dtype=np.float32).astype(np.float64) for k, v in env.items()}


def repeat_env(penv, n):
    return {k: np.repeat(v, n, axis=0) for k, v in penv.items()}


def as_bool_rows(ans, N):
    """library membership answer -> (ok, bool array (N,)) ; ok False if the shape is wrong."""
    if not isinstance(ans, torch.Tensor):
        return False, None
    if ans.numel() != N:
        return False, None
    a = ans.detach().reshape(-1)
    vals = a.double().numpy() if a.dtype != torch.bool else a.numpy().astype(float)
    if not np.all((vals == 0) | (vals == 1)):
        return False, None
    return True, vals.astype(bool)


def space_box(E, penv_rows):
    """reference box (2*dim,) over all given parameter rows for each space variable of E:
    dict var -> (lo array, hi array)."""
    out = {}
    for var, d in rg.space_vars(_strip_boundary(E)):
        out[var] = None

    def visit(n, pe):
        t = n["t"]
        if t in ("boundary", "bleft", "bright"):
            return visit(n["a"], pe)
        if t == "product":
            visit(n["b"], pe)
            # first factor may depend on the second factor's variables: take their box corners
            pe2 = dict(pe)
            for var, d in rg.space_vars(_strip_boundary(n["b"])):
                if var in rg.free_vars(_strip_boundary(n["a"])) and var not in pe2:
                    lo, hi = out[var]
                    K = max(rg.env_len(pe), 1) if pe else 1
                    base = {k: np.concatenate([v, v, v]) for k, v in pe.items()}
                    base[var] = np.concatenate([np.tile(lo, (K, 1)), np.tile((lo + hi) / 2, (K, 1)),
                                                np.tile(hi, (K, 1))])
                    pe2 = base
            return visit(n["a"], pe2)
        b = rg.ref_box(n, pe if pe else {})
        lo, hi = b[:, 0::2].min(0), b[:, 1::2].max(0)
        var = rg.space_vars(n)[0][0]
        if out.get(var) is None:
            out[var] = (lo, hi)
        else:
            out[var] = (np.minimum(out[var][0], lo), np.maximum(out[var][1], hi))
    visit(E, penv_rows)
    return out


def _strip_boundary(E):
    if E["t"] in ("boundary", "bleft", "bright"):
        return _strip_boundary(E["a"])
    if E["t"] == "product":
        return {"t": "product", "a": _strip_boundary(E["a"]), "b": _strip_boundary(E["b"])}
    return E


def uniform_queries(E, penv, rows_idx, gen, inflate=0.25):
    """uniform points in the inflated reference box; rows_idx = parameter row index per query.
    Returns env (points + their parameter rows)."""
    N = len(rows_idx)
    boxes = space_box(E, penv)
    env = {k: v[rows_idx] for k, v in penv.items()}
    for var, (lo, hi) in boxes.items():
        w = np.maximum(hi - lo, 0.3)
        env[var] = (lo - inflate * w)[None, :] + gen.random((N, len(lo))) * ((1 + 2 * inflate) * w)[None, :]
    return env


def near_boundary_queries(E, env, gen, tol, factors=(0.5, 2.0, 10.0, 100.0)):
    """From an env of query rows for an INTERIOR expression: pair up an inside and an outside
    row with the same parameter row where possible, bisect to the boundary along the segment
    and return rows displaced by +-f*tol along it."""
    E = _strip_boundary(E)
    c = rg.contains(E, env)
    svars = [v for v, _ in rg.space_vars(E)]
    pkeys = [k for k in env if k not in svars]
    N = len(c)
    ins, outs = np.where(c)[0], np.where(~c)[0]
    if len(ins) == 0 or len(outs) == 0:
        return None
    m = min(len(ins), len(outs), 64)
    ia = gen.permutation(ins)[:m]
    ib = gen.permutation(outs)[:m]
    # use the parameter row of the inside point for both ends
    A = {k: env[k][ia].copy() for k in env}
    B = {k: (env[k][ib].copy() if k in svars else env[k][ia].copy()) for k in env}
    # endpoints must still be in/out under the shared parameter rows
    keep = rg.contains(E, A) & ~rg.contains(E, B)
    if not keep.any():
        return None
    A = {k: v[keep] for k, v in A.items()}
    B = {k: v[keep] for k, v in B.items()}
    for _ in range(40):
        M = {k: ((A[k] + B[k]) / 2 if k in svars else A[k]) for k in A}
        cm = rg.contains(E, M)
        for k in svars:
            A[k] = np.where(cm[:, None], M[k], A[k])
            B[k] = np.where(cm[:, None], B[k], M[k])
    # direction from inside to outside in the joint space
    diff = np.concatenate([env_b - env_a for env_a, env_b in ((A[k], B[k]) for k in svars)], axis=1)
    full = np.concatenate([(env[k][ib][keep] - env[k][ia][keep]) for k in svars], axis=1)
    nrm = np.linalg.norm(full, axis=1, keepdims=True)
    ok = nrm[:, 0] > 0
    full = full / np.where(nrm > 0, nrm, 1)
    outs_env = {k: [] for k in env}
    for f in factors:
        for sgn in (-1.0, 1.0):
            off = 0
            for k in svars:
                d = A[k].shape[1]
                outs_env[k].append(A[k] + sgn * f * tol * full[:, off:off + d])
                off += d
            for k in pkeys:
                outs_env[k].append(A[k])
    return {k: np.concatenate(v, axis=0) for k, v in outs_env.items()}


def lib_sample(D, how, n, prows, device="cpu"):
    """domain-level sampling the way the library's samplers drive it: random-uniform sampling is
    vectorised over all parameter rows; grid sampling is called with one parameter row at a
    time (GridSampler loops over the rows of a dependent domain).  Returns (Points, penv repeated
    row-wise to match) ; the row count is NOT checked here."""
    k = nrows(prows)
    params = build.params_points(prows)
    if how == "random":
        P = D.sample_random_uniform(n=n, params=params, device=device)
        return P, (repeat_env(build.params_env(prows), max(len(P) // max(k, 1), 1)) if k else {})
    if k <= 1:
        P = D.sample_grid(n=n, params=params, device=device)
        return P, (repeat_env(build.params_env(prows), len(P)) if k else {})
    parts, envs = [], []
    for i in range(k):
        pi = {kk: v[i:i + 1] for kk, v in prows.items()}
        Pi = D.sample_grid(n=n, params=build.params_points(pi), device=device)
        parts.append(Pi)
        envs.append(repeat_env(build.params_env(pi), len(Pi)))
    P = parts[0]
    for q in parts[1:]:
        P = P | q
    return P, {kk: np.concatenate([e[kk] for e in envs]) for kk in envs[0]}


def min_feature(E, penv):
    """smallest leaf feature (interval length, radius, shortest polygon/mesh edge)."""
    m = np.inf
    for n in rg.walk(E):
        t = n["t"]
        if t not in rg.LEAVES or t == "point":
            continue
        pe = _penv_for(n, penv)
        N = max(rg.env_len(pe), 1) if pe else 1
        if t == "interval":
            m = min(m, float(np.min(rg.pval(n["hi"], pe, N) - rg.pval(n["lo"], pe, N))))
        elif t in ("circle", "sphere"):
            m = min(m, float(np.min(rg.pval(n["r"], pe, N))))
        elif t in ("par", "tri"):
            V = rg._leaf_polygon(n, pe, N)
            for i in range(V.shape[1]):
                m = min(m, float(np.min(np.linalg.norm(V[:, (i + 1) % V.shape[1]] - V[:, i], axis=1))))
        elif t == "poly":
            for ring in rg._rings(n):
                r = np.asarray(ring, float)
                m = min(m, float(np.min(np.linalg.norm(np.roll(r, -1, axis=0) - r, axis=1))))
        elif t == "mesh":
            V = np.asarray(n["verts"], float)
            for f in n["faces"]:
                for i in range(3):
                    m = min(m, float(np.linalg.norm(V[f[i]] - V[f[(i + 1) % 3]])))
    return m


def condition_number(E, penv, floor=1.0):
    """position magnitude relative to the smallest feature: float32 coordinates carry an error
    of eps*scale, boundary tests of the library are relative to the shape size."""
    return scale_of(E, penv, floor) / max(min_feature(E, penv), 1e-12)


def touching(E, penv, tol):
    """Do two leaf boundaries of the (interior) expression coincide on more than isolated crossing
    points - shared edges / coinciding end points / tangent discs (checked at the first parameter
    row)?  The library treats such contact sets inconsistently (known finding D21)."""
    from . import refgeo as rg
    I = _strip_boundary(E)
    if I["t"] == "product":
        return touching(I["a"], penv, tol) or touching(I["b"], penv, tol)
    pe1 = {k: v[:1] for k, v in penv.items()} if penv else {}
    items = []

    def visit(n, chain):
        if n["t"] in rg.LEAVES:
            items.append((n, list(chain)))
        elif n["t"] in ("translate", "rotate"):
            visit(n["a"], [n] + list(chain))
        else:
            for c in rg.children(n):
                visit(c, chain)
    visit(I, [])
    if len(items) < 2:
        return False
    var = rg.space_vars(I)[0][0]
    dim = rg.space_vars(I)[0][1]
    for li, (leaf, chain) in enumerate(items):
        if leaf["t"] == "point":
            continue
        try:
            bp, _ = rg.leaf_boundary_points(leaf, _penv_for(leaf, pe1), 16)
        except (ValueError, KeyError):
            continue
        for node in chain:
            pe = {k: np.repeat(v, len(bp), axis=0) for k, v in pe1.items()}
            bp = rg.push_forward(node, pe, bp)
        env = {k: np.repeat(v, len(bp), axis=0) for k, v in pe1.items()}
        env[var] = bp
        for lj, (other, ochain) in enumerate(items):
            if lj == li or other["t"] == "point":
                continue
            e2 = dict(env)
            for node in ochain[::-1]:          # outermost motion first when pulling back
                e2 = rg.pull_back(node, e2)
            try:
                d = rg.leaf_contains_bdist(other, {**_penv_for(other, e2), **e2})[1]
            except (ValueError, KeyError):
                continue
            close = d <= tol
            if dim == 1:
                if close.any():
                    return True
            elif close.sum() >= 3:
                return True
    return False


def contact_op(E, env1, tol):
    """'<op>+contact' when the (single) row lies on the boundaries of two different operand leaves: op is the
    Boolean operation that joins the two (lowest common ancestor); None otherwise."""
    A = E["a"] if E["t"] == "boundary" else E
    if A["t"] == "product":
        for c in (A["a"], A["b"]):
            r = contact_op(c, env1, tol)
            if r is not None:
                return r
        return None
    if rg.has(A, lambda n: n["t"] == "product"):
        return None
    found = []

    def visit(n, e, path):
        if n["t"] in rg.LEAVES:
            found.append((float(rg.leaf_contains_bdist(n, e)[1][0]), path, n["t"]))
        elif n["t"] in ("translate", "rotate"):
            visit(n["a"], rg.pull_back(n, e), path)
        else:
            for j, c in enumerate(rg.children(n)):
                visit(c, e, path + [(n["t"], j)])
    visit(A, env1, [])
    found.sort(key=lambda f: f[0])
    if len(found) < 2 or found[1][0] > 5 * tol:
        return None
    p1, p2 = found[0][1], found[1][1]
    op = None
    for a, b in zip(p1, p2):
        op = a[0]
        if a != b:
            break
    # "~" marks a row that is only within rounding of the shared piece (float32 coordinates of a point on a
    # slanted edge): which side of the two coinciding lines it is on depends on the last bit
    exact = found[1][0] <= 1e-12 * max(1.0, float(np.max(np.abs(np.asarray(env1[rg.space_vars(A)[0][0]])))))
    # ShapelyPolygon / TrimeshPolyhedron membership does not count points of the polygon's own boundary as
    # inside (shapely `contains`), so a piece shared with such an operand is a contact defect even when exact
    poly = "-poly" if (found[0][2] in ("poly", "mesh") or found[1][2] in ("poly", "mesh")) else ""
    return (op or "?") + ("+contact" if exact else "+contact~") + poly
