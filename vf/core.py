"""Harness core: seeds, Hypothesis driving, violations, known findings, replay, evidence.

A check module (checks/cXX.py) provides

    PROPERTY      "C20"
    RULE          text: how cases are generated and what makes one non-trivial / distinct
    ASSUMPTIONS   list of strings
    BUDGET        {"quick": {"examples": N, "workers": W}, "thorough": {...}}
    strategy(tier)            -> Hypothesis strategy producing a JSON-serialisable spec
    run_case(spec, ctx)       -> dict(nontrivial=bool, summary=..., classes=[...]) ; reports
                                 problems through ctx.violation(...) / ctx.lib(...)
    extra_cases(tier, seed)   (optional) -> iterable of specs executed besides the generated
                                 ones (exhaustive sub-spaces, pinned regressions)

Everything random comes from Hypothesis; the library's own RNGs are seeded from spec['rng'].
"""
import contextlib
import fnmatch
import hashlib
import json
import os
import sys
import time
import traceback
from collections import Counter

VERIF = os.path.dirname(os.path.dirname(os.path.abspath(__file__)))
REPO_SRC = os.environ.get("VERIF_SRC", "/repo/src")

EXIT_OK, EXIT_VIOLATION, EXIT_HARNESS = 0, 1, 2


class HarnessError(Exception):
    pass


def setup_imports():
    """Make `torchphysics` come from the working tree under test, single threaded."""
    os.environ.setdefault("TORCHPHYSICS_VERIF", "1")
    src = os.path.abspath(REPO_SRC)
    if src in sys.path:
        sys.path.remove(src)
    sys.path.insert(0, src)
    import faulthandler
    import signal
    faulthandler.register(signal.SIGUSR2, all_threads=True)     # kill -USR2 <pid> dumps the stack
    import warnings
    warnings.filterwarnings("ignore")
    import torch
    torch.set_num_threads(1)
    import torchphysics
    f = os.path.abspath(torchphysics.__file__)
    if not f.startswith(src + os.sep):
        raise HarnessError(f"torchphysics imported from {f}, expected under {src}")
    return torchphysics


def seed_library(rng):
    import numpy, torch, random
    torch.manual_seed(int(rng))
    numpy.random.seed(int(rng) % (2 ** 32))
    random.seed(int(rng))
    try:    # trimesh draws from its own module-level Generator (seeded from OS entropy)
        import trimesh.util
        if hasattr(trimesh.util, "_RANDOM_DEFAULT"):
            trimesh.util._RANDOM_DEFAULT = numpy.random.default_rng(int(rng))
    except ImportError:
        pass


def canon(obj):
    return json.dumps(obj, sort_keys=True, separators=(",", ":"), default=_json_default)


def _json_default(o):
    try:
        import numpy as np
        if isinstance(o, np.generic):
            return o.item()
        if isinstance(o, np.ndarray):
            return o.tolist()
    except ImportError:
        pass
    try:
        import torch
        if isinstance(o, torch.Tensor):
            return o.detach().cpu().tolist()
    except ImportError:
        pass
    if isinstance(o, (set, frozenset, tuple)):
        return list(o)
    return repr(o)


def spec_hash(spec, drop=("rng",)):
    if isinstance(spec, dict):
        spec = {k: v for k, v in spec.items() if k not in drop}
    return hashlib.sha1(canon(spec).encode()).hexdigest()[:16]


class Violation(Exception):
    def __init__(self, prop, kind, signature, detail, spec=None):
        super().__init__(f"{prop} {signature}: {detail}")
        self.prop, self.kind, self.signature, self.detail, self.spec = \
            prop, kind, signature, detail, spec


def lib_frame(tb_exc):
    """Innermost frame inside the torchphysics package of a traceback (file:function)."""
    frames = traceback.extract_tb(tb_exc.__traceback__)
    best = None
    for fr in frames:
        fn = fr.filename.replace("\\", "/")
        if "/torchphysics/" in fn:
            best = f"{fn.split('/torchphysics/')[-1]}:{fr.name}"
    if best is None and frames:
        fr = frames[-1]
        best = f"{os.path.basename(fr.filename)}:{fr.name}"
    return best or "?"


class BudgetExceeded(Exception):
    """deterministic resource budget of one library call exhausted (DESIGN 3.4)"""


class WallClockExceeded(BaseException):
    """generous wall-clock cap of one library call hit: the case is inconclusive, not a violation"""


class _Budget:
    """Counts random draws requested by the library during one `ctx.lib` block.  The library's
    retry loops all draw fresh random numbers per round, so a bounded number of draws bounds
    the number of rounds without consulting the clock."""
    MAX_CALLS = 4000
    MAX_ELEMS = 2 * 10 ** 7
    WALL_S = 60
    installed = False
    active = False
    calls = 0

    @classmethod
    def install(cls):
        if cls.installed:
            return
        cls.installed = True
        import numpy
        import torch

        def wrap(mod, name, size_of):
            orig = getattr(mod, name)

            def counted(*a, **k):
                if cls.active:
                    cls.calls += 1
                    n = size_of(a, k)
                    if cls.calls > cls.MAX_CALLS or n > cls.MAX_ELEMS:
                        cls.active = False
                        raise BudgetExceeded(f"{name}: call #{cls.calls}, {n} elements requested")
                return orig(*a, **k)
            counted.__wrapped__ = orig
            setattr(mod, name, counted)

        def tsize(a, k):
            sz = a[0] if a and isinstance(a[0], (tuple, list, torch.Size)) else a
            n = 1
            for v in sz:
                if isinstance(v, int):
                    n *= max(v, 0)
            return n
        wrap(torch, "rand", tsize)
        wrap(torch, "rand_like", lambda a, k: a[0].numel() if a else 0)
        wrap(torch, "randperm", lambda a, k: a[0] if a and isinstance(a[0], int) else 0)

        def nsize(a, k):
            import numpy as np
            sz = a[0] if a else k.get("size", 1)
            try:
                return int(np.prod(sz)) if sz is not None else 1
            except Exception:   # noqa: BLE001
                return 1
        wrap(numpy.random, "random", nsize)

    @classmethod
    def start(cls):
        cls.install()
        cls.calls = 0
        cls.active = True
        import signal

        def on_alarm(signum, frame):
            raise WallClockExceeded()
        signal.signal(signal.SIGALRM, on_alarm)
        signal.alarm(cls.WALL_S)

    @classmethod
    def stop(cls):
        import signal
        signal.alarm(0)
        cls.active = False


class KnownFindings:
    def __init__(self, prop, path=None):
        path = path or os.environ.get("VERIF_KNOWN") or os.path.join(VERIF, "known_findings.json")
        self.entries = []
        if os.path.exists(path):
            with open(path) as f:
                data = json.load(f)
            self.entries = [e for e in data.get("findings", []) if e.get("property") == prop]
        self.known = [e for e in self.entries if e.get("kind") == "known"]
        self.fixed = [e for e in self.entries if e.get("kind") == "fixed"]

    def match(self, signature):
        for e in self.known:
            for pat in e.get("signatures", []):
                if fnmatch.fnmatchcase(signature, pat):
                    return e
        return None


class Ctx:
    """Per-run collector; also the per-case reporting interface handed to run_case."""

    def __init__(self, prop, tier, seed, known=None):
        self.prop, self.tier, self.seed = prop, tier, seed
        self.known = known if known is not None else KnownFindings(prop)
        self.evaluations = 0
        self.nontrivial = set()
        self.distinct = set()
        self.samples = []
        self.events = Counter()
        self.known_hits = Counter()
        self.known_examples = {}
        self.inconclusive = 0
        self.pending = {}          # unlisted signature -> first Violation (not yet shrunk)
        self.case_violations = []
        self.spec = None
        self.max_samples = 8

    # ---- reporting interface used by run_case -------------------------------------
    def event(self, name, n=1):
        self.events[name] += n

    def violation(self, kind, feature, detail):
        """kind: oracle that failed; feature: narrow description of what triggers it."""
        sig = f"{kind}:{feature}"
        self.case_violations.append(Violation(self.prop, kind, sig, str(detail)[:600], self.spec))

    @contextlib.contextmanager
    def lib(self, label, feature=None, ok=(), budget_calls=None, big=False):
        """Library call that must return: any exception is a `crash` violation (DESIGN 3.6).
        Exceptions of the types in `ok` are re-raised for the caller to handle."""
        nested = _Budget.active
        old_max = _Budget.MAX_CALLS
        try:
            if not nested:
                if budget_calls:
                    _Budget.MAX_CALLS = budget_calls      # a block that legitimately makes many calls
                _Budget.start()
            try:
                yield
            finally:
                if not nested:
                    _Budget.stop()
                    _Budget.MAX_CALLS = old_max
        except ok:
            raise
        except (Violation, HarnessError, KeyboardInterrupt, CaseAborted):
            raise
        except WallClockExceeded:
            self.inconclusive_case("wall-clock:" + label)
            raise CaseAborted()
        except BudgetExceeded as e:
            if big and _Budget.calls <= _Budget.MAX_CALLS:
                # a request for very many points met the per-draw element cap (a memory guard of the
                # harness, not a round count): nothing is known about termination
                self.inconclusive_case("element-cap:" + label)
                raise CaseAborted() from e
            fr = lib_frame(e)
            self.violation("nontermination", f"{fr}" + (f"|{feature}" if feature else ""),
                           f"{label}: random-draw budget exhausted ({e}); the call does not terminate "
                           f"within {_Budget.MAX_CALLS} sampling rounds")
            raise CaseAborted() from e
        except Exception as e:   # noqa: BLE001 - deliberate: the contract is "returns"
            fr = lib_frame(e)
            feat = f"{type(e).__name__}@{fr}" + (f"|{feature}" if feature else "")
            msg = f"{label}: {type(e).__name__}: {e}"
            self.violation("crash", feat, msg)
            raise CaseAborted() from e

    def inconclusive_case(self, why):
        self.inconclusive += 1
        self.events["inconclusive:" + why] += 1

    # ---- driver side --------------------------------------------------------------
    def execute(self, mod, spec, count=True):
        """Run one case; returns the list of violations that are not known findings."""
        self.spec = spec
        self.case_violations = []
        info = None
        try:
            if isinstance(spec, dict) and "rng" in spec:
                seed_library(spec["rng"])
            info = mod.run_case(spec, self)
        except CaseAborted:
            pass
        except Exception as e:      # noqa: BLE001
            if type(e).__name__ != "EmptyReference":
                raise
            self.inconclusive_case("empty-reference-set")
        finally:
            self.spec = None
        if count:
            self.evaluations += 1
            h = spec_hash(spec)
            self.distinct.add(h)
            if info and info.get("nontrivial"):
                if h not in self.nontrivial and len(self.samples) < self.max_samples:
                    self.samples.append({"spec": spec, "observed": info.get("summary")})
                self.nontrivial.add(h)
            if info:
                for c in info.get("classes", ()):
                    self.events["class:" + c] += 1
        unlisted = []
        for v in self.case_violations:
            e = self.known.match(v.signature)
            if e is not None:
                if count:
                    self.known_hits[e["id"]] += 1
                    self.known_examples.setdefault(e["id"], {"signature": v.signature,
                                                             "detail": v.detail, "spec": spec})
            else:
                unlisted.append(v)
        return unlisted

    def to_json(self):
        return {
            "evaluations": self.evaluations,
            "nontrivial": sorted(self.nontrivial),
            "distinct": len(self.distinct),
            "samples": self.samples,
            "events": dict(self.events),
            "known_hits": dict(self.known_hits),
            "known_examples": self.known_examples,
            "inconclusive": self.inconclusive,
        }


class CaseAborted(Exception):
    pass


# ------------------------------------------------------------------------------------
def hypothesis_search(mod, ctx, tier, seed, examples, shrink=True, max_buckets=4):
    """Generated-input search. Returns list of shrunk unlisted Violations (one per signature)."""
    import hypothesis
    from hypothesis import HealthCheck, Phase, given, settings

    # bound the shrinker: it only affects how small the reported reproduction is
    from hypothesis.internal.conjecture import engine as _engine
    _engine.MAX_SHRINKS = 80 if tier == "quick" else 300
    _engine.MAX_SHRINKING_SECONDS = 25 if tier == "quick" else 120
    found = []
    suppressed = set()
    phases = [Phase.explicit, Phase.generate, Phase.target]
    if shrink:
        phases.append(Phase.shrink)
    strategy = mod.strategy(tier)
    budget = examples
    for bucket in range(max_buckets):
        state = {"target": None}

        def body(spec):
            vs = ctx.execute(mod, spec)
            for v in vs:
                if v.signature in suppressed:
                    continue
                if state["target"] is None:
                    state["target"] = v.signature
                if v.signature == state["target"]:
                    raise v

        test = settings(max_examples=max(1, budget), database=None, deadline=None,
                        derandomize=False, report_multiple_bugs=False, phases=phases,
                        suppress_health_check=list(HealthCheck),
                        verbosity=hypothesis.Verbosity.quiet)(
            hypothesis.seed(seed + 7919 * bucket)(given(strategy)(body)))
        before = ctx.evaluations
        try:
            test()
            break
        except BaseException as e:   # noqa: BLE001 - Hypothesis wraps unreliable failures in groups
            v = _extract_violation(e)
            if v is None:
                raise
            if not isinstance(e, Violation):
                v.detail = "[did not reproduce on immediate re-execution: Hypothesis reported Flaky] " + v.detail
            found.append(v)
            suppressed.add(v.signature)
            # continue the search behind this finding with what is left of the budget
            budget = max(examples // 4, examples - (ctx.evaluations - before))
    return found


def _extract_violation(e, depth=0):
    if isinstance(e, Violation):
        return e
    if depth > 6 or e is None:
        return None
    for sub in getattr(e, "exceptions", ()) or ():
        v = _extract_violation(sub, depth + 1)
        if v is not None:
            return v
    for sub in (e.__cause__, e.__context__):
        v = _extract_violation(sub, depth + 1)
        if v is not None:
            return v
    return None


def write_replay(v, tier, seed):
    d = os.path.join(VERIF, ".work", "scratch-" + os.environ["VERIF_SCRATCH"], "replays") \
        if os.environ.get("VERIF_SCRATCH") else os.path.join(VERIF, "replays", "found")
    os.makedirs(d, exist_ok=True)
    h = hashlib.sha1((v.signature + canon(v.spec)).encode()).hexdigest()[:12]
    path = os.path.join(d, f"{v.prop}-{h}.json")
    with open(path, "w") as f:
        json.dump({"property": v.prop, "signature": v.signature, "kind": v.kind,
                   "detail": v.detail, "tier": tier, "seed": seed, "spec": v.spec},
                  f, indent=1, default=_json_default)
    return path


def replay_file(mod, path):
    """Plain regression run of one saved case, bypassing Hypothesis. Returns violations."""
    with open(path) as f:
        data = json.load(f)
    ctx = Ctx(mod.PROPERTY, "quick", 0, known=_NoKnown())
    vs = ctx.execute(mod, data["spec"], count=False)
    return data, vs


class _NoKnown:
    known, fixed, entries = [], [], []

    def match(self, signature):
        return None
