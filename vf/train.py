"""Training configurations for C07 / C19: Hypothesis strategy -> JSON spec -> real torchphysics
objects ("world"), the plain PyTorch reference loop, and comparison helpers.

Everything in a world is built from the spec alone (torch.manual_seed(spec['rng']) first), so
two builds of one spec give bitwise identical initial weights, data and sample points.
Sampling is deterministic by construction: Interval/Circle grids, products of interval grids,
DataSampler, and random samplers that are made static and sampled once inside build().
"""
import logging
import math
import warnings

import torch
from hypothesis import strategies as st

import torchphysics as tp
from torchphysics.problem.conditions import (AdaptiveWeightsCondition, Condition, DataCondition,
                                             DeepRitzCondition, MeanCondition,
                                             ParameterCondition, PeriodicCondition, PINNCondition)

TOL = 1e-6
OUT_NAMES = ["u", "v"]
PARAM_NAMES = [["k", "kk"], ["q", "qq"]]


def quiet():
    warnings.filterwarnings("ignore")
    for n in ("pytorch_lightning", "lightning.pytorch", "lightning", "lightning_fabric",
              "lightning.fabric", "pytorch_lightning.utilities.rank_zero",
              "pytorch_lightning.accelerators.cuda", "lightning.pytorch.utilities.rank_zero"):
        lg = logging.getLogger(n)
        lg.setLevel(logging.ERROR)
        lg.propagate = False


quiet()
import pytorch_lightning as pl  # noqa: E402


# ====================================================================== generator
def _f(lo, hi, nd=3):
    k = 10 ** nd
    return st.integers(int(round(lo * k)), int(round(hi * k))).map(lambda i: i / k)


@st.composite
def _model(draw):
    arch = draw(st.sampled_from(["FCN", "FCN", "QRES", "DeepRitz"]))
    m = {"arch": arch, "in": draw(st.sampled_from(["x", "x", "xt", "x2"])),
         "out": draw(st.sampled_from([1, 1, 2]))}
    if arch == "DeepRitz":
        m["width"] = draw(st.integers(2, 5))
        m["depth"] = draw(st.integers(1, 2))
    else:
        m["hidden"] = draw(st.lists(st.integers(1, 6), min_size=1, max_size=2))
        m["act"] = draw(st.sampled_from(["tanh", "sigmoid", "sin"]))
    return m


@st.composite
def _param(draw):
    nvar = draw(st.sampled_from([1, 1, 1, 2]))
    dims = [draw(st.sampled_from([1, 1, 2])) for _ in range(nvar)]
    init = [draw(_f(-1.5, 1.5, 2)) for _ in range(sum(dims))]
    return {"dims": dims, "init": init}


@st.composite
def _sampler(draw):
    return {"k": draw(st.sampled_from(["grid", "grid", "data", "static-random"])),
            "n": draw(st.integers(1, 8)), "n2": draw(st.integers(1, 3)),
            "static": draw(st.booleans())}


# PeriodicCondition: which variables its data function depends on ("all" = the periodic and the
# non-periodic one, so f_left != f_right row by row) and the kind of the non-periodic sampler
FN_OF = ["all", "all", "periodic", "nonperiodic"]
NPS_KINDS = ["grid", "grid", "random", "data"]


@st.composite
def _cond(draw, n_models, n_params, types, allow_join, single_batch):
    typ = draw(st.sampled_from(types))
    c = {"type": typ, "model": draw(st.integers(0, n_models - 1)),
         "weight": draw(st.one_of(_f(0.1, 5.0, 2), st.sampled_from([1.0, 0.1, 5.0])))}
    if typ == "param":
        c["params"] = [draw(st.integers(0, n_params - 1))]
        c["target"] = draw(_f(-1, 1, 2))
        return c
    if typ == "data":
        c["n"] = draw(st.integers(1, 8))
        c["batch"] = c["n"] if single_batch else draw(st.integers(1, 8))
        c["norm"] = draw(st.sampled_from([2, 2, 1, 3, "inf"]))
        c["root"] = draw(st.sampled_from([1.0, 1.0, 2.0]))
        c["full"] = draw(st.booleans())
        c["constrain"] = draw(st.booleans())
        return c
    c["sampler"] = draw(_sampler())
    c["res"] = draw(st.sampled_from(["value", "deriv", "deriv2"]))
    c["data_fn"] = draw(st.booleans())
    if n_params:
        c["params"] = sorted(set(draw(st.lists(st.integers(0, n_params - 1), max_size=2))))
    else:
        c["params"] = []
    if len(c["params"]) == 2:
        # two Parameters can only be handed over joined (Parameter docstring, Notes)
        if not allow_join or typ == "spy":
            c["params"] = c["params"][:1]
    if typ == "spy":
        c["use_iter"] = draw(st.booleans())
    if typ in ("pinn", "mean", "ritz", "periodic"):
        c["track"] = True
    if typ == "periodic":
        # data functions also with a static non-periodic sampler (D19 is fixed): they are then
        # pre-evaluated and stored as tensors per interval end, and moved by on_train_start
        c["static_fn"] = True
        c["fn_of"] = draw(st.sampled_from(FN_OF))
        c["nps"] = draw(st.sampled_from(NPS_KINDS))
    return c


@st.composite
def _optimizer(draw):
    kind = draw(st.sampled_from(["adam", "momentum", "sgd", "adamw", "rmsprop"]))
    o = {"kind": kind, "lr": draw(st.sampled_from([0.001, 0.003, 0.01, 0.03, 0.05, 0.1]))}
    if kind == "sgd":
        o["weight_decay"] = draw(st.sampled_from([0.0, 0.0, 0.01]))
    elif kind == "momentum":
        o["momentum"] = draw(_f(0.5, 0.95, 2))
        o["nesterov"] = draw(st.booleans())
        o["weight_decay"] = draw(st.sampled_from([0.0, 0.0, 0.01]))
    elif kind in ("adam", "adamw"):
        o["betas"] = [draw(_f(0.5, 0.95, 2)), draw(_f(0.8, 0.999, 3))]
        o["amsgrad"] = draw(st.booleans())
        o["weight_decay"] = draw(st.sampled_from([0.0, 0.0, 0.01, 0.1]))
    else:
        o["alpha"] = draw(_f(0.8, 0.99, 2))
        o["momentum"] = draw(st.sampled_from([0.0, 0.5]))
        o["centered"] = draw(st.booleans())
    return o


@st.composite
def _scheduler(draw):
    kind = draw(st.sampled_from(["step", "exp"]))
    s = {"kind": kind, "gamma": draw(_f(0.5, 0.95, 2)), "freq": draw(st.integers(1, 3))}
    if kind == "step":
        s["step_size"] = draw(st.integers(1, 3))
    return s


TRAIN_TYPES = ["pinn", "adaptive", "data", "spy", "param", "mean", "ritz", "periodic", "pinn",
               "adaptive", "data"]
RESUME_TYPES = ["pinn", "adaptive", "data", "param", "mean", "ritz", "periodic", "pinn", "adaptive"]
VAL_TYPES = ["pinn", "data", "mean"]


@st.composite
def config(draw, tier="quick", resume=False):
    """resume=True: the C19 variant (no iteration-dependent spy, single-batch data conditions,
    no joined Parameters, no validation)."""
    n_models = draw(st.integers(1, 2))
    models = [draw(_model()) for _ in range(n_models)]
    n_params = draw(st.sampled_from([1, 0, 2, 1]))
    params = [draw(_param()) for _ in range(n_params)]
    types = [t for t in (RESUME_TYPES if resume else TRAIN_TYPES) if n_params or t != "param"]
    allow_join = (not resume) and draw(st.integers(0, 5)) == 5
    n_train = draw(st.sampled_from([2, 1, 3, 4]))
    train = [draw(_cond(n_models, n_params, types, allow_join, resume)) for _ in range(n_train)]
    spec = {"models": models, "params": params, "train": train,
            "opt": draw(_optimizer()),
            "sched": draw(st.one_of(_scheduler(), st.none(), _scheduler())),
            "rng": draw(st.integers(0, 2 ** 31 - 1))}
    if resume:
        spec["steps"] = draw(st.sampled_from([4, 3, 5, 2, 6, 7, 8, 9, 10]))
        spec["val"] = []
        spec["val_interval"] = None
        return spec
    spec["steps"] = draw(st.sampled_from([3, 2, 4, 5, 1, 6, 7, 8]))
    spec["default_names"] = draw(st.integers(0, 2)) == 0
    spec["default_opt_args"] = draw(st.booleans())
    # optionally a second, independent training with another learning rate in the same process
    spec["second_lr"] = draw(st.sampled_from([None, None, 0.1, 0.37, 3.0]))
    n_val = draw(st.sampled_from([0, 0, 1, 2]))
    val = []
    for _ in range(n_val):
        v = draw(_cond(n_models, n_params, VAL_TYPES, False, False))
        v["track"] = draw(st.booleans())
        v["own_model"] = draw(st.booleans())
        v["own_param"] = draw(st.booleans()) and v["type"] != "data"
        val.append(v)
    spec["val"] = val
    spec["val_interval"] = draw(st.integers(1, spec["steps"])) if val else None
    return spec


# ====================================================================== builder
class _Sin(torch.nn.Module):
    def forward(self, x):
        return torch.sin(x)


def _act(name):
    return {"tanh": torch.nn.Tanh(), "sigmoid": torch.nn.Sigmoid(), "sin": _Sin()}[name]


def _named(argnames, body):
    """A real Python function with exactly these positional argument names (UserFunction
    dispatches on the signature) that forwards its arguments as a dict to `body`."""
    argnames = list(argnames)
    src = "def fn({a}):\n    return _body({{{d}}})\n".format(
        a=", ".join(argnames), d=", ".join(f"'{a}': {a}" for a in argnames))
    ns = {"_body": body}
    exec(src, ns)   # noqa: S102 - fixed template, names come from the harness' own tables
    return ns["fn"]


def _in_space(kind):
    if kind == "x":
        return tp.spaces.R1("x")
    if kind == "xt":
        return tp.spaces.R1("x") * tp.spaces.R1("t")
    return tp.spaces.R2("x")


def _in_vars(kind):
    return {"x": ["x"], "xt": ["x", "t"], "x2": ["x"]}[kind]


def _in_dim(kind):
    return {"x": 1, "xt": 2, "x2": 2}[kind]


def _out_space(name, dim):
    return tp.spaces.R1(name) if dim == 1 else tp.spaces.R2(name)


def _build_model(m, out_name):
    ins, outs = _in_space(m["in"]), _out_space(out_name, m["out"])
    if m["arch"] == "FCN":
        return tp.models.FCN(ins, outs, hidden=tuple(m["hidden"]), activations=_act(m["act"]))
    if m["arch"] == "QRES":
        return tp.models.QRES(ins, outs, hidden=tuple(m["hidden"]), activations=_act(m["act"]))
    return tp.models.DeepRitzNet(ins, outs, width=m["width"], depth=m["depth"])


def _param_space(names, dims):
    sp = None
    for n, d in zip(names, dims):
        s = tp.spaces.R1(n) if d == 1 else tp.spaces.R2(n)
        sp = s if sp is None else sp * s
    return sp


def _build_sampler(s, kind, gen, force_static=False):
    """deterministic sampler on the model's input space; returns (sampler, n_points)"""
    X, T, X2 = tp.spaces.R1("x"), tp.spaces.R1("t"), tp.spaces.R2("x")
    n, n2 = s["n"], s["n2"]
    static = s["static"] or force_static
    if s["k"] == "data":
        if kind == "xt":
            total = n
            pts = {"x": torch.rand((total, 1), generator=gen),
                   "t": 0.5 * torch.rand((total, 1), generator=gen)}
        else:
            total = n
            pts = {"x": torch.rand((total, _in_dim(kind)), generator=gen)}
        smp = tp.samplers.DataSampler(pts)
    elif s["k"] == "grid":
        if kind == "x":
            smp, total = tp.samplers.GridSampler(tp.domains.Interval(X, 0.0, 1.0), n_points=n), n
        elif kind == "xt":
            smp = (tp.samplers.GridSampler(tp.domains.Interval(X, 0.0, 1.0), n_points=n)
                   * tp.samplers.GridSampler(tp.domains.Interval(T, 0.0, 0.5), n_points=n2))
            total = n * n2
        else:
            smp, total = tp.samplers.GridSampler(tp.domains.Circle(X2, [0.0, 0.0], 1.0), n_points=n), n
    else:   # random sampler, made static and sampled once here -> deterministic afterwards
        if kind == "x":
            dom = tp.domains.Interval(X, 0.0, 1.0)
        elif kind == "xt":
            dom = tp.domains.Interval(X, 0.0, 1.0) * tp.domains.Interval(T, 0.0, 0.5)
        else:
            dom = tp.domains.Parallelogram(X2, [0.0, 0.0], [1.0, 0.0], [0.0, 1.0])
        smp, total, static = tp.samplers.RandomUniformSampler(dom, n_points=max(n, 2)), max(n, 2), True
    if static:
        smp = smp.make_static()
        smp.sample_points()
    return smp, total


def _psum(env, pvars):
    """(1,1) tensor: sum of all coordinates of the handed Parameters (1.0 if none)"""
    if not pvars:
        return 1.0
    tot = 0.0
    for v in pvars:
        tot = tot + env[v].sum(dim=1, keepdim=True)
    return tot


def _xcat(env, invars):
    return torch.cat([env[v] for v in invars], dim=1)


def _target(xc):
    return torch.sin(2.0 * xc.sum(dim=1, keepdim=True)) + 0.5


def _residual(c, mspec, out_name, pvars, integrand=False):
    invars = _in_vars(mspec["in"])
    names = [out_name] + invars + list(pvars) + (["f"] if c.get("data_fn") else [])
    kind = c["res"]

    def body(env):
        u = env[out_name]
        ps = _psum(env, pvars)
        f = env["f"] if c.get("data_fn") else 0.0
        if integrand:
            us = u.sum(dim=1, keepdim=True)
            if kind == "value":
                return 0.5 * us ** 2 * ps - (f + 1.0) * us + 0.1 * ps ** 2
            g = tp.utils.grad(u, env["x"])
            return 0.5 * (g ** 2).sum(dim=1, keepdim=True) * ps - (f + 1.0) * us + 0.1 * ps ** 2
        if kind == "value":
            return u - ps * _target(_xcat(env, invars)) - f
        if kind == "deriv" or mspec["arch"] == "DeepRitz":
            # (relu(z^3) has a vanishing second derivative almost nowhere defined -> first order)
            g = tp.utils.grad(u, env[invars[-1]]).sum(dim=1, keepdim=True)
            return g - ps * u - f
        lap = tp.utils.laplacian(u[:, :1], env["x"])
        if mspec["in"] == "xt":
            return tp.utils.grad(u[:, :1], env["t"]) - ps * lap - f
        return ps * lap + u - f
    return _named(names, body)


def _data_fn(mspec, only=None):
    """cos(3 * sum of the input variables); only=[names]: a function of these variables alone"""
    invars = list(only) if only else _in_vars(mspec["in"])
    return _named(invars, lambda env: torch.cos(3.0 * _xcat(env, invars).sum(dim=1, keepdim=True)))


class SpyCondition(Condition):
    """A user-defined condition (the abstract base class is public API): records the `iteration`
    argument and, if use_iter, returns a loss that depends on it."""

    def __init__(self, module, sampler, parameter, pvars, use_iter, name, weight):
        super().__init__(name=name, weight=weight, track_gradients=False)
        self.module = module
        self.parameter = parameter
        self.register_parameter(name + "_params", self.parameter.as_tensor)
        self.sampler = sampler
        self.pvars = pvars
        self.use_iter = use_iter

    def forward(self, device="cpu", iteration=None):
        x = self.sampler.sample_points(device=device)
        y = self.module(x).as_tensor
        ps = _psum(self.parameter.coordinates, self.pvars)
        it = iteration if (self.use_iter and iteration is not None) else 0
        return (1.0 + 0.5 * it) * torch.mean((y - 0.3 * ps) ** 2)


class World:
    pass


def _opt_class_args(o):
    if o["kind"] == "sgd":
        # plain SGD: no optimizer arguments at all, so that OptimizerSetting's default is exercised
        return torch.optim.SGD, ({"weight_decay": o["weight_decay"]} if o["weight_decay"] else {})
    if o["kind"] == "momentum":
        return torch.optim.SGD, {"momentum": o["momentum"], "nesterov": o["nesterov"],
                                 "weight_decay": o["weight_decay"]}
    if o["kind"] == "adam":
        return torch.optim.Adam, {"betas": tuple(o["betas"]), "amsgrad": o["amsgrad"],
                                  "weight_decay": o["weight_decay"]}
    if o["kind"] == "adamw":
        return torch.optim.AdamW, {"betas": tuple(o["betas"]), "amsgrad": o["amsgrad"],
                                   "weight_decay": o["weight_decay"]}
    return torch.optim.RMSprop, {"alpha": o["alpha"], "momentum": o["momentum"],
                                 "centered": o["centered"]}


def _sched_class_args(s):
    if s is None:
        return None, {}, 1
    if s["kind"] == "step":
        return torch.optim.lr_scheduler.StepLR, {"step_size": s["step_size"], "gamma": s["gamma"]}, s["freq"]
    return torch.optim.lr_scheduler.ExponentialLR, {"gamma": s["gamma"]}, s["freq"]


def weight_decay_of(spec):
    return float(spec["opt"].get("weight_decay", 0.0))


def has_optimizer_state(spec):
    return spec["opt"]["kind"] != "sgd"


def build(spec, with_val=True, perturb=False):
    """Build all objects of a spec. perturb=True shifts every learnable tensor afterwards (data
    and sample points stay identical): used to show that a restore really sets the state."""
    seed = int(spec["rng"])
    torch.manual_seed(seed)
    gen = torch.Generator().manual_seed(seed)
    w = World()
    w.spec = spec
    w.models = [_build_model(m, OUT_NAMES[i]) for i, m in enumerate(spec["models"])]
    w.params, w.pvars = [], []
    for i, p in enumerate(spec["params"]):
        names = PARAM_NAMES[i][:len(p["dims"])]
        w.params.append(tp.models.Parameter(init=p["init"], space=_param_space(names, p["dims"])))
        w.pvars.append(names)
    w.extra_models, w.extra_params, w.extra_pvars = [], [], []
    w.train, w.train_info = [], []
    w.val, w.val_info = [], []
    for i, c in enumerate(spec["train"]):
        cond, info = _build_cond(w, c, f"t{i}", gen, validation=False)
        w.train.append(cond)
        w.train_info.append(info)
    if with_val:
        for i, c in enumerate(spec.get("val") or []):
            cond, info = _build_cond(w, c, f"v{i}", gen, validation=True)
            w.val.append(cond)
            w.val_info.append(info)
    if perturb:
        g2 = torch.Generator().manual_seed(seed + 7919)
        with torch.no_grad():
            for t in learnables(w).values():
                t.add_(0.25 * torch.randn(t.shape, generator=g2))
    return w


def _parameter_for(w, c):
    idx = [i % len(w.params) for i in (c.get("params") or [])] if w.params else []
    if not idx:
        return None, []
    if len(idx) == 1 or idx[0] == idx[1]:
        return w.params[idx[0]], list(w.pvars[idx[0]])
    # several Parameters: "they have to be connected over .join()" (Parameter docstring)
    joined = w.params[idx[0]].join(w.params[idx[1]])
    return joined, list(w.pvars[idx[0]]) + list(w.pvars[idx[1]])


def _build_cond(w, c, tag, gen, validation):
    spec = w.spec
    typ = c["type"]
    mi = c["model"] % len(w.models)
    mspec = dict(spec["models"][mi])
    model, out_name = w.models[mi], OUT_NAMES[mi]
    info = {"type": typ, "model": mi, "adaptive": None, "n_points": None, "weight": c["weight"],
            "tag": tag,
            "params": sorted({i % len(w.params) for i in (c.get("params") or [])}) if w.params else []}
    if typ == "spy" and len(info["params"]) > 1:     # the harness' own condition takes one Parameter
        c = dict(c, params=info["params"][:1])
        info["params"] = info["params"][:1]
    if validation and not c.get("track", True):
        c = dict(c, res="value")    # no input gradients available: derivative-free residual
    if validation and c.get("own_model"):
        # a model reachable from a validation condition only
        model = _build_model(mspec, out_name)
        w.extra_models.append(model)
        info["model"] = None
    name = f"{typ}_{tag}"
    # default names: several conditions of one class then share the class' default name
    nkw = {} if w.spec.get("default_names") else {"name": name}
    if typ == "param":
        pi = c["params"][0] % len(w.params)
        pv = w.pvars[pi]
        target = c["target"]
        penalty = _named(pv, lambda env: sum(((env[v] - target) ** 2).sum() for v in pv))
        return ParameterCondition(w.params[pi], penalty, weight=c["weight"], **nkw), info
    if typ == "data":
        n = c["n"]
        xin = torch.rand((n, _in_dim(mspec["in"])), generator=gen)
        if mspec["in"] == "xt":
            xin = xin * torch.tensor([[1.0, 0.5]])
        yout = torch.randn((n, mspec["out"]), generator=gen)
        pin = tp.spaces.Points(xin, _in_space(mspec["in"]))
        pout = tp.spaces.Points(yout, _out_space(out_name, mspec["out"]))
        loader = tp.utils.PointsDataLoader((pin, pout), batch_size=c["batch"])
        constrain = None
        if c["constrain"]:
            invars = _in_vars(mspec["in"])
            constrain = _named([out_name] + invars,
                               lambda env: env[out_name] * (1.0 + _xcat(env, invars).sum(dim=1, keepdim=True)))
        cond = DataCondition(model, loader, norm=c["norm"], root=c["root"],
                             use_full_dataset=c["full"], constrain_fn=constrain, **nkw,
                             weight=c["weight"])
        return cond, info
    # ---- conditions with a sampler, a residual and an optional Parameter
    if validation and c.get("own_param"):
        k = len(w.extra_params)
        names = [f"e{k}"]
        parameter = tp.models.Parameter(init=[0.7], space=tp.spaces.R1(names[0]))
        w.extra_params.append(parameter)
        w.extra_pvars.append(names)
        pvars = names
        info["params"] = []
    else:
        parameter, pvars = _parameter_for(w, c)
    kw = {}
    if parameter is not None:
        kw["parameter"] = parameter
    if typ == "periodic" and mspec["in"] == "x2":
        typ = info["type"] = "pinn"
    if typ == "periodic":
        X, T = tp.spaces.R1("x"), tp.spaces.R1("t")
        interval = tp.domains.Interval(X, 0.0, 1.0)
        nps_kind = c.get("nps", "grid")
        static = c["sampler"]["static"] or nps_kind == "random"
        # specs written before D19 (C04/C14) was fixed have no "static_fn" key: they keep their
        # meaning (no data function next to a static non-periodic sampler)
        use_fn = c.get("data_fn") and (c.get("static_fn") or not (static and mspec["in"] == "xt"))
        names = [out_name + "_left", out_name + "_right"] + list(pvars)
        if mspec["in"] == "xt":
            names.append("t")
        if use_fn:
            names += ["f_left", "f_right"]
        if mspec["in"] == "xt":
            n_t = c["sampler"]["n"]
            if nps_kind == "data":
                nps = tp.samplers.DataSampler({"t": 0.5 * torch.rand((n_t, 1), generator=gen)})
            elif nps_kind == "random":   # pre-sampled below -> deterministic afterwards
                n_t = max(n_t, 2)
                nps = tp.samplers.RandomUniformSampler(tp.domains.Interval(T, 0.0, 0.5), n_points=n_t)
            else:
                nps = tp.samplers.GridSampler(tp.domains.Interval(T, 0.0, 0.5), n_points=n_t)
            if static:
                nps = nps.make_static()
                if nps_kind != "grid":
                    nps.sample_points()
            kw["non_periodic_sampler"] = nps
            info["n_points"] = n_t
            info["static_data"] = bool(static and use_fn)

        def body(env, out_name=out_name, pvars=pvars, use_fn=use_fn):
            r = env[out_name + "_left"] - _psum(env, pvars) * env[out_name + "_right"]
            if "t" in env:
                r = r + 0.1 * env["t"]
            if use_fn:
                r = r + env["f_left"] - 0.5 * env["f_right"]
            return r
        if use_fn:
            fn_of = c.get("fn_of", "all") if mspec["in"] == "xt" else "all"
            kw["data_functions"] = {"f": _data_fn(mspec, {"periodic": ["x"], "nonperiodic": ["t"]}.get(fn_of))}
        cond = PeriodicCondition(model, interval, _named(names, body), **nkw,
                                 weight=c["weight"], track_gradients=c.get("track", True), **kw)
        return cond, info
    sampler, total = _build_sampler(c["sampler"], mspec["in"], gen, force_static=(typ == "adaptive"))
    info["n_points"] = total
    if typ == "spy":
        if parameter is None:
            parameter = tp.models.Parameter.empty()
        cond = SpyCondition(model, sampler, parameter, pvars, c.get("use_iter", False), name, c["weight"])
        return cond, info
    if c.get("data_fn"):
        kw["data_functions"] = {"f": _data_fn(mspec)}
    if typ in ("mean", "ritz"):
        res = _residual(c, mspec, out_name, pvars, integrand=True)
        cls = MeanCondition if typ == "mean" else DeepRitzCondition
        cond = cls(model, sampler, res, **nkw, weight=c["weight"],
                   track_gradients=c.get("track", True), **kw)
        return cond, info
    res = _residual(c, mspec, out_name, pvars)
    if typ == "adaptive":
        cond = AdaptiveWeightsCondition(model, sampler, res, **nkw, weight=c["weight"], **kw)
        info["adaptive"] = cond.adaptive_layer.weight
        return cond, info
    cond = PINNCondition(model, sampler, res, **nkw, weight=c["weight"],
                         track_gradients=c.get("track", True), **kw)
    return cond, info


# ====================================================================== learnable state
def learnables(w):
    """role -> tensor, enumerated from what the harness built (never from solver.parameters())."""
    out = {}
    for i, m in enumerate(w.models):
        for n, p in m.named_parameters():
            out[f"model{i}.{n}"] = p
    for i, p in enumerate(w.params):
        if p.as_tensor.numel() > 0:
            out[f"param{i}"] = p.as_tensor
    for i, info in enumerate(w.train_info):
        if info["adaptive"] is not None:
            out[f"adaptive{i}"] = info["adaptive"]
    for i, m in enumerate(w.extra_models):
        for n, p in m.named_parameters():
            out[f"valmodel{i}.{n}"] = p
    for i, p in enumerate(w.extra_params):
        out[f"valparam{i}"] = p.as_tensor
    return out


def role_kind(role):
    if role.startswith("model"):
        return "model-weights"
    if role.startswith("param"):
        return "parameter"
    if role.startswith("adaptive"):
        return "adaptive-weights"
    return "validation-only-" + ("model" if role.startswith("valmodel") else "parameter")


def trained_roles(w):
    """roles reachable from a training condition (must be handed to the optimizer)"""
    roles = set()
    for i, info in enumerate(w.train_info):
        if info["type"] != "param":
            for n, _ in w.models[info["model"]].named_parameters():
                roles.add(f"model{info['model']}.{n}")
        for pi in info["params"]:
            roles.add(f"param{pi}")
        if info["adaptive"] is not None:
            roles.add(f"adaptive{i}")
    return roles


def snapshot(tensors):
    return {k: v.detach().clone() for k, v in tensors.items()}


def make_solver(w):
    cls, args = _opt_class_args(w.spec["opt"])
    scls, sargs, freq = _sched_class_args(w.spec["sched"])
    okw = {} if (w.spec.get("default_opt_args") and not args) else {"optimizer_args": dict(args)}
    setting = tp.OptimizerSetting(cls, w.spec["opt"]["lr"], **okw,
                                  scheduler_class=scls, scheduler_args=dict(sargs),
                                  scheduler_frequency=freq)
    return tp.solver.Solver(w.train, w.val, optimizer_setting=setting)


def make_trainer(steps, val_interval=None, callbacks=None, **kw):
    args = dict(max_steps=steps, logger=False, enable_checkpointing=False,
                enable_progress_bar=False, enable_model_summary=False, accelerator="cpu",
                devices=1, callbacks=list(callbacks or []))
    if val_interval is not None:
        args["val_check_interval"] = val_interval
    args.update(kw)
    return pl.Trainer(**args)


def optimizer_view(optimizer, scheduler, tensors):
    """role -> per-tensor optimizer state (or None if the tensor is not in the optimizer), lr,
    scheduler counters"""
    in_opt = {id(p) for g in optimizer.param_groups for p in g["params"]}
    view = {}
    for role, t in tensors.items():
        if id(t) not in in_opt:
            view[role] = None
            continue
        stt = optimizer.state.get(t, {})
        view[role] = {k: (v.detach().clone() if torch.is_tensor(v) else v) for k, v in stt.items()}
    lr = [g["lr"] for g in optimizer.param_groups]
    sched = None
    if scheduler is not None:
        sd = scheduler.state_dict()
        sched = {"last_epoch": sd.get("last_epoch"), "last_lr": list(sd.get("_last_lr", []))}
    return {"state": view, "lr": lr, "sched": sched}


def trainer_view(trainer, tensors):
    opts = trainer.optimizers
    if len(opts) != 1:
        return None
    cfgs = trainer.lr_scheduler_configs
    return optimizer_view(opts[0], cfgs[0].scheduler if cfgs else None, tensors)


# ====================================================================== reference loop
def reference_loop(w, steps, record=None):
    """Plain PyTorch: per step every training condition once with iteration=step, sum of
    weight*loss, backward, optimizer step, scheduler step every `freq` steps.  Adaptive point
    weights are plain leaves of the harness, multiplied into the unreduced loss and trained by
    ASCENT (their gradient is negated before the optimizer step)."""
    spec = w.spec
    tensors = dict(learnables(w))
    ref_adaptive = {}
    for i, (cond, info) in enumerate(zip(w.train, w.train_info)):
        if info["adaptive"] is None:
            continue
        a = info["adaptive"].detach().clone().requires_grad_(True)
        ref_adaptive[i] = a
        tensors[f"adaptive{i}"] = a
        seen = []

        def reduce_fn(unreduced, a=a, seen=seen):
            seen.append(unreduced.detach().clone())
            return torch.mean(a * unreduced)
        cond.reduce_fn = reduce_fn
        if record is not None:
            record.setdefault("unreduced", {})[i] = seen
    cls, args = _opt_class_args(spec["opt"])
    optimizer = cls(list(tensors.values()), lr=spec["opt"]["lr"], **args)
    scls, sargs, freq = _sched_class_args(spec["sched"])
    scheduler = scls(optimizer, **sargs) if scls is not None else None
    losses = []
    for step in range(steps):
        total = None
        for cond, info in zip(w.train, w.train_info):
            l = cond(device="cpu", iteration=step)
            term = info["weight"] * l
            total = term if total is None else total + term
        optimizer.zero_grad()
        total.backward()
        for a in ref_adaptive.values():
            if a.grad is not None:
                a.grad.neg_()
        optimizer.step()
        if scheduler is not None and (step + 1) % freq == 0:
            scheduler.step()
        losses.append(float(total.detach().reshape(-1)[0]))
    return tensors, optimizer_view(optimizer, scheduler, tensors), losses


# ====================================================================== comparison
def maxdiff(a, b):
    """max abs difference, NaN/inf positions must coincide; inf if shapes differ"""
    if not (torch.is_tensor(a) and torch.is_tensor(b)) or a.shape != b.shape:
        return math.inf
    if a.numel() == 0:
        return 0.0
    a, b = a.detach().double(), b.detach().double()
    fin = torch.isfinite(a) & torch.isfinite(b)
    if not torch.equal(torch.isfinite(a), torch.isfinite(b)):
        return math.inf
    if not bool(fin.all()):
        same = (a == b) | (torch.isnan(a) & torch.isnan(b))
        if not bool(same[~fin].all()):
            return math.inf
    if not bool(fin.any()):
        return 0.0
    return float((a[fin] - b[fin]).abs().max())


def all_finite(tensors):
    return all(bool(torch.isfinite(t).all()) for t in tensors.values())


def compare_tensors(ta, tb):
    """role -> max abs diff for the common roles; roles missing on one side get inf"""
    out = {}
    for role in ta:
        out[role] = maxdiff(ta[role], tb[role]) if role in tb else math.inf
    return out


def compare_views(va, vb):
    """list of (what, role-kind, detail) differences between two optimizer views"""
    diffs = []
    for role, sa in va["state"].items():
        sb = vb["state"].get(role)
        if sa is None or sb is None:
            if (sa is None) != (sb is None):
                diffs.append(("membership", role, f"in optimizer: {sa is not None} vs {sb is not None}"))
            continue
        for k in sorted(set(sa) | set(sb)):
            if k not in sa or k not in sb:
                diffs.append(("state", role, f"entry '{k}' only on one side"))
                continue
            x, y = sa[k], sb[k]
            if torch.is_tensor(x) and torch.is_tensor(y):
                d = maxdiff(x.reshape(-1), y.reshape(-1)) if x.numel() == y.numel() else math.inf
                if d > TOL:
                    diffs.append(("state", role, f"'{k}' differs by {d:.3e}"))
            elif x != y:
                diffs.append(("state", role, f"'{k}': {x} vs {y}"))
    if len(va["lr"]) != len(vb["lr"]) or any(abs(x - y) > 1e-12 * max(1.0, abs(x))
                                             for x, y in zip(va["lr"], vb["lr"])):
        diffs.append(("lr", "lr", f"lr {va['lr']} vs {vb['lr']}"))
    sa, sb = va["sched"], vb["sched"]
    if (sa is None) != (sb is None):
        diffs.append(("lr", "scheduler", f"scheduler present: {sa is not None} vs {sb is not None}"))
    elif sa is not None:
        if sa["last_epoch"] != sb["last_epoch"]:
            diffs.append(("lr", "scheduler", f"scheduler last_epoch {sa['last_epoch']} vs {sb['last_epoch']}"))
    return diffs


def classes_of(spec):
    cl = [f"opt:{spec['opt']['kind']}", f"models:{len(spec['models'])}",
          f"params:{len(spec['params'])}", f"ntrain:{len(spec['train'])}",
          "sched:" + (spec["sched"]["kind"] if spec["sched"] else "none")]
    for c in spec["train"]:
        cl.append("cond:" + c["type"])
    for m in spec["models"]:
        cl.append("arch:" + m["arch"])
    return cl
