"""Hypothesis strategies producing JSON domain-expression specs (DESIGN 3.1).

Variables:  'u' (R1), 'x' (R2), 'y' (R3) carry points; second product factors use 't' (R1)
or 'z' (R2); parameter variables are 'p' (R1) and 'q' (R2) with rows in [0,1].
"""
import math

import numpy as np
from hypothesis import assume
from hypothesis import strategies as st

from . import refgeo as rg

PVARS = {"p": 1, "q": 2}
VAR_OF_DIM = {1: "u", 2: "x", 3: "y"}


def _r(v, nd=3):
    return round(float(v), nd)


def num(lo, hi, nd=3):
    s = 10 ** nd
    return st.integers(int(math.ceil(lo * s)), int(math.floor(hi * s))).map(lambda i: i / s)


def const(vals):
    return {"k": "const", "v": [_r(v, 4) for v in vals]}


class Ctx:
    """generation context: which variables shape parameters may depend on (name->(dim,lo,hi)),
    probability of dependence, lattice snapping."""

    def __init__(self, dep=None, pdep=0.0, lattice=False, far=False, pydef=False):
        self.dep = dep or {}
        self.pdep = pdep
        self.lattice = lattice
        self.far = far
        self.pydef = pydef        # two-variable functions may declare a Python default for their second argument


@st.composite
def _vec_param(draw, ctx, base, max_move):
    """constant vector or base + bounded affine/sin motion in one dependence variable."""
    base = [_r(b, 4) for b in base]
    if not ctx.dep or max_move <= 0 or not draw(st.integers(0, 99)) < ctx.pdep * 100:
        return const(base)
    names = sorted(ctx.dep)
    if len(names) >= 2 and draw(st.integers(0, 3)) == 0:
        # one function of TWO variables (partial evaluation with only one of them must leave a
        # function of the other)
        va, vb = draw(st.permutations(names))[:2]
        d = len(base)
        parts = []
        for vn in (va, vb):
            dvn, lon, hin = ctx.dep[vn]
            sp = max(hin - lon, 1e-9)
            parts.append([[_r(draw(num(-max_move / 2, max_move / 2)) / (sp * dvn), 4) for _ in range(dvn)] for _ in range(d)])
        v0 = [_r(base[i] - sum(parts[0][i][j] * ctx.dep[va][1] for j in range(ctx.dep[va][0]))
                 - sum(parts[1][i][j] * ctx.dep[vb][1] for j in range(ctx.dep[vb][0])), 4) for i in range(d)]
        out = {"k": "affine2", "var": va, "var2": vb, "v0": v0, "V1": parts[0], "V2": parts[1]}
        if ctx.pydef and vb != "t" and draw(st.booleans()):
            if draw(st.booleans()):
                out["pydef"] = True        # def f(va, vb=<default>): the library must still use a supplied / fixed vb
            else:
                out["kdef"] = True         # def f(va, vb, k=<default>): k is never supplied and must survive evaluation
        return out
    var = draw(st.sampled_from(names))
    dv, lo, hi = ctx.dep[var]
    span = max(hi - lo, 1e-9)
    d = len(base)
    if dv == 1 and draw(st.integers(0, 4)) == 0:
        amp = [draw(num(-max_move, max_move)) for _ in range(d)]
        return {"k": "sin", "var": var, "v0": base, "amp": amp, "freq": draw(num(0.5, 6.0))}
    # total displacement over the whole range bounded by max_move (per component)
    V1 = [[_r(draw(num(-max_move, max_move)) / (span * dv), 4) for _ in range(dv)] for _ in range(d)]
    v0 = [_r(base[i] - sum(V1[i][j] * lo for j in range(dv)), 4) for i in range(d)]
    return {"k": "affine", "var": var, "v0": v0, "V1": V1}


def _coord(ctx, c, s):
    if ctx.lattice:
        return st.integers(int(math.floor(2 * (c - s))), int(math.ceil(2 * (c + s)))).map(lambda i: i / 2)
    return num(c - s, c + s)


def _size(ctx, lo, hi):
    if ctx.lattice:
        return st.integers(max(1, int(math.ceil(2 * lo))), max(1, int(2 * hi))).map(lambda i: i / 2)
    return num(lo, hi)


@st.composite
def leaf(draw, dim, ctx, hint, force=None):
    """hint = (centre list, size) : where and how big the leaf should be."""
    cen, size = hint
    var = VAR_OF_DIM[dim]
    c = [draw(_coord(ctx, cen[i], 0.6 * size)) for i in range(dim)]
    s = draw(_size(ctx, max(0.3, 0.4 * size), max(0.35, 1.2 * size)))
    if dim == 1:
        half = s / 2
        mv = min(1.0, max(0.0, (s - 0.3) / 2.2))
        return {"t": "interval", "var": var,
                "lo": draw(_vec_param(ctx, [c[0] - half], mv)),
                "hi": draw(_vec_param(ctx, [c[0] + half], mv))}
    if dim == 2:
        kind = force or draw(st.sampled_from(["circle", "par", "par", "tri", "poly"]))
        if kind == "circle":
            r = max(0.3, s / 2)
            return {"t": "circle", "var": var, "c": draw(_vec_param(ctx, c, 1.0)),
                    "r": draw(_vec_param(ctx, [r], min(0.5, max(0.0, (r - 0.3) / 1.1))))}
        if kind in ("par", "tri"):
            if ctx.lattice:
                d1 = [draw(_size(ctx, 0.5, 1.2 * size)), 0.0]
                d2 = [draw(st.sampled_from([0.0, 0.5, -0.5])), draw(_size(ctx, 0.5, 1.2 * size))]
                if draw(st.booleans()):
                    d1, d2 = d2, d1          # clockwise
                if kind == "tri" and d1[0] * d2[1] - d1[1] * d2[0] < 0:
                    d1, d2 = d2, d1
            else:
                al = draw(num(0, 6.283)) if draw(st.integers(0, 3)) else 0.0
                be = draw(num(0.44, 2.70))             # 25..155 degrees
                if kind == "par" and draw(st.booleans()):
                    be = -be                              # clockwise parallelogram
                l1 = s
                l2 = s * draw(num(0.3, 2.0))
                l2 = min(max(l2, l1 / 8, 0.3), l1 * 8)
                d1 = [l1 * math.cos(al), l1 * math.sin(al)]
                d2 = [l2 * math.cos(al + be), l2 * math.sin(al + be)]
            o = [c[0] - (d1[0] + d2[0]) / 2, c[1] - (d1[1] + d2[1]) / 2]
            oP = draw(_vec_param(ctx, o, 1.0))
            # rigid motion of all three corners: same dependence for o, c1, c2
            def shifted(base):
                if oP["k"] == "const":
                    return const(base)
                q = dict(oP)
                delta = [base[i] - o[i] for i in range(2)]
                q["v0"] = [_r(oP["v0"][i] + delta[i], 4) for i in range(2)]
                return q
            c1P = shifted([o[0] + d1[0], o[1] + d1[1]])
            if oP["k"] == "affine" and draw(st.integers(0, 2)) == 0:
                # shape-changing dependence: corner_1 additionally moves away from the origin along
                # side 1 (the side gets up to 80% longer over the parameter range; angles unchanged)
                dv, lo_, hi_ = ctx.dep[oP["var"]]
                stretch = draw(num(0.2, 0.8)) / (max(hi_ - lo_, 1e-9) * dv)
                c1P = dict(c1P)
                c1P["V1"] = [[_r(oP["V1"][i][j] + stretch * d1[i], 4) for j in range(dv)] for i in range(2)]
                c1P["v0"] = [_r(c1P["v0"][i] - stretch * d1[i] * lo_ * dv, 4) for i in range(2)]
            return {"t": kind, "var": var, "o": oP, "c1": c1P,
                    "c2": shifted([o[0] + d2[0], o[1] + d2[1]])}
        # fixed polygons (ShapelyPolygon cannot depend on parameters)
        shape = draw(st.sampled_from(["L", "ngon", "holed", "star"]))
        dup = draw(st.integers(0, 7)) if draw(st.integers(0, 4)) == 0 else None      # a repeated vertex
        rot = 0.0 if ctx.lattice else draw(num(0, 6.283))
        h = s / 2

        def place(pts):
            cr, sr = math.cos(rot), math.sin(rot)
            return [[_r(c[0] + cr * px - sr * py, 4), _r(c[1] + sr * px + cr * py, 4)] for px, py in pts]
        if shape == "L":
            ring = [(-h, -h), (h, -h), (h, 0), (0, 0), (0, h), (-h, h)]
            if draw(st.booleans()):
                ring = ring[::-1]
            return {"t": "poly", "var": var, "verts": place(ring), "hole": None, "dup": dup}
        if shape == "star":
            # irregular star-shaped polygon (radii between 0.45h and h): its vertex triangulation has
            # triangles that the polygon covers only partly
            m = draw(st.integers(6, 10))
            a0 = draw(num(0, 6.283))
            rad = [draw(num(0.45, 1.0)) for _ in range(m)]
            ring = [(h * rad[i] * math.cos(a0 + 2 * math.pi * i / m), h * rad[i] * math.sin(a0 + 2 * math.pi * i / m)) for i in range(m)]
            return {"t": "poly", "var": var, "verts": place(ring), "hole": None, "dup": dup}
        if shape == "ngon":
            m = draw(st.integers(3, 7))
            a0 = draw(num(0, 6.283))
            ring = [(h * math.cos(a0 + 2 * math.pi * i / m), h * math.sin(a0 + 2 * math.pi * i / m)) for i in range(m)]
            return {"t": "poly", "var": var, "verts": place(ring), "hole": None, "dup": dup}
        g = h * draw(num(0.25, 0.6))
        return {"t": "poly", "var": var, "verts": place([(-h, -h), (h, -h), (h, h), (-h, h)]),
                "hole": place([(-g, -g), (-g, g), (g, g), (g, -g)]), "dup": dup}
    # dim 3
    kind = draw(st.sampled_from(["sphere", "sphere", "mesh"]))
    if kind == "sphere":
        r = max(0.3, s / 2)
        return {"t": "sphere", "var": var, "c": draw(_vec_param(ctx, c, 1.0)),
                "r": draw(_vec_param(ctx, [r], min(0.5, max(0.0, (r - 0.3) / 1.1))))}
    h = s / 2
    mk = draw(st.sampled_from(["box", "tetra", "prism"]))
    if mk == "box":
        hx, hy, hz = h, h * draw(num(0.5, 1.5)), h * draw(num(0.5, 1.5))
        V = [[sx * hx, sy * hy, sz * hz] for sx in (-1, 1) for sy in (-1, 1) for sz in (-1, 1)]
        F = [[0, 1, 3], [0, 3, 2], [4, 6, 7], [4, 7, 5], [0, 4, 5], [0, 5, 1],
             [2, 3, 7], [2, 7, 6], [0, 2, 6], [0, 6, 4], [1, 5, 7], [1, 7, 3]]
    elif mk == "tetra":
        V = [[h, h, h], [h, -h, -h], [-h, h, -h], [-h, -h, h]]
        F = [[0, 1, 2], [0, 3, 1], [0, 2, 3], [1, 3, 2]]
    else:
        V = [[h, -h, -h], [-h, -h, -h], [0, h, -h], [h, -h, h], [-h, -h, h], [0, h, h]]
        F = [[0, 1, 2], [3, 5, 4], [0, 3, 4], [0, 4, 1], [1, 4, 5], [1, 5, 2], [2, 5, 3], [2, 3, 0]]
    V = [[_r(c[i] + v[i], 4) for i in range(3)] for v in V]
    # the vertex order of the faces is the user's: consistently outward, consistently inward
    # (inside-out mesh) or mixed - the domain has to orient the mesh itself
    winding = draw(st.sampled_from(["out", "out", "in", "mixed"]))
    if winding == "in":
        F = [[f[0], f[2], f[1]] for f in F]
    elif winding == "mixed":
        F = [[f[0], f[2], f[1]] if i % 3 == 1 else list(f) for i, f in enumerate(F)]
    out = {"t": "mesh", "var": var, "verts": V, "faces": F, "kind": mk, "winding": winding}
    if draw(st.integers(0, 2)) == 0:
        # the documented tolerance argument ("error tolerance for checking if points are at the boundary")
        out["tol"] = _r(h * draw(st.sampled_from([0.002, 0.005])), 6)
    return out


def probe_envs(ctx):
    """parameter rows at which positivity of measures is probed: low / mid / high of every
    dependence variable (moved together); nine rows when a product-bound variable (t) is among
    them, because the library must find points for EVERY value of that variable."""
    m = 9 if "t" in ctx.dep else 3
    fr = np.linspace(0.0, 1.0, m)
    return {v: np.stack([np.full(d, lo + f * (hi - lo)) for f in fr]) for v, (d, lo, hi) in ctx.dep.items()}


def ratio_ok(E, ctx, minimum=0.08):
    """every cut/intersection keeps >= minimum of its first operand's measure, unions are not
    tiny slivers, at the probe rows (keeps the library's rejection loops short)."""
    penv3 = probe_envs(ctx)
    for node in rg.walk(E):
        if node["t"] not in ("cut", "isect"):
            continue
        for i in range(rg.env_len(penv3) if penv3 else 1):
            penv = {k: v[i:i + 1] for k, v in penv3.items()}
            ma, _, _ = rg.qmc_measure(node["a"], penv, 1024)
            mn, _, _ = rg.qmc_measure(node, penv, 1024)
            if ma <= 0 or mn / ma < minimum:
                return False
    return True


def _hint_of(E, ctx):
    penv3 = probe_envs(ctx)
    mid = (rg.env_len(penv3) // 2) if penv3 else 0
    penv = {k: v[mid:mid + 1] for k, v in penv3.items()}
    box = rg.ref_box(E, penv)[0]
    lo, hi = box[0::2], box[1::2]
    return [float((l + h) / 2) for l, h in zip(lo, hi)], float(max(0.3, np.max(hi - lo) / 2))


def _all_const(leaf_):
    return all(v.get("k") == "const" for v in leaf_.values() if isinstance(v, dict) and "k" in v)


def _partner(a, rel, variant):
    """a leaf of the same type as the parameter-free interval / parallelogram `a`, placed in a's own
    frame: 'inside' (strictly inside), 'notch' (inside, sharing a piece of a's boundary), 'attached'
    (outside, sharing a boundary piece), 'apart' (disjoint), 'same' (identical)."""
    if a["t"] == "interval":
        lo, hi = a["lo"]["v"][0], a["hi"]["v"][0]
        L = hi - lo
        u = {"inside": (0.25, 0.75), "notch": [(0.0, 0.5), (0.5, 1.0)][variant % 2],
             "attached": [(1.0, 1.5), (-0.5, 0.0)][variant % 2], "apart": [(1.5, 2.0), (-1.0, -0.5)][variant % 2],
             "same": (0.0, 1.0)}[rel]
        return {"t": "interval", "var": a["var"], "lo": const([_r(lo + u[0] * L, 6)]), "hi": const([_r(lo + u[1] * L, 6)])}
    o = np.array(a["o"]["v"], float)
    d1 = np.array(a["c1"]["v"], float) - o
    d2 = np.array(a["c2"]["v"], float) - o
    us = [(0.25, 0.75), (0.0, 0.5), (0.5, 1.0)][variant % 3]
    u, v = {"inside": ((0.25, 0.75), (0.25, 0.625)),
            "notch": (us, [(0.0, 0.5), (0.5, 1.0)][variant // 3 % 2]),
            "attached": ([(0.0, 1.0), (0.25, 0.75), (0.5, 1.5)][variant % 3], [(1.0, 1.5), (-0.5, 0.0)][variant // 3 % 2]),
            "apart": (us, [(1.5, 2.0), (-1.0, -0.5)][variant // 3 % 2]),
            "same": ((0.0, 1.0), (0.0, 1.0))}[rel]
    if variant % 2 and rel in ("notch", "attached", "apart"):
        # the same along the other pair of sides
        d1, d2 = d2, d1
    P = lambda x, y: const([_r(float(c), 6) for c in (o + x * d1 + y * d2)])      # noqa: E731
    return {"t": "par", "var": a["var"], "o": P(u[0], v[0]), "c1": P(u[1], v[0]), "c2": P(u[0], v[1])}


@st.composite
def expr(draw, dim, ctx, depth, hint=None, ops=("union", "cut", "isect", "translate", "rotate")):
    """single-variable interior expression of the given dimension."""
    if hint is None:
        size = draw(num(0.5, 4.0))
        # one third of the shapes sit at / near the origin (within about one size): code that
        # confuses "relative to the centre" with "relative to the origin" is only wrong there
        lim = 1000.0 if ctx.far else (8.0 if draw(st.integers(0, 2)) else 1.2 * size)
        hint = ([draw(num(-lim, lim)) for _ in range(dim)], size)
    if depth <= 0 or draw(st.integers(0, 9)) < 3:
        return draw(leaf(dim, ctx, hint))
    choices = [o for o in ops if not (o == "rotate" and dim == 1)]
    op = draw(st.sampled_from(choices))
    if op in ("union", "cut", "isect"):
        rel = None
        if dim <= 2 and draw(st.integers(0, 2)) == 0:
            a = draw(leaf(dim, Ctx(lattice=ctx.lattice, far=ctx.far), hint, force="par"))
        else:
            a = draw(expr(dim, ctx, depth - 1, hint, ops))
        if a["t"] in ("par", "interval") and _all_const(a) and draw(st.integers(0, 5)) > 0:
            # second operand placed relative to the first one: strictly inside / apart (the situations
            # the `contained` / `disjoint` flags are documented for) or sharing a boundary piece
            rel = draw(st.sampled_from({"union": ["attached", "apart", "apart", "notch", "same"],
                                        "cut": ["notch", "notch", "inside", "inside", "attached"],
                                        "isect": ["notch", "inside", "same"]}[op]))
            b = _partner(a, rel, draw(st.integers(0, 5)))
        else:
            b = draw(expr(dim, ctx, depth - 1, _hint_of(a, ctx), ops))
        node = {"t": op, "a": a, "b": b}
        if op == "union":
            node["disjoint"] = bool(rel == "apart" and draw(st.integers(0, 3)) > 0)
        if op == "cut":
            node["contained"] = bool(rel in ("notch", "inside") and draw(st.integers(0, 3)) > 0)
        return node
    a = draw(expr(dim, ctx, depth - 1, hint, ops))
    if op == "translate":
        return {"t": "translate", "a": a,
                "v": draw(_vec_param(ctx, [draw(num(-3, 3)) for _ in range(dim)], 1.5))}
    if dim == 3:
        around = None
        if draw(st.booleans()):
            around = const([draw(num(-2, 2)) for _ in range(3)])
        return {"t": "rotate", "a": a, "euler": [draw(num(-3.2, 3.2)) for _ in range(3)], "around": around,
                "form": "matrix3"}
    form = draw(st.sampled_from(["angles", "angles", "matrix", "matrix_fn"]))
    ang = draw(st.one_of(num(-6.3, 6.3), st.sampled_from([0.0, math.pi / 2, math.pi, math.pi / 4])))
    angle = draw(_vec_param(ctx, [ang], 3.0)) if form != "matrix" else const([ang])
    if form == "matrix_fn" and angle["k"] == "const":
        form = "angles"
    around = None
    if draw(st.booleans()):
        around = draw(_vec_param(ctx, [draw(num(-3, 3)), draw(num(-3, 3))], 1.0))
    return {"t": "rotate", "a": a, "angle": angle, "around": around, "form": form}


@st.composite
def param_rows(draw, names, kmax=5, ks=(0, 1, 1, 2, 3, 5)):
    """k rows for each given parameter variable name (same k for all)."""
    if not names:
        return {}
    k = draw(st.sampled_from([k for k in ks if k <= kmax]))
    if k == 0:
        return {}
    return {n: [[draw(num(0, 1)) for _ in range(PVARS[n])] for _ in range(k)] for n in sorted(names)}


@st.composite
def domain_case(draw, tier="quick", kinds=("interior", "boundary", "product", "depproduct", "bproduct"),
                dims=(1, 2, 2, 2, 3), max_depth=None, pdep=0.45, min_ratio=0.08, pvar_choices=None, pydef=False):
    """top-level domain spec + the parameter variables it may depend on.
    Returns dict(E=spec, kind=..., pvars=[names]) ; E's free variables are a subset of pvars."""
    max_depth = max_depth if max_depth is not None else (3 if tier == "quick" else 4)
    kind = draw(st.sampled_from(list(kinds)))
    lattice = draw(st.integers(0, 4)) == 0
    far = (not lattice) and draw(st.integers(0, 11)) == 0
    use_p = draw(st.integers(0, 9)) < 6 or pvar_choices is not None
    dep = {}
    if use_p:
        for n in draw(st.sampled_from(list(pvar_choices) if pvar_choices else [["p"], ["p"], ["q"], ["p", "q"]])):
            dep[n] = (PVARS[n], 0.0, 1.0)
    ctx = Ctx(dep, pdep if dep else 0.0, lattice, far, pydef)
    depth = draw(st.integers(0, max_depth))
    if kind in ("interior", "boundary"):
        dim = draw(st.sampled_from(list(dims)))
        if dim == 3:
            depth = min(depth, 2)
        E = draw(expr(dim, ctx, depth))
        assume(ratio_ok(E, ctx, min_ratio))
        if kind == "boundary":
            if E["t"] == "interval" and draw(st.integers(0, 2)) == 0:
                E = {"t": draw(st.sampled_from(["bleft", "bright"])), "a": E}
            else:
                E = {"t": "boundary", "a": E}
    elif kind in ("product", "bproduct"):
        da = draw(st.sampled_from([1, 2, 2]))
        a = draw(expr(da, ctx, min(depth, 2)))
        bctx = Ctx(dep, ctx.pdep, lattice, False)
        lo = draw(num(-2, 2))
        if draw(st.integers(0, 3)):
            b = {"t": "interval", "var": "t", "lo": draw(_vec_param(bctx, [lo], 0.3)),
                 "hi": draw(_vec_param(bctx, [lo + draw(num(1.0, 3.0))], 0.3))}
        else:
            b = draw(expr(2, bctx, 1))
            b = _rename(b, "x", "z")
        assume(ratio_ok(a, ctx, min_ratio) and ratio_ok(b, ctx, min_ratio))
        if kind == "bproduct":
            which = draw(st.sampled_from(["a", "b", "both"]))
            if which == "a":
                a = {"t": "boundary", "a": a}
            elif which == "b":
                b = {"t": draw(st.sampled_from(["boundary", "bleft", "bright"]) if b["t"] == "interval"
                               else st.just("boundary")), "a": b}
            else:
                return {"E": {"t": "boundary", "a": {"t": "product", "a": a, "b": b}},
                        "kind": kind, "pvars": sorted(dep), "lattice": lattice, "far": far}
        E = {"t": "product", "a": a, "b": b}
    else:   # dependent product: first factor depends on the second factor's variable t
        t0 = draw(num(-1, 1))
        t1 = t0 + draw(num(0.5, 2.0))
        b = {"t": "interval", "var": "t", "lo": const([t0]), "hi": const([t1])}
        dep2 = dict(dep)
        dep2["t"] = (1, t0, t1)
        actx = Ctx(dep2, 0.8, lattice, False)
        da = draw(st.sampled_from([1, 2, 2]))
        a = draw(expr(da, actx, min(depth, 2)))
        assume(ratio_ok(a, actx, min_ratio))
        assume("t" in rg.free_vars(a))
        E = {"t": "product", "a": a, "b": b}
    return {"E": E, "kind": kind, "pvars": sorted(dep), "lattice": lattice, "far": far}


def _rename(E, old, new):
    if isinstance(E, dict):
        out = {}
        for k, v in E.items():
            if k == "var" and v == old and E.get("t") in rg.LEAVES:
                out[k] = new
            else:
                out[k] = _rename(v, old, new)
        return out
    if isinstance(E, list):
        return [_rename(v, old, new) for v in E]
    return E


def features(E):
    """spec features used in violation signatures / classification."""
    f = set()
    for n in rg.walk(E):
        f.add(n["t"])
        if n["t"] == "poly" and n.get("dup") is not None:
            f.add("poly-dup")
        if n["t"] == "par":
            pe = {}
            # orientation at parameter value 0 of every variable
            env = {v: np.zeros((1, d)) for v, d in list(PVARS.items()) + [("t", 1)]}
            V = rg._leaf_polygon(n, env, 1)[0]
            if rg.shoelace(V) < 0:
                f.add("par-cw")
            if abs(V[1][1] - V[0][1]) > 1e-9 or abs(V[3][0] - V[0][0]) > 1e-9:
                f.add("par-slanted")
        if n["t"] == "tri":
            env = {v: np.zeros((1, d)) for v, d in list(PVARS.items()) + [("t", 1)]}
            if rg.shoelace(rg._leaf_polygon(n, env, 1)[0]) < 0:
                f.add("tri-cw")
        for P in rg.own_params(n):
            if P["k"] != "const":
                f.add("dep")
                f.add("dep-" + n["t"])
    return f


def ratio_ok_rows(E, prows, minimum=0.08):
    """ratio_ok at the ACTUAL parameter rows of a case (the probe rows of ratio_ok move all
    dependence variables together and miss mixed combinations such as p high / q low)."""
    import torch
    if not prows:
        return True
    k = len(next(iter(prows.values())))
    for i in range(k):
        penv = {n: np.asarray(torch.tensor(v[i:i + 1], dtype=torch.float32).double().numpy()).reshape(1, -1)
                for n, v in prows.items()}
        for node in rg.walk(E):
            if node["t"] not in ("cut", "isect"):
                continue
            fv = rg.free_vars(node)
            missing = [v for v in fv if v not in penv]
            envs = [penv]
            if missing:      # a variable bound by a product (t): probe its range ends and middle
                rng_t = _bound_range(E, missing[0])
                if rng_t is None:
                    continue
                envs = [dict(penv, **{missing[0]: np.array([[tv]])}) for tv in rng_t]
            for pe in envs:
                try:
                    ma, _, _ = rg.qmc_measure(node["a"], pe, 512)
                    mn, _, _ = rg.qmc_measure(node, pe, 512)
                except KeyError:
                    continue
                if ma <= 0 or mn / ma < minimum:
                    return False
    return True


def _bound_range(E, var):
    for n in rg.walk(E):
        if n["t"] == "product":
            b = n["b"]
            while b["t"] in ("boundary", "bleft", "bright"):
                b = b["a"]
            if b["t"] == "interval" and b["var"] == var and b["lo"]["k"] == "const" and b["hi"]["k"] == "const":
                lo, hi = b["lo"]["v"][0], b["hi"]["v"][0]
                return list(np.linspace(lo, hi, 9))
    return None
