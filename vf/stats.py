"""Goodness-of-fit helpers with explicit error control (DESIGN 3.5)."""
import numpy as np
from scipy import stats as sst

ALPHA1 = 1e-4
ALPHA2 = 1e-6
MIN_EXPECTED = 20.0


def merge_small(obs, exp, min_expected=MIN_EXPECTED):
    """merge cells (in order of increasing expectation) until every expected count >= min_expected."""
    obs = np.asarray(obs, dtype=float)
    exp = np.asarray(exp, dtype=float)
    order = np.argsort(exp)
    o2, e2 = [], []
    co = ce = 0.0
    for i in order:
        co += obs[i]
        ce += exp[i]
        if ce >= min_expected:
            o2.append(co)
            e2.append(ce)
            co = ce = 0.0
    if ce > 0:
        if e2:
            o2[-1] += co
            e2[-1] += ce
        else:
            o2.append(co)
            e2.append(ce)
    return np.array(o2), np.array(e2)


def chi2_one_sample(counts, probs):
    """counts per cell vs exact cell probabilities (need not be normalised). Returns (stat, df, p)."""
    counts = np.asarray(counts, dtype=float).ravel()
    probs = np.asarray(probs, dtype=float).ravel()
    n = counts.sum()
    probs = probs / probs.sum()
    o, e = merge_small(counts, n * probs)
    if len(o) < 2:
        return 0.0, 0, 1.0
    stat = float(np.sum((o - e) ** 2 / e))
    df = len(o) - 1
    return stat, df, float(sst.chi2.sf(stat, df))


def chi2_two_sample(a, b):
    """counts of two independent samples over the same cells. Returns (stat, df, p)."""
    a = np.asarray(a, dtype=float).ravel()
    b = np.asarray(b, dtype=float).ravel()
    na, nb = a.sum(), b.sum()
    tot = a + b
    # merge cells with few pooled observations
    order = np.argsort(tot)
    A, B = [], []
    ca = cb = 0.0
    for i in order:
        ca += a[i]
        cb += b[i]
        if (ca + cb) * min(na, nb) / (na + nb) >= MIN_EXPECTED:
            A.append(ca)
            B.append(cb)
            ca = cb = 0.0
    if ca + cb > 0:
        if A:
            A[-1] += ca
            B[-1] += cb
        else:
            A.append(ca)
            B.append(cb)
    A, B = np.array(A), np.array(B)
    if len(A) < 2:
        return 0.0, 0, 1.0
    k1, k2 = np.sqrt(nb / na), np.sqrt(na / nb)
    stat = float(np.sum((k1 * A - k2 * B) ** 2 / (A + B)))
    df = len(A) - 1
    return stat, df, float(sst.chi2.sf(stat, df))


def cell_index(u, shape):
    """u (N,d) in [0,1]^d -> flat cell index for a grid of the given shape."""
    u = np.clip(np.asarray(u, dtype=float), 0.0, 1.0 - 1e-12)
    idx = np.zeros(len(u), dtype=int)
    for j, m in enumerate(shape):
        idx = idx * m + np.minimum((u[:, j] * m).astype(int), m - 1)
    return idx


def counts_of(idx, ncells):
    return np.bincount(idx, minlength=ncells).astype(float)
