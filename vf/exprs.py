"""Expression programs for C03: JSON trees rendered to torch and, independently, to sympy.

A tree is a nested list
    ["c", value]                 constant (dyadic rational, exactly representable in float32)
    ["v", var_index, component]  component of a named input variable
    ["+", a, b] ["-", a, b] ["*", a, b]
    ["pow", a, k]                integer power 2..4
    ["sin", a] ["cos", a] ["exp", a] ["tanh", a]

`normalise` inserts explicit power-of-two scale constants so that every sub-term is bounded on
the evaluation box |component| <= 2 (exp arguments <= 2, other function arguments <= 8, every
node <= 32); both renderers then work on the *same* normalised tree with no hidden semantics.

The reference side: `to_sympy` -> symbolic derivatives by sympy.diff -> `lambdify_eval`
(sympy.lambdify to float64 numpy: the trusted value).  `jets` is a second, independent
evaluator (Taylor-mode AD of the tree in numpy) that also yields the rounding-error majorant
used for the tolerance; the check module requires both evaluators to agree, otherwise the
harness - not the library - is wrong (HarnessError).
"""
import math

import numpy as np
import sympy as sp
from hypothesis import strategies as st

from .core import HarnessError

CONSTS = [-2.0, -1.5, -1.0, -0.5, 0.5, 1.0, 1.5, 2.0, 3.0]
UNARY = ("sin", "cos", "exp", "tanh")
BOX = 2.0            # |input component| <= BOX
NODE_LIMIT = 32.0
ARG_LIMIT = {"exp": 2.0, "sin": 8.0, "cos": 8.0, "tanh": 8.0}


# ------------------------------------------------------------------ strategies (JSON trees)
def leaf_strategy(comps):
    """comps: list of (var_index, component) the tree may use; may be empty."""
    const = st.sampled_from(CONSTS).map(lambda c: ["c", c])
    if not comps:
        return const
    var = st.sampled_from(comps).map(lambda vc: ["v", vc[0], vc[1]])
    return st.one_of(var, var, var, const)


def tree_strategy(comps, depth):
    """Random expression over the given components with composition depth <= depth."""
    leaf = leaf_strategy(comps)
    if depth <= 0:
        return leaf

    def extend(children):
        return st.one_of(
            st.tuples(st.sampled_from(["+", "-", "*", "*"]), children, children).map(list),
            st.tuples(st.just("pow"), children, st.integers(2, 4)).map(list),
            st.tuples(st.sampled_from(UNARY), children).map(list),
        )
    s = leaf
    for _ in range(depth):
        s = st.one_of(leaf, extend(s), extend(s))
    return s


# ------------------------------------------------------------------ tree utilities
def used_vars(tree, acc=None):
    acc = set() if acc is None else acc
    if tree[0] == "v":
        acc.add(tree[1])
    elif tree[0] != "c":
        for ch in tree[1:]:
            if isinstance(ch, list):
                used_vars(ch, acc)
    return acc


def depth_of(tree):
    if tree[0] in ("c", "v"):
        return 0
    return 1 + max(depth_of(ch) for ch in tree[1:] if isinstance(ch, list))


def _pow2_scale(b, limit):
    """largest power of two s <= 1 with b*s <= limit"""
    if b <= limit:
        return 1.0
    return 2.0 ** (-math.ceil(math.log2(b / limit)))


def _scaled(tree, b, limit):
    s = _pow2_scale(b, limit)
    if s == 1.0:
        return tree, b
    return ["*", ["c", s], tree], b * s


def normalise(tree):
    """-> (tree with explicit scale constants, bound on |value| over the box)."""
    op = tree[0]
    if op == "c":
        return ["c", float(tree[1])], abs(float(tree[1]))
    if op == "v":
        return ["v", int(tree[1]), int(tree[2])], BOX
    if op in ("+", "-"):
        a, ba = normalise(tree[1])
        b, bb = normalise(tree[2])
        return _scaled([op, a, b], ba + bb, NODE_LIMIT)
    if op == "*":
        a, ba = normalise(tree[1])
        b, bb = normalise(tree[2])
        return _scaled(["*", a, b], ba * bb, NODE_LIMIT)
    if op == "pow":
        a, ba = normalise(tree[1])
        k = int(tree[2])
        return _scaled(["pow", a, k], ba ** k, NODE_LIMIT)
    if op in UNARY:
        a, ba = normalise(tree[1])
        a, ba = _scaled(a, ba, ARG_LIMIT[op])
        if op == "exp":
            return ["exp", a], math.exp(ba)
        return [op, a], 1.0 if op != "sin" else min(1.0, ba)
    raise HarnessError(f"unknown tree node {op!r}")


# ------------------------------------------------------------------ renderer 1: torch
def to_torch(tree, tensors):
    """tensors[var_index] has shape (*batch, dim). Returns a tensor (*batch, 1) or a float."""
    import torch
    op = tree[0]
    if op == "c":
        return float(tree[1])
    if op == "v":
        return tensors[tree[1]].narrow(-1, tree[2], 1)
    if op == "+":
        return to_torch(tree[1], tensors) + to_torch(tree[2], tensors)
    if op == "-":
        return to_torch(tree[1], tensors) - to_torch(tree[2], tensors)
    if op == "*":
        return to_torch(tree[1], tensors) * to_torch(tree[2], tensors)
    if op == "pow":
        return to_torch(tree[1], tensors) ** int(tree[2])
    a = to_torch(tree[1], tensors)
    if not isinstance(a, torch.Tensor):
        return {"sin": math.sin, "cos": math.cos, "exp": math.exp, "tanh": math.tanh}[op](a)
    return {"sin": torch.sin, "cos": torch.cos, "exp": torch.exp, "tanh": torch.tanh}[op](a)


# ------------------------------------------------------------------ renderer 2: sympy
def symbol(vi, comp):
    return sp.Symbol(f"z{vi}_{comp}", real=True)


def to_sympy(tree):
    op = tree[0]
    if op == "c":
        return sp.Rational(float(tree[1]))          # dyadic: exact
    if op == "v":
        return symbol(tree[1], tree[2])
    if op == "+":
        return to_sympy(tree[1]) + to_sympy(tree[2])
    if op == "-":
        return to_sympy(tree[1]) - to_sympy(tree[2])
    if op == "*":
        return to_sympy(tree[1]) * to_sympy(tree[2])
    if op == "pow":
        return to_sympy(tree[1]) ** int(tree[2])
    return {"sin": sp.sin, "cos": sp.cos, "exp": sp.exp, "tanh": sp.tanh}[op](to_sympy(tree[1]))


# ------------------------------------------------------------------ float64 evaluation
def lambdify_eval(exprs, symbols, columns):
    """Trusted value: the sympy expressions lambdified to numpy, evaluated at `columns`
    (float64 arrays of one common shape aligned with `symbols`) -> array (len(exprs), *shape)."""
    shape = columns[0].shape if columns else ()
    if not exprs:
        return np.zeros((0, *shape))
    f = sp.lambdify(list(symbols), list(exprs), modules="numpy")
    with np.errstate(all="ignore"):
        out = f(*columns)
    return np.stack([np.broadcast_to(np.asarray(o, dtype=np.float64), shape) for o in out])


# ---- Taylor-mode AD of the *tree* (second, independent evaluator + rounding-error majorant)
# A jet is a truncated multivariate Taylor polynomial {multi-index: coefficient array} in the
# active directions.  Every node carries two jets: the real one (whose coefficients times
# alpha! are the partial derivatives - cross-checked against sympy) and an absolute one in which
# every term of the fully expanded chain/product rule enters with its absolute value and every
# elementary function additionally with |f^(k+1)| * (error majorant of its argument).  The
# absolute coefficient times alpha! therefore bounds, up to a modest operation-count factor
# and the unit round-off, the rounding error of ANY floating-point evaluation of that
# derivative by the chain rule (this is what autograd does), including cancellations that a
# symbolic simplification of the reference hides (d/dx (x - tanh x) = 1 - (1 - tanh^2)).
def _pmul(a, b, K):
    res = {}
    for ka, va in a.items():
        sa = sum(ka)
        for kb, vb in b.items():
            if sa + sum(kb) > K:
                continue
            k = tuple(x + y for x, y in zip(ka, kb))
            res[k] = res[k] + va * vb if k in res else va * vb
    return res


def _padd(a, b, sign=1.0):
    res = dict(a)
    for k, v in b.items():
        res[k] = res[k] + sign * v if k in res else sign * v
    return res


def _pcompose(coefs, a, K, zero):
    delta = {k: v for k, v in a.items() if k != zero}
    res = {zero: coefs[0]}
    p = None
    for k in range(1, K + 1):
        p = delta if k == 1 else _pmul(p, delta, K)
        if not p:
            break
        for key, v in p.items():
            res[key] = res[key] + coefs[k] * v if key in res else coefs[k] * v
    return res


_FACT = [1.0, 1.0, 2.0, 6.0, 24.0, 120.0]


def _fun_derivs(op, a0):
    """(real derivatives f^(k)(a0), k=0..5 ; absolute-term bounds of them)"""
    if op in ("sin", "cos"):
        s, c = np.sin(a0), np.cos(a0)
        cyc = [s, c, -s, -c] if op == "sin" else [c, -s, -c, s]
        real = [cyc[k % 4] for k in range(6)]
        return real, [np.abs(r) for r in real]
    if op == "exp":
        e = np.exp(a0)
        return [e] * 6, [e] * 6
    t = np.tanh(a0)
    t2, at = t * t, np.abs(t)
    q, qp = 1.0 - t2, 1.0 + t2
    real = [t, q, -2 * t * q, q * (6 * t2 - 2), 8 * t * q * (2 - 3 * t2),
            -2 * t2 * q * (16 - 24 * t2) + q * q * (16 - 72 * t2)]
    absd = [at, qp, 2 * at * qp, qp * (6 * t2 + 2), 8 * at * qp * (2 + 3 * t2),
            2 * t2 * qp * (16 + 24 * t2) + qp * qp * (16 + 72 * t2)]
    return real, absd


def jets(tree, values, active, K):
    """values: {(var, comp): float64 array}; active: list of (var, comp) directions; K <= 4.
    -> (real jet, absolute jet)."""
    if K > 4:
        raise HarnessError("jets: order > 4 not supported")
    n = len(active)
    zero = (0,) * n
    unit = {vc: tuple(1 if i == j else 0 for j in range(n)) for i, vc in enumerate(active)}

    def rec(t):
        op = t[0]
        if op == "c":
            return {zero: float(t[1])}, {zero: abs(float(t[1]))}
        if op == "v":
            x = values[(t[1], t[2])]
            r, a = {zero: x}, {zero: np.abs(x)}
            if (t[1], t[2]) in unit and K >= 1:
                r[unit[(t[1], t[2])]] = 1.0
                a[unit[(t[1], t[2])]] = 1.0
            return r, a
        if op in ("+", "-"):
            ra, aa = rec(t[1])
            rb, ab = rec(t[2])
            return _padd(ra, rb, 1.0 if op == "+" else -1.0), _padd(aa, ab)
        if op == "*":
            ra, aa = rec(t[1])
            rb, ab = rec(t[2])
            return _pmul(ra, rb, K), _pmul(aa, ab, K)
        if op == "pow":
            ra, aa = rec(t[1])
            r, a = ra, aa
            for _ in range(int(t[2]) - 1):
                r, a = _pmul(r, ra, K), _pmul(a, aa, K)
            return r, a
        ra, aa = rec(t[1])
        real, absd = _fun_derivs(op, ra[zero])
        m0 = aa[zero]
        rc = [real[k] / _FACT[k] for k in range(K + 1)]
        ac = [(absd[k] + absd[k + 1] * m0) / _FACT[k] for k in range(K + 1)]
        return _pcompose(rc, ra, K, zero), _pcompose(ac, aa, K, zero)

    with np.errstate(all="ignore"):
        return rec(tree)


def jet_derivative(jet, alpha, shape):
    """partial derivative d^alpha from a jet (real or absolute) as array of `shape`."""
    f = 1.0
    for a in alpha:
        f *= _FACT[a]
    return np.broadcast_to(np.asarray(f * jet.get(tuple(alpha), 0.0), dtype=np.float64), shape)
