"""Independent float64 reference geometry for domain-expression specs (DESIGN 3.2).

Written from the mathematical definitions with formulas that differ from the library's
(half-plane tests instead of barycentric solves, ray casting instead of shapely, plane
tests instead of trimesh).  Everything is vectorised over N rows; `env` maps variable name
-> float64 array (N, dim) and holds the points *and* the parameter rows they are paired with.

Spec grammar (JSON):
  P (shape parameter) := {"k":"const","v":[..]} | {"k":"affine","var":name,"v0":[..],"V1":[[..]]}
                       | {"k":"sin","var":name,"v0":[..],"amp":[..],"freq":f}
  leaf  := {"t":"interval","var","lo":P,"hi":P} | {"t":"circle","var","c":P,"r":P}
         | {"t":"par","var","o":P,"c1":P,"c2":P} | {"t":"tri","var","o":P,"c1":P,"c2":P}
         | {"t":"sphere","var","c":P,"r":P} | {"t":"poly","var","verts":[[x,y]..],"hole":[[..]]|null}
         | {"t":"mesh","var","verts":[[..]],"faces":[[..]]}   (convex) | {"t":"point","var","p":P}
  expr  := leaf | {"t":"union","a","b","disjoint"} | {"t":"cut","a","b","contained"} | {"t":"isect","a","b"}
         | {"t":"translate","a","v":P} | {"t":"rotate","a","angle":P,"around":P|null,"form":..}
         | {"t":"product","a","b"}
  bdry  := {"t":"boundary","a":expr} | {"t":"bleft","a":interval} | {"t":"bright","a":interval}
           (boundary nodes appear at top level or as a direct factor of a product)
"""
import math

import numpy as np

LEAVES = ("interval", "circle", "par", "tri", "sphere", "poly", "mesh", "point")
BOOL = ("union", "cut", "isect")
IN, OUT, UNDECIDED = 1, 0, -1


class EmptyReference(Exception):
    """the generated expression denotes (numerically) no set at the given parameter row"""


# ---------------------------------------------------------------- parameters -----------
def _f32(v):
    """constants reach the library as float32: the reference uses the same rounded numbers."""
    return np.asarray(v, dtype=np.float32).astype(np.float64)


def pval(P, env, N):
    if P["k"] == "const":
        v = _f32(P["v"]).reshape(1, -1)
        return np.broadcast_to(v, (N, v.shape[1])).copy()
    x = np.asarray(env[P["var"]], dtype=np.float64)
    v0 = _f32(P["v0"]).reshape(1, -1)
    if P["k"] == "affine":
        V1 = _f32(P["V1"])
        return v0 + x @ V1.T
    if P["k"] == "affine2":          # depends on two variables at once
        x2 = np.asarray(env[P["var2"]], dtype=np.float64)
        return v0 + x @ _f32(P["V1"]).T + x2 @ _f32(P["V2"]).T
    if P["k"] == "sin":
        amp = _f32(P["amp"]).reshape(1, -1)
        return v0 + amp * np.sin(float(np.float32(P["freq"])) * x[:, :1])
    raise ValueError(P)


def pvars(P):
    if P is None or P["k"] == "const":
        return set()
    return {P["var"], P["var2"]} if P["k"] == "affine2" else {P["var"]}


def env_len(env):
    for v in env.values():
        return len(v)
    return 1


# ---------------------------------------------------------------- spec utilities -------
def children(E):
    return [E[k] for k in ("a", "b") if k in E and isinstance(E[k], dict)]


def walk(E):
    yield E
    for c in children(E):
        yield from walk(c)


def leaves(E):
    return [n for n in walk(E) if n["t"] in LEAVES]


def depth(E):
    cs = children(E)
    return 0 if not cs else 1 + max(depth(c) for c in cs)


def space_vars(E):
    """Ordered list of (name, dim) of the space the expression lives in."""
    t = E["t"]
    if t in LEAVES:
        d = {"interval": 1, "circle": 2, "par": 2, "tri": 2, "poly": 2, "sphere": 3, "mesh": 3}.get(t)
        if t == "point":
            d = len(E["p"]["v"] if E["p"]["k"] == "const" else E["p"]["v0"])
        return [(E["var"], d)]
    if t == "product":
        out = list(space_vars(E["a"]))
        for nv in space_vars(E["b"]):
            if nv not in out:
                out.append(nv)
        return out
    return space_vars(E["a"])


def own_params(E):
    return [E[k] for k in ("lo", "hi", "c", "r", "o", "c1", "c2", "p", "v", "angle", "around")
            if k in E and isinstance(E[k], dict)]


def free_vars(E):
    """Free (parameter) variables of the expression = variables its shape parameters use
    minus variables bound by a product's second factor."""
    t = E["t"]
    fv = set()
    for P in own_params(E):
        fv |= pvars(P)
    if t == "product":
        fa, fb = free_vars(E["a"]), free_vars(E["b"])
        bound = {n for n, _ in space_vars(E["b"])}
        return (fa - bound) | fb
    for c in children(E):
        fv |= free_vars(c)
    return fv


def required_vars(E):
    """free variables the library must declare as necessary: like free_vars, but a variable that only
    enters through arguments with a Python default value ("pydef") is optional."""
    def req(P):
        if P is None or P["k"] == "const":
            return set()
        if P["k"] == "affine2":
            return {P["var"]} if P.get("pydef") else {P["var"], P["var2"]}
        return {P["var"]}
    t = E["t"]
    fv = set()
    for P in own_params(E):
        # (the rotation-matrix function of form "matrix_fn" is built without default values)
        fv |= pvars(P) if (t == "rotate" and E.get("form") == "matrix_fn" and P is E.get("angle")) else req(P)
    if t == "product":
        fa, fb = required_vars(E["a"]), required_vars(E["b"])
        bound = {n for n, _ in space_vars(E["b"])}
        return (fa - bound) | fb
    for c in children(E):
        fv |= required_vars(c)
    return fv


def is_boundary(E):
    return E["t"] in ("boundary", "bleft", "bright")


def has(E, pred):
    return any(pred(n) for n in walk(E))


# ---------------------------------------------------------------- polygon helpers ------
def _seg_dist(x, a, b):
    """distance of points x (N,2) to segments a->b (N,2) each."""
    ab = b - a
    t = np.einsum("nd,nd->n", x - a, ab) / np.maximum(np.einsum("nd,nd->n", ab, ab), 1e-300)
    t = np.clip(t, 0.0, 1.0)
    return np.linalg.norm(x - (a + t[:, None] * ab), axis=1)


def _poly_dist(x, V):
    """x (N,2); V (N,m,2) closed polygon ring (last->first implied)."""
    m = V.shape[1]
    d = np.full(len(x), np.inf)
    for i in range(m):
        d = np.minimum(d, _seg_dist(x, V[:, i], V[:, (i + 1) % m]))
    return d


def _convex_contains(x, V):
    """convex polygon, any orientation: all cross products have the sign of the orientation."""
    m = V.shape[1]
    area2 = np.zeros(len(x))
    for i in range(m):
        a, b = V[:, i], V[:, (i + 1) % m]
        area2 += a[:, 0] * b[:, 1] - a[:, 1] * b[:, 0]
    sgn = np.where(area2 >= 0, 1.0, -1.0)
    ok = np.ones(len(x), dtype=bool)
    for i in range(m):
        a, b = V[:, i], V[:, (i + 1) % m]
        cr = (b[:, 0] - a[:, 0]) * (x[:, 1] - a[:, 1]) - (b[:, 1] - a[:, 1]) * (x[:, 0] - a[:, 0])
        ok &= (sgn * cr) >= 0
    return ok


def _ring_evenodd(x, ring):
    """even-odd ray casting for a fixed ring (m,2)."""
    ring = np.asarray(ring, dtype=np.float64)
    inside = np.zeros(len(x), dtype=bool)
    m = len(ring)
    px, py = x[:, 0], x[:, 1]
    for i in range(m):
        x1, y1 = ring[i]
        x2, y2 = ring[(i + 1) % m]
        if y1 == y2:
            continue
        cond = (y1 > py) != (y2 > py)
        xint = x1 + (py - y1) * (x2 - x1) / (y2 - y1)
        inside ^= cond & (px < xint)
    return inside


def shoelace(ring):
    r = np.asarray(ring, dtype=np.float64)
    return 0.5 * float(np.sum(r[:, 0] * np.roll(r[:, 1], -1) - np.roll(r[:, 0], -1) * r[:, 1]))


def ring_length(ring):
    r = np.asarray(ring, dtype=np.float64)
    return float(np.sum(np.linalg.norm(np.roll(r, -1, axis=0) - r, axis=1)))


def _rings(E):
    rings = [E["verts"]]
    if E.get("hole"):
        rings.append(E["hole"])
    return rings


# ---------------------------------------------------------------- mesh helpers ---------
def _mesh_planes(E):
    V = np.asarray(E["verts"], dtype=np.float64)
    F = np.asarray(E["faces"], dtype=int)
    cen = V.mean(axis=0)
    normals, offs = [], []
    for f in F:
        n = np.cross(V[f[1]] - V[f[0]], V[f[2]] - V[f[0]])
        n = n / np.linalg.norm(n)
        if np.dot(n, cen - V[f[0]]) > 0:
            n = -n
        normals.append(n)
        offs.append(np.dot(n, V[f[0]]))
    return np.array(normals), np.array(offs)


def mesh_volume(E):
    V = np.asarray(E["verts"], dtype=np.float64)
    F = np.asarray(E["faces"], dtype=int)
    cen = V.mean(axis=0)
    return float(sum(abs(np.dot(V[f[0]] - cen, np.cross(V[f[1]] - cen, V[f[2]] - cen))) / 6.0 for f in F))


def mesh_area(E):
    V = np.asarray(E["verts"], dtype=np.float64)
    F = np.asarray(E["faces"], dtype=int)
    return float(sum(0.5 * np.linalg.norm(np.cross(V[f[1]] - V[f[0]], V[f[2]] - V[f[0]])) for f in F))


# ---------------------------------------------------------------- leaf geometry --------
def _leaf_polygon(E, env, N):
    o, c1, c2 = pval(E["o"], env, N), pval(E["c1"], env, N), pval(E["c2"], env, N)
    if E["t"] == "par":
        return np.stack([o, c1, c1 + c2 - o, c2], axis=1)
    return np.stack([o, c1, c2], axis=1)


def leaf_contains_bdist(E, env):
    """(contains (N,) bool, distance-to-boundary lower bound (N,))"""
    t = E["t"]
    x = np.asarray(env[E["var"]], dtype=np.float64)
    N = len(x)
    if t == "interval":
        lo, hi = pval(E["lo"], env, N)[:, 0], pval(E["hi"], env, N)[:, 0]
        xx = x[:, 0]
        return (xx >= lo) & (xx <= hi), np.minimum(np.abs(xx - lo), np.abs(xx - hi))
    if t in ("circle", "sphere"):
        c, r = pval(E["c"], env, N), pval(E["r"], env, N)[:, 0]
        d2 = np.sum((x - c) ** 2, axis=1)
        return d2 <= r * r, np.abs(np.sqrt(d2) - r)
    if t in ("par", "tri"):
        V = _leaf_polygon(E, env, N)
        return _convex_contains(x, V), _poly_dist(x, V)
    if t == "poly":
        inside = _ring_evenodd(x, E["verts"])
        d = _poly_dist(x, np.broadcast_to(np.asarray(E["verts"], float), (N,) + np.shape(E["verts"])))
        if E.get("hole"):
            inside &= ~_ring_evenodd(x, E["hole"])
            d = np.minimum(d, _poly_dist(x, np.broadcast_to(np.asarray(E["hole"], float),
                                                            (N,) + np.shape(E["hole"]))))
        return inside, d
    if t == "mesh":
        nrm, off = _mesh_planes(E)
        s = x @ nrm.T - off[None, :]          # signed plane distances, <=0 inside
        smax = s.max(axis=1)
        return smax <= 0, np.abs(smax)         # exact inside; lower bound outside (convex)
    if t == "point":
        p = pval(E["p"], env, N)
        d = np.linalg.norm(x - p, axis=1)
        return d <= 0, d
    raise ValueError(t)


# ---------------------------------------------------------------- motions --------------
def euler_matrix(e):
    a, b, c = [float(np.float32(v)) for v in e]
    Rz = np.array([[math.cos(a), -math.sin(a), 0], [math.sin(a), math.cos(a), 0], [0, 0, 1]])
    Ry = np.array([[math.cos(b), 0, math.sin(b)], [0, 1, 0], [-math.sin(b), 0, math.cos(b)]])
    Rx = np.array([[1, 0, 0], [0, math.cos(c), -math.sin(c)], [0, math.sin(c), math.cos(c)]])
    return Rz @ Ry @ Rx


def _rot(E, env, N):
    if "euler" in E:      # constant 3-D rotation given as a matrix
        R = np.broadcast_to(_f32(euler_matrix(E["euler"])), (N, 3, 3)).copy()
        ar = pval(E["around"], env, N) if E.get("around") else np.zeros((N, 3))
        return R, ar
    a = pval(E["angle"], env, N)[:, 0]
    c, s = np.cos(a), np.sin(a)
    R = np.stack([np.stack([c, -s], axis=1), np.stack([s, c], axis=1)], axis=1)   # (N,2,2)
    ar = pval(E["around"], env, N) if E.get("around") else np.zeros((N, 2))
    return R, ar


def pull_back(E, env):
    """environment in which the child of a translate/rotate node has to be evaluated."""
    var = space_vars(E)[0][0]
    x = np.asarray(env[var], dtype=np.float64)
    N = len(x)
    e2 = dict(env)
    if E["t"] == "translate":
        e2[var] = x - pval(E["v"], env, N)
    else:
        R, ar = _rot(E, env, N)
        e2[var] = np.einsum("nji,nj->ni", R, x - ar) + ar      # R^T (x-c) + c
    return e2


def push_forward(E, env, y):
    """image of child-coordinates y (N,d) under the node's motion."""
    N = len(y)
    if E["t"] == "translate":
        return y + pval(E["v"], env, N)
    R, ar = _rot(E, env, N)
    return np.einsum("nij,nj->ni", R, y - ar) + ar


# ---------------------------------------------------------------- membership -----------
def contains(E, env):
    """Closed-set membership of an interior expression (no boundary nodes)."""
    t = E["t"]
    if t in LEAVES:
        return leaf_contains_bdist(E, env)[0]
    if t == "union":
        return contains(E["a"], env) | contains(E["b"], env)
    if t == "isect":
        return contains(E["a"], env) & contains(E["b"], env)
    if t == "cut":
        return contains(E["a"], env) & ~contains(E["b"], env)
    if t == "product":
        return contains(E["a"], env) & contains(E["b"], env)
    if t in ("translate", "rotate"):
        return contains(E["a"], pull_back(E, env))
    raise ValueError(f"contains() on {t}")


def leaf_dists(E, env):
    """list of per-leaf distance arrays (N,) to that leaf's boundary, pulled back through motions."""
    t = E["t"]
    if t in LEAVES:
        return [leaf_contains_bdist(E, env)[1]]
    if t in ("translate", "rotate"):
        return leaf_dists(E["a"], pull_back(E, env))
    out = []
    for c in children(E):
        out += leaf_dists(c, env)
    return out


def margin(E, env):
    return np.min(np.stack(leaf_dists(E, env), axis=0), axis=0)


def _directions(d):
    if d == 1:
        return np.array([[1.0], [-1.0]])
    if d == 2:
        a = (np.arange(64) + 0.25) * (2 * np.pi / 64)
        return np.stack([np.cos(a), np.sin(a)], axis=1)
    i = np.arange(160) + 0.5
    phi = np.arccos(1 - 2 * i / 160)
    th = np.pi * (1 + 5 ** 0.5) * i
    return np.stack([np.cos(th) * np.sin(phi), np.sin(th) * np.sin(phi), np.cos(phi)], axis=1)


def probe_mixed(E, env, rho):
    """For an interior, single-variable expression: is membership non-constant on the sphere of
    radius rho around each row (sampled directions)?  (N,) bool"""
    var, d = space_vars(E)[0]
    x = np.asarray(env[var], dtype=np.float64)
    N = len(x)
    base = None
    mixed = np.zeros(N, dtype=bool)
    for dv in _directions(d):
        e2 = dict(env)
        e2[var] = x + rho * dv[None, :]
        c = contains(E, e2)
        if base is None:
            base = c
        else:
            mixed |= c != base
    return mixed


def _flat_contact(A, env, tol):
    """rows near exactly two leaf boundaries: do both consist, within 5*tol of the row, of ONE straight
    piece each and do the two pieces lie on exactly the same line (same end point in 1-D)?  Then the
    5*tol-ball is split by that single line and membership is constant on either side, so a probe ring
    that is not mixed proves that the row is not a boundary point.  Only for parameter-free interval /
    parallelogram / triangle / polygon leaves that are not moved (exact float64 coordinates)."""
    N = env_len(env)
    out = np.zeros(N, dtype=bool)
    leaves = []
    for n in walk(A):
        if n["t"] in ("translate", "rotate", "product"):
            return out
        if n["t"] in LEAVES:
            if n["t"] not in ("interval", "par", "tri", "poly") or any(
                    isinstance(v, dict) and v.get("k", "const") != "const" for v in n.values()):
                return out
            leaves.append(n)
    var = leaves[0]["var"]
    x = np.asarray(env[var], dtype=np.float64)
    segs = []
    for n in leaves:
        if n["t"] == "interval":
            segs.append([pval(n["lo"], {}, 1)[0, 0], pval(n["hi"], {}, 1)[0, 0]])
        else:
            rings = [_leaf_polygon(n, {}, 1)[0]] if n["t"] != "poly" else [np.asarray(r, float) for r in _rings(n)]
            segs.append([(r[i], r[(i + 1) % len(r)]) for r in rings for i in range(len(r))])
    for j in range(N):
        pieces = []
        for n, sg in zip(leaves, segs):
            if n["t"] == "interval":
                close = [e for e in sg if abs(x[j, 0] - e) <= 5 * tol]
            else:
                close = []
                for a, b in sg:
                    ab = b - a
                    tt = np.clip(np.dot(x[j] - a, ab) / np.dot(ab, ab), 0.0, 1.0)
                    if np.linalg.norm(x[j] - (a + tt * ab)) <= 5 * tol:
                        close.append((a, b))
            if len(close) > 1:
                pieces = None
                break
            pieces += close
        if not pieces or len(pieces) != 2:
            continue
        if leaves[0]["t"] == "interval":
            out[j] = pieces[0] == pieces[1]
        else:
            (a1, b1), (a2, b2) = pieces
            d = b1 - a1
            sc = float(np.dot(d, d))
            cr = lambda q: abs(d[0] * (q - a1)[1] - d[1] * (q - a1)[0])      # noqa: E731
            out[j] = cr(a2) <= 1e-12 * sc and cr(b2) <= 1e-12 * sc
    return out


def status(E, env, tol):
    """Three-valued judgement with tolerance: IN (certainly in the denoted set / for boundary
    nodes certainly within 4*tol of the boundary), OUT (certainly not, by more than tol),
    UNDECIDED otherwise.  Returns int array (N,)."""
    t = E["t"]
    N = env_len(env)
    if t == "product":
        sa, sb = status(E["a"], env, tol), status(E["b"], env, tol)
        out = np.full(N, UNDECIDED)
        out[(sa == IN) & (sb == IN)] = IN
        out[(sa == OUT) | (sb == OUT)] = OUT
        return out
    if t in ("bleft", "bright"):
        I = E["a"]
        x = np.asarray(env[I["var"]], dtype=np.float64)[:, 0]
        side = pval(I["lo"] if t == "bleft" else I["hi"], env, len(x))[:, 0]
        d = np.abs(x - side)
        out = np.full(N, UNDECIDED)
        out[d <= tol] = IN
        out[d > 4 * tol] = OUT
        return out
    if t == "boundary":
        A = E["a"]
        if A["t"] == "product":
            # boundary(a x b) = (bd a x b) U (a x bd b)
            s1 = status({"t": "product", "a": {"t": "boundary", "a": A["a"]}, "b": A["b"]}, env, tol)
            s2 = status({"t": "product", "a": A["a"], "b": {"t": "boundary", "a": A["b"]}}, env, tol)
            out = np.full(N, UNDECIDED)
            out[(s1 == IN) | (s2 == IN)] = IN
            out[(s1 == OUT) & (s2 == OUT)] = OUT
            return out
        dists = np.stack(leaf_dists(A, env), axis=0)            # (L,N)
        m = dists.min(axis=0)
        near5 = (dists <= 5 * tol).sum(axis=0)
        out = np.full(N, UNDECIDED)
        out[m > tol] = OUT
        cand = m <= tol
        if cand.any():
            idx = np.where(cand)[0]
            sub = {k: np.asarray(v)[idx] for k, v in env.items()}
            mixed = probe_mixed(A, sub, 2 * tol) | probe_mixed(A, sub, 4 * tol)
            single = near5[idx] == 1
            res = np.full(len(idx), UNDECIDED)
            res[mixed] = IN
            res[~mixed & single] = OUT
            two = ~mixed & (near5[idx] == 2)
            if two.any():
                flat = _flat_contact(A, {k: np.asarray(v)[two] for k, v in sub.items()}, tol)
                jj = np.where(two)[0]
                res[jj[flat]] = OUT
            out[idx] = res
        return out
    # interior expression
    c = contains(E, env)
    m = margin(E, env)
    out = np.full(N, UNDECIDED)
    out[c & (m > tol)] = IN
    out[~c & (m > tol)] = OUT
    return out


# ---------------------------------------------------------------- measures -------------
def leaf_measure(E, env, boundary=False):
    """analytic measure per row (N,) of a leaf or of its boundary."""
    t = E["t"]
    N = env_len(env)
    if t == "interval":
        lo, hi = pval(E["lo"], env, N)[:, 0], pval(E["hi"], env, N)[:, 0]
        return np.full(N, 2.0) if boundary else hi - lo
    if t == "circle":
        r = pval(E["r"], env, N)[:, 0]
        return 2 * np.pi * r if boundary else np.pi * r ** 2
    if t == "sphere":
        r = pval(E["r"], env, N)[:, 0]
        return 4 * np.pi * r ** 2 if boundary else 4.0 / 3.0 * np.pi * r ** 3
    if t in ("par", "tri"):
        V = _leaf_polygon(E, env, N)
        m = V.shape[1]
        if boundary:
            return sum(np.linalg.norm(V[:, (i + 1) % m] - V[:, i], axis=1) for i in range(m))
        a2 = sum(V[:, i, 0] * V[:, (i + 1) % m, 1] - V[:, i, 1] * V[:, (i + 1) % m, 0] for i in range(m))
        return np.abs(a2) / 2.0
    if t == "poly":
        if boundary:
            return np.full(N, sum(ring_length(r) for r in _rings(E)))
        a = abs(shoelace(E["verts"])) - (abs(shoelace(E["hole"])) if E.get("hole") else 0.0)
        return np.full(N, a)
    if t == "mesh":
        return np.full(N, mesh_area(E) if boundary else mesh_volume(E))
    if t == "point":
        return np.full(N, 1.0)
    raise ValueError(t)


def ref_box(E, env):
    """conservative per-row bounding box (N, 2*dim) [min0,max0,min1,max1..] in space order of
    a single-variable interior expression."""
    t = E["t"]
    N = env_len(env)
    if t == "interval":
        return np.stack([pval(E["lo"], env, N)[:, 0], pval(E["hi"], env, N)[:, 0]], axis=1)
    if t in ("circle", "sphere"):
        c, r = pval(E["c"], env, N), pval(E["r"], env, N)[:, 0]
        return np.stack([f(c[:, i]) for i in range(c.shape[1]) for f in (lambda v: v - r, lambda v: v + r)], axis=1)
    if t in ("par", "tri"):
        V = _leaf_polygon(E, env, N)
        return np.stack([V[:, :, 0].min(1), V[:, :, 0].max(1), V[:, :, 1].min(1), V[:, :, 1].max(1)], axis=1)
    if t == "poly":
        r = np.asarray(E["verts"], float)
        return np.broadcast_to(np.array([r[:, 0].min(), r[:, 0].max(), r[:, 1].min(), r[:, 1].max()]), (N, 4)).copy()
    if t == "mesh":
        V = np.asarray(E["verts"], float)
        b = np.array([f(V[:, i]) for i in range(3) for f in (np.min, np.max)])
        return np.broadcast_to(b, (N, 6)).copy()
    if t == "point":
        p = pval(E["p"], env, N)
        return np.stack([p[:, i] for i in range(p.shape[1]) for _ in (0, 1)], axis=1)
    if t in ("union",):
        a, b = ref_box(E["a"], env), ref_box(E["b"], env)
        out = a.copy()
        out[:, 0::2] = np.minimum(a[:, 0::2], b[:, 0::2])
        out[:, 1::2] = np.maximum(a[:, 1::2], b[:, 1::2])
        return out
    if t in ("cut", "isect"):
        return ref_box(E["a"], env)
    if t == "translate":
        a = ref_box(E["a"], env)
        v = pval(E["v"], env, N)
        return a + np.repeat(v, 2, axis=1)
    if t == "rotate":
        a = ref_box(E["a"], env)
        d = a.shape[1] // 2
        import itertools
        corners = [np.stack([a[:, 2 * ax + bit] for ax, bit in enumerate(bits)], axis=1)
                   for bits in itertools.product((0, 1), repeat=d)]
        img = np.stack([push_forward(E, env, c) for c in corners], axis=1)
        return np.stack([f(img[:, :, ax], 1) for ax in range(d) for f in (np.min, np.max)], axis=1)
    raise ValueError(t)


def halton(n, d, skip=20):
    primes = [2, 3, 5, 7, 11, 13][:d]
    out = np.empty((n, d))
    for j, b in enumerate(primes):
        i = np.arange(skip, skip + n)
        f, r = 1.0, np.zeros(n)
        ii = i.copy()
        while ii.max() > 0:
            f /= b
            r += f * (ii % b)
            ii //= b
        out[:, j] = r
    return out


def qmc_measure(E, penv, n=4096):
    """measure of a single-variable interior expression at ONE parameter row (penv arrays have 1 row).
    Returns (measure, box (2d,), acceptance ratio)."""
    var, d = space_vars(E)[0]
    box = ref_box(E, penv)[0]
    lo, hi = box[0::2], box[1::2]
    u = halton(n, d)
    x = lo[None, :] + u * (hi - lo)[None, :]
    env = {k: np.repeat(np.asarray(v, float), n, axis=0) for k, v in penv.items()}
    env[var] = x
    frac = float(contains(E, env).mean())
    return frac * float(np.prod(hi - lo)), box, frac


def exact_measure(E, env):
    """closed-form measure per row where one exists (leaves, motions of them, flagged
    disjoint unions / contained cuts, independent products); else None."""
    t = E["t"]
    if t in LEAVES:
        return leaf_measure(E, env)
    if t in ("translate", "rotate"):
        return exact_measure(E["a"], env)
    if t == "boundary" and E["a"]["t"] in LEAVES:
        return leaf_measure(E["a"], env, boundary=True)
    if t in ("bleft", "bright"):
        return np.ones(env_len(env))
    if t == "product":
        a, b = exact_measure(E["a"], env), exact_measure(E["b"], env)
        return None if a is None or b is None else a * b
    if t == "union" and E.get("disjoint"):
        a, b = exact_measure(E["a"], env), exact_measure(E["b"], env)
        return None if a is None or b is None else a + b
    if t == "cut" and E.get("contained"):
        a, b = exact_measure(E["a"], env), exact_measure(E["b"], env)
        return None if a is None or b is None else a - b
    return None


# ---------------------------------------------------------------- reference samplers ---
def sample_interior(E, penv, n, rng):
    """n float64 uniform reference samples of a single-variable interior expression at ONE
    parameter row, by rejection from the reference box (numpy Generator rng)."""
    var, d = space_vars(E)[0]
    box = ref_box(E, penv)[0]
    lo, hi = box[0::2], box[1::2]
    out = []
    got = 0
    rounds = 0
    while got < n:
        rounds += 1
        if rounds > 300:
            raise EmptyReference("reference rejection sampler found no point of the set in its box")
        m = max(256, 2 * (n - got))
        x = lo[None, :] + rng.random((m, d)) * (hi - lo)[None, :]
        env = {k: np.repeat(np.asarray(v, float), m, axis=0) for k, v in penv.items()}
        env[var] = x
        keep = x[contains(E, env)]
        out.append(keep)
        got += len(keep)
    return np.concatenate(out, axis=0)[:n]


def leaf_boundary_points(E, penv, m):
    """m points per boundary piece of a leaf at ONE parameter row, with outward unit normals
    (deterministic, evenly spaced; used for near-boundary query generation and enclosure)."""
    t = E["t"]
    if t == "interval":
        lo, hi = pval(E["lo"], penv, 1)[0, 0], pval(E["hi"], penv, 1)[0, 0]
        return np.array([[lo], [hi]]), np.array([[-1.0], [1.0]])
    if t == "circle":
        c, r = pval(E["c"], penv, 1)[0], pval(E["r"], penv, 1)[0, 0]
        a = (np.arange(4 * m) + 0.37) * 2 * np.pi / (4 * m)
        nrm = np.stack([np.cos(a), np.sin(a)], axis=1)
        return c[None, :] + r * nrm, nrm
    if t == "sphere":
        c, r = pval(E["c"], penv, 1)[0], pval(E["r"], penv, 1)[0, 0]
        i = np.arange(6 * m) + 0.5
        phi = np.arccos(1 - 2 * i / (6 * m))
        th = np.pi * (1 + 5 ** 0.5) * i
        nrm = np.stack([np.cos(th) * np.sin(phi), np.sin(th) * np.sin(phi), np.cos(phi)], axis=1)
        return c[None, :] + r * nrm, nrm
    if t in ("par", "tri", "poly"):
        rings = [_leaf_polygon(E, penv, 1)[0]] if t != "poly" else [np.asarray(r, float) for r in _rings(E)]
        pts, nrms = [], []
        for k, ring in enumerate(rings):
            orient = 1.0 if shoelace(ring) >= 0 else -1.0
            if k >= 1:
                orient = -orient      # hole: outward of the domain points into the hole
            for i in range(len(ring)):
                a, b = ring[i], ring[(i + 1) % len(ring)]
                s = (np.arange(m) + 0.5) / m
                pts.append(a[None, :] + s[:, None] * (b - a)[None, :])
                e = (b - a) / np.linalg.norm(b - a)
                nrms.append(np.broadcast_to(orient * np.array([e[1], -e[0]]), (m, 2)))
        return np.concatenate(pts), np.concatenate(nrms)
    if t == "mesh":
        V = np.asarray(E["verts"], float)
        nrm, _ = _mesh_planes(E)
        pts, nrms = [], []
        for f, nv in zip(E["faces"], nrm):
            a, b, c = V[f[0]], V[f[1]], V[f[2]]
            for (u, v) in [(1 / 3, 1 / 3), (0.6, 0.2), (0.2, 0.6), (0.2, 0.2)][:max(1, min(4, m))]:
                pts.append(a + u * (b - a) + v * (c - a))
                nrms.append(nv)
        return np.array(pts), np.array(nrms)
    raise ValueError(t)


def vertices(E, penv):
    """corner points of polygonal leaves at one parameter row (for the vertex-vicinity rule)."""
    t = E["t"]
    if t in ("par", "tri"):
        return _leaf_polygon(E, penv, 1)[0]
    if t == "poly":
        return np.concatenate([np.asarray(r, float) for r in _rings(E)])
    return np.zeros((0, 2))
