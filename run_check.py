#!/venv/bin/python
"""Single entry point:  run_check.py <ID> --tier quick|thorough [--replay FILE]

exit 0  property held on everything explored (KNOWN-FINDING lines possible)
exit 1  unlisted violation(s): prints  VIOLATION property=<id> replay=<path>
exit 2  harness error (never reported as a violation)
"""
import argparse
import fnmatch
import importlib
import json
import os
import subprocess
import sys
import time
import traceback
import faulthandler
import signal

HERE = os.path.dirname(os.path.abspath(__file__))

if os.environ.get("PYTHONHASHSEED") != "0":
    os.environ["PYTHONHASHSEED"] = "0"
    os.execv(sys.executable, [sys.executable] + sys.argv)

sys.path.insert(0, HERE)
from vf import core  # noqa: E402


def load(prop):
    core.setup_imports()
    return importlib.import_module(f"checks.{prop.lower()}")


def worker(args):
    faulthandler.register(signal.SIGUSR1, all_threads=True)      # kill -USR1 <pid> prints where a slow worker is
    """One search process. Writes its counters and shrunk findings to args.out."""
    mod = load(args.prop)
    budget = mod.BUDGET[args.tier]
    examples = args.examples or budget["examples"]
    seed = args.seed * 1000 + args.worker
    ctx = core.Ctx(mod.PROPERTY, args.tier, seed)
    found = []
    pinned = []
    t0 = time.time()
    if args.worker == 0:
        # pinned regressions: repros of fixed findings must pass, of known findings are reported
        nk = core._NoKnown()
        for e in ctx.known.entries:
            if "repro" not in e:
                continue
            c2 = core.Ctx(mod.PROPERTY, args.tier, seed, known=nk)
            vs = c2.execute(mod, e["repro"], count=False)
            hit = [v for v in vs if any(fnmatch.fnmatchcase(v.signature, p)
                                        for p in e.get("signatures", ["*"]))]
            pinned.append({"id": e["id"], "kind": e["kind"], "fails": bool(hit),
                           "detail": hit[0].detail if hit else None})
            if e["kind"] == "fixed":
                for v in hit:
                    v.signature = "regression-of-fixed:" + e["id"] + ":" + v.signature
                    found.append(v)
            else:
                # other, unlisted signatures on a known repro are ordinary violations
                found.extend(v for v in vs if ctx.known.match(v.signature) is None)
        extra = getattr(mod, "extra_cases", None)
        if extra is not None:
            seen = {v.signature for v in found}
            for spec in extra(args.tier, seed):
                for v in ctx.execute(mod, spec):
                    if v.signature not in seen:
                        seen.add(v.signature)
                        found.append(v)
    shrink = budget.get("shrink", True)
    found += core.hypothesis_search(mod, ctx, args.tier, seed, examples, shrink=shrink)
    fin = getattr(mod, "finish", None)
    extra_cov = fin(ctx) if fin else {}
    out = ctx.to_json()
    out["extra_coverage"] = extra_cov
    out["pinned"] = pinned
    out["wall_s"] = time.time() - t0
    out["found"] = [{"property": v.prop, "kind": v.kind, "signature": v.signature,
                     "detail": v.detail, "spec": v.spec} for v in found]
    with open(args.out, "w") as f:
        json.dump(out, f, default=core._json_default)
    return 0


def replay(args):
    mod = load(args.prop)
    data, vs = core.replay_file(mod, args.replay)
    want = data.get("signature")
    for v in vs:
        print(f"  reproduced {v.signature}: {v.detail}")
    if vs:
        print(f"VIOLATION property={mod.PROPERTY} replay={args.replay}")
        return core.EXIT_VIOLATION
    print(f"replay {args.replay}: no violation (recorded signature was {want})")
    return core.EXIT_OK


def parent(args):
    t0 = time.time()
    mod = load(args.prop)
    budget = mod.BUDGET[args.tier]
    workers = args.workers or budget.get("workers", 1)
    work = os.path.join(HERE, ".work", f"{args.prop}-{args.tier}-{os.getpid()}")
    os.makedirs(work, exist_ok=True)
    procs = []
    for i in range(workers):
        out = os.path.join(work, f"w{i}.json")
        cmd = [sys.executable, os.path.abspath(__file__), args.prop, "--tier", args.tier,
               "--worker", str(i), "--out", out, "--seed", str(args.seed)]
        if args.examples:
            cmd += ["--examples", str(args.examples)]
        log = open(os.path.join(work, f"w{i}.log"), "w")
        procs.append((i, out, log, subprocess.Popen(cmd, stdout=log, stderr=subprocess.STDOUT,
                                                    cwd=HERE)))
    results, harness_errors = [], []
    # a wall-clock cap on the whole check: hitting it is a harness problem (exit 2), never a verdict
    deadline = time.time() + float(os.environ.get("VERIF_WALL_CAP", 1500 if args.tier == "quick" else 6 * 3600))
    for i, out, log, p in procs:
        try:
            rc = p.wait(timeout=max(1.0, deadline - time.time()))
        except subprocess.TimeoutExpired:
            for _, _, _, q in procs:
                if q.poll() is None:
                    q.kill()
            rc = p.wait()
            harness_errors.append(f"worker {i}: wall-clock cap reached (inconclusive, no verdict)")
        log.close()
        if rc != 0 or not os.path.exists(out):
            with open(log.name) as f:
                harness_errors.append(f"worker {i} rc={rc}\n" + f.read()[-3000:])
            continue
        with open(out) as f:
            results.append((i, json.load(f)))
    if harness_errors:
        print("HARNESS-ERROR in worker(s):\n" + "\n".join(harness_errors), file=sys.stderr)
        _cleanup(work)
        return core.EXIT_HARNESS

    # ---- merge -----------------------------------------------------------------------
    from collections import Counter
    ev = Counter()
    known_hits = Counter()
    nontriv, samples, known_examples, pinned = set(), [], {}, []
    evaluations = inconclusive = distinct = 0
    extra_cov = {}
    found = {}
    for i, r in results:
        evaluations += r["evaluations"]
        distinct += r["distinct"]
        inconclusive += r["inconclusive"]
        nontriv.update(r["nontrivial"])
        ev.update(r["events"])
        known_hits.update(r["known_hits"])
        for k, v in r["known_examples"].items():
            known_examples.setdefault(k, v)
        if len(samples) < 8:
            samples.extend(r["samples"][: max(1, 8 // len(results))])
        pinned.extend(r["pinned"])
        for k, v in (r.get("extra_coverage") or {}).items():
            if isinstance(v, (int, float)) and not isinstance(v, bool):
                extra_cov[k] = extra_cov.get(k, 0) + v
            else:
                extra_cov.setdefault(k, v)
        for v in r["found"]:
            found.setdefault(v["signature"], (i, v))

    known = core.KnownFindings(mod.PROPERTY)
    for e in known.known:
        pin = next((p for p in pinned if p["id"] == e["id"]), None)
        state = ""
        if pin is not None:
            state = " [pinned repro still fails]" if pin["fails"] else " [pinned repro no longer fails]"
        print(f"KNOWN-FINDING: property={mod.PROPERTY} {e['id']} {e['what']}"
              f" (matched {known_hits.get(e['id'], 0)} generated cases){state}")

    replay_paths = []
    for sig, (i, v) in sorted(found.items(), key=lambda kv: kv[1][0]):
        vi = core.Violation(v["property"], v["kind"], v["signature"], v["detail"], v["spec"])
        path = core.write_replay(vi, args.tier, args.seed)
        replay_paths.append(path)
        print(f"  violation {sig}: {v['detail']}")
        print(f"VIOLATION property={mod.PROPERTY} replay={os.path.relpath(path, HERE)}")

    wall = time.time() - t0
    if not samples:
        samples = [{"note": "no non-trivial sample recorded"}]
    coverage = {
        "evaluations": evaluations,
        "distinct_nontrivial": len(nontriv),
        "distinct_cases": distinct,
        "rule": mod.RULE,
        "samples": samples[:8],
        "class_histogram": {k: v for k, v in sorted(ev.items())},
        "known_findings_hit": dict(known_hits),
        "known_finding_examples": known_examples,
        "pinned_repros": pinned,
        "budget_inconclusive": inconclusive,
        "workers": workers,
        "exhaustive": False,
    }
    coverage.update(extra_cov)
    evidence = {
        "property_id": mod.PROPERTY,
        "tier": args.tier,
        "seed": args.seed,
        "level": getattr(mod, "LEVEL", "exploration"),
        "coverage": coverage,
        "assumptions": list(mod.ASSUMPTIONS),
        "wall_s": round(wall, 2),
        "violations": len(found),
    }
    # sensitivity runs against scratch copies (tools/mutant.py) must not touch the real evidence
    evdir = os.path.join(HERE, ".work", "scratch-" + os.environ["VERIF_SCRATCH"], "evidence") \
        if os.environ.get("VERIF_SCRATCH") else os.path.join(HERE, "evidence")
    os.makedirs(evdir, exist_ok=True)
    tmp = os.path.join(evdir, f".{mod.PROPERTY}.json.tmp")
    with open(tmp, "w") as f:
        json.dump(evidence, f, indent=1, default=core._json_default)
    os.replace(tmp, os.path.join(evdir, f"{mod.PROPERTY}.json"))
    _cleanup(work)
    print(f"{mod.PROPERTY} {args.tier} seed={args.seed}: {evaluations} cases, "
          f"{len(nontriv)} distinct non-trivial, {len(found)} unlisted violation(s), "
          f"{sum(known_hits.values())} known-finding hits, {wall:.1f}s")
    return core.EXIT_VIOLATION if found else core.EXIT_OK


def _cleanup(work):
    import shutil
    shutil.rmtree(work, ignore_errors=True)


def main():
    ap = argparse.ArgumentParser()
    ap.add_argument("prop")
    ap.add_argument("--tier", default=os.environ.get("VERIF_TIER", "quick"),
                    choices=["quick", "thorough"])
    ap.add_argument("--replay")
    ap.add_argument("--seed", type=int, default=None)
    ap.add_argument("--examples", type=int, default=0)
    ap.add_argument("--workers", type=int, default=0)
    ap.add_argument("--worker", type=int, default=None)
    ap.add_argument("--out")
    args = ap.parse_args()
    args.prop = args.prop.upper()
    if args.seed is None:
        try:
            args.seed = int(os.environ.get("VERIF_SEED", "1"))
        except ValueError:
            args.seed = 1
    try:
        if args.replay:
            return replay(args)
        if args.worker is not None:
            return worker(args)
        return parent(args)
    except core.HarnessError as e:
        print(f"HARNESS-ERROR: {e}", file=sys.stderr)
        return core.EXIT_HARNESS
    except Exception:   # noqa: BLE001
        traceback.print_exc()
        print("HARNESS-ERROR: unexpected exception in the harness", file=sys.stderr)
        return core.EXIT_HARNESS


if __name__ == "__main__":
    sys.exit(main())
