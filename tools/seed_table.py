#!/venv/bin/python
"""markdown table of the seeded changes under /verif/seeded (from their meta.json)."""
import glob, json, os
HERE = os.path.dirname(os.path.dirname(os.path.abspath(__file__)))
print("| seed | change | needs | demo (clean/patched) | suite with patch | detected by |")
print("|---|---|---|---|---|---|")
for d in sorted(glob.glob(os.path.join(HERE, "seeded", "C*"))):
    m = json.load(open(os.path.join(d, "meta.json")))
    ev = m.get("evaluation", {})
    det = []
    for k, v in ev.get("detected_by", {}).items():
        if v.get("signatures"):
            det.append(f"{k} (seed {v['seed']}): `{v['signatures'][0].split(':')[0]}:{v['signatures'][0].split(':')[1][:40]}`")
        elif v.get("detected") is False:
            det.append(f"{k}: not detected")
        else:
            det.append(f"{k}: {str(v)[:60]}")
    t = ev.get("tests_with_patch", "")
    t = t.strip("= ").split(" in ")[0]
    clean = lambda x: str(x).replace("|", "/").replace("\n", " ")
    print(f"| {os.path.basename(d)} | {clean(m['summary'])[:230]} | {clean(m['needs'])[:200]} | "
          f"{ev.get('demo_clean_exit')}/{ev.get('demo_patched_exit')} | {t} | {'; '.join(det)} |")
