#!/venv/bin/python
"""tools/check_repro.py <commit> <property> <replay.json>: does the replay fail on <commit>^ and pass on <commit>?"""
import json, os, subprocess, sys
HERE = os.path.dirname(os.path.dirname(os.path.abspath(__file__)))
c, prop, f = sys.argv[1:4]
out = {}
for tag, rev in (("prev", c + "^"), ("at", c)):
    wt = f"/tmp/tp-cr-{tag}-{c}"
    subprocess.run(["git", "-C", "/repo", "worktree", "remove", "--force", wt], capture_output=True)
    subprocess.run(["git", "-C", "/repo", "worktree", "add", "--detach", wt, rev], capture_output=True, check=True)
    r = subprocess.run([sys.executable, os.path.join(HERE, "run_check.py"), prop, "--replay", f],
                       env=dict(os.environ, VERIF_SRC=wt + "/src", VERIF_SCRATCH="cr"), capture_output=True, text=True, cwd=HERE)
    sig = [l.strip() for l in r.stdout.splitlines() if l.strip().startswith("reproduced")]
    out[tag] = (r.returncode, sig[:2])
    subprocess.run(["git", "-C", "/repo", "worktree", "remove", "--force", wt], capture_output=True)
print(c, prop, json.dumps(out)[:600])
