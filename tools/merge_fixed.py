#!/venv/bin/python
"""merge tools/fixed_repros.json (+ hand-made repros under tools/hand_repros/) into known_findings.json as
kind "fixed" entries (one per fix commit that has no entry yet)."""
import glob, json, os
HERE = os.path.dirname(os.path.dirname(os.path.abspath(__file__)))
kf = json.load(open(os.path.join(HERE, "known_findings.json")))
table = {r["commit"]: r for r in json.load(open(os.path.join(HERE, "tools", "fix_table.json")))}
found = json.load(open(os.path.join(HERE, "tools", "fixed_repros.json")))
hand = {}
for f in glob.glob(os.path.join(HERE, "tools", "hand_repros", "*.json")):
    hand[os.path.basename(f)[:-5]] = json.load(open(f))
have = {e.get("commit") for e in kf["findings"] if e.get("kind") == "fixed"}
added = 0
for c, row in table.items():
    if c in have:
        continue
    rep = found.get(c) or None
    if rep is None and c in hand:
        h = hand[c]
        rep = {"property": h["property"], "signature": h.get("signature", "*"), "spec": h["spec"]}
    prop = rep["property"] if rep else row["props"][0]
    e = {"kind": "fixed", "property": prop, "id": "fix-" + c, "commit": c, "what": row["what"],
         "entry": f"fixed: property={prop} {c} {row['what']}"}
    if rep:
        sig = rep["signature"]
        e["signatures"] = [sig if sig not in ("?", "*") else "*"]
        e["repro"] = rep["spec"]
    else:
        e["note"] = "no pinned repro: the failing input needs a combination that later fixes changed; the check that found it is " + ",".join(row["props"])
    kf["findings"].append(e)
    added += 1
json.dump(kf, open(os.path.join(HERE, "known_findings.json"), "w"), indent=1)
print("added", added, "fixed entries; total", len(kf["findings"]))
