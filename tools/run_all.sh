#!/bin/bash
# run every registered check at the given tier (default quick); prints one summary line per check
tier=${1:-quick}
for c in C01 C02 C03 C04 C05 C06 C07 C08 C09 C10 C11 C12 C13 C14 C15 C16 C17 C18 C19 C20; do
  /venv/bin/python run_check.py $c --tier $tier 2>&1 | grep -v "conda\|Dimension thing\|Repeating" | grep "VIOLATION\|violation \|quick seed\|thorough seed\|HARNESS" | cut -c1-400
done
