#!/bin/bash
# copy the artefacts a seeding agent left in /tmp/seedwt<round>-<ID> into /verif/seeded/<ID>-k/
id=$1
for k in 1 2 3 4 5 6 7 8 9 10 11 12; do
  src=/tmp/seedwt-$id; [ -d /tmp/seedwt2-$id ] && [ $k -ge 3 ] && src=/tmp/seedwt2-$id
  [ $k -ge 6 ] && src=/tmp/seedwt3-$id
  [ $k -ge 8 ] && src=/tmp/seedwt4-$id
  [ $k -ge 10 ] && src=/tmp/seedwt5-$id
  [ $k -ge 12 ] && src=/tmp/seedwt6-$id
  if [ -f $src/seed${id}_$k.diff ] && [ -f $src/demo${id}_$k.py ] && [ -f $src/meta${id}_$k.json ]; then
    d=/verif/seeded/$id-$k; mkdir -p $d
    cp $src/seed${id}_$k.diff $d/patch.diff; cp $src/demo${id}_$k.py $d/demo.py; cp $src/meta${id}_$k.json $d/meta.json
    echo ingested $d
  fi
done
