#!/venv/bin/python
"""Rewrite the seeded-changes table of DESIGN.md section 9.5 (between the markers) from seeded/*/meta.json."""
import os
import re
import subprocess

HERE = os.path.dirname(os.path.dirname(os.path.abspath(__file__)))
tab = subprocess.run(["/venv/bin/python", os.path.join(HERE, "tools", "seed_table.py")], capture_output=True, text=True).stdout
p = os.path.join(HERE, "DESIGN.md")
s = open(p).read()
a, b = "<!-- seed-table:begin -->", "<!-- seed-table:end -->"
assert a in s and b in s
s = s[:s.index(a) + len(a)] + "\n" + tab + s[s.index(b):]
open(p, "w").write(s)
