#!/venv/bin/python
"""setup_cmd: offline; makes sure Hypothesis is importable beside torchphysics and self-tests the oracles."""
import os, subprocess, sys
HERE = os.path.dirname(os.path.dirname(os.path.abspath(__file__)))
try:
    import hypothesis  # noqa: F401
except ImportError:
    subprocess.check_call([sys.executable, "-m", "pip", "install", "--no-index", "--find-links",
                           "/opt/veriftools/wheels", "hypothesis"])
sys.path.insert(0, HERE)
from vf import core
tp = core.setup_imports()
print("torchphysics from", tp.__file__)
selftest = os.path.join(HERE, "vf", "selftest.py")
if os.path.exists(selftest):
    subprocess.check_call([sys.executable, selftest])
print("setup ok")
