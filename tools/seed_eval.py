#!/venv/bin/python
"""Evaluate one seeded change (seeded/<id>/patch.diff + demo.py + meta.json) in a scratch worktree:

  1. demo on the unmodified tree -> exit 0
  2. patch applies, repository test-suite result unchanged (781 passed)
  3. demo with the patch -> exit 1
  4. which registered checks (quick tier; optionally thorough) report a VIOLATION with the patch

  tools/seed_eval.py seeded/C03-1 [--checks C03,C09] [--tier quick|thorough] [--skip-tests]

Writes the outcome into seeded/<id>/meta.json under "evaluation".  /repo is never modified; the
worktree lives under /tmp and is removed at the end."""
import json
import os
import re
import shutil
import subprocess
import sys

HERE = os.path.dirname(os.path.dirname(os.path.abspath(__file__)))
PY = "/venv/bin/python"


def sh(cmd, **kw):
    return subprocess.run(cmd, capture_output=True, text=True, **kw)


def main():
    args = [a for a in sys.argv[1:] if not a.startswith("--")]
    opts = dict(a[2:].split("=", 1) if "=" in a else (a[2:], "1") for a in sys.argv[1:] if a.startswith("--"))
    sdir = os.path.abspath(args[0])
    sid = os.path.basename(sdir.rstrip("/"))
    meta = json.load(open(os.path.join(sdir, "meta.json")))
    checks = opts.get("checks", meta["property"]).split(",")
    tier = opts.get("tier", "quick")
    wt = f"/tmp/seed-eval-{sid}-{os.getpid()}"
    sh(["git", "-C", "/repo", "worktree", "remove", "--force", wt])
    r = sh(["git", "-C", "/repo", "worktree", "add", "--detach", wt, "HEAD"])
    assert r.returncode == 0, r.stderr
    ev = meta.get("evaluation", {})
    try:
        env = dict(os.environ, PYTHONPATH=wt + "/src")
        demo = os.path.join(sdir, "demo.py")
        d0 = sh([PY, demo], env=env, cwd=wt)
        ev["demo_clean_exit"] = d0.returncode
        a = sh(["git", "-C", wt, "apply", os.path.join(sdir, "patch.diff")])
        ev["patch_applies"] = a.returncode == 0
        if a.returncode != 0:
            ev["apply_error"] = a.stderr[-400:]
            return ev
        if "skip-tests" not in opts:
            t = sh([PY, "-m", "pytest", "-q", "-p", "no:cacheprovider", "--timeout=900", "--no-cov",
                    "--continue-on-collection-errors", "tests"], env=env, cwd=wt)
            last = [l for l in t.stdout.strip().splitlines() if "passed" in l or "failed" in l]
            ev["tests_with_patch"] = last[-1] if last else t.stdout[-200:]
        d1 = sh([PY, demo], env=env, cwd=wt)
        ev["demo_patched_exit"] = d1.returncode
        ev["demo_patched_output"] = (d1.stdout + d1.stderr)[-400:]
        det = ev.setdefault("detected_by", {})
        for c in checks:
            e2 = dict(os.environ, VERIF_SRC=wt + "/src", VERIF_SCRATCH=f"seed-{sid}")
            seeds = opts.get("seeds", "1").split(",")
            hit = None
            for sd in seeds:
                rr = sh([PY, os.path.join(HERE, "run_check.py"), c, "--tier", tier, "--seed", sd], env=e2, cwd=HERE)
                sigs = re.findall(r"^  violation ([^\n]*)", rr.stdout, flags=re.M)
                if rr.returncode == 1:
                    hit = {"tier": tier, "seed": int(sd), "signatures": [s[:200] for s in sigs[:4]]}
                    break
                if rr.returncode == 2:
                    hit = {"tier": tier, "seed": int(sd), "harness_error": rr.stderr[-300:]}
                    break
            det[f"{c}:{tier}"] = hit if hit else {"tier": tier, "seeds": seeds, "detected": False}
            shutil.rmtree(os.path.join(HERE, ".work", f"scratch-seed-{sid}"), ignore_errors=True)
        return ev
    finally:
        meta["evaluation"] = ev
        json.dump(meta, open(os.path.join(sdir, "meta.json"), "w"), indent=1)
        sh(["git", "-C", "/repo", "worktree", "remove", "--force", wt])
        print(sid, json.dumps(ev)[:1500])


if __name__ == "__main__":
    main()
