#!/bin/bash
# re-evaluate every seeded change against the current checks (quick tier, seeds 1 and 2)
cd /verif
for d in seeded/C*; do
  extra=""
  case $(basename $d) in C17-2) extra="--checks=C17,C10";; esac
  /venv/bin/python tools/seed_eval.py $d --skip-tests --seeds=1,2 $extra 2>&1 | grep -v conda | cut -c1-60
done
