#!/venv/bin/python
"""For every fix commit of /repo: find a replay (shrunk failing case of the named check) that fails
on the tree just before the commit and passes on the tree at the commit.  Writes
tools/fixed_repros.json (commit -> {property, signature, spec, what}).  Scratch worktrees live
under /tmp and are removed."""
import glob, json, os, shutil, subprocess, sys
HERE = os.path.dirname(os.path.dirname(os.path.abspath(__file__)))
TABLE = json.load(open(os.path.join(HERE, "tools", "fix_table.json")))
OUT = os.path.join(HERE, "tools", "fixed_repros.json")
res = json.load(open(OUT)) if os.path.exists(OUT) else {}
only = sys.argv[1:]

def sh(cmd, **kw):
    return subprocess.run(cmd, capture_output=True, text=True, **kw)

for row in TABLE:
    c = row["commit"]
    if (only and c not in only) or (c in res and not only):
        continue
    prev, at = f"/tmp/tp-fx-prev-{c}", f"/tmp/tp-fx-at-{c}"
    for d, rev in ((prev, c + "^"), (at, c)):
        sh(["git", "-C", "/repo", "worktree", "remove", "--force", d])
        r = sh(["git", "-C", "/repo", "worktree", "add", "--detach", d, rev])
        assert r.returncode == 0, r.stderr
    try:
        found = None
        for prop in row["props"]:
            tag = f"fx{c}"
            sdir = os.path.join(HERE, ".work", "scratch-" + tag)
            shutil.rmtree(sdir, ignore_errors=True)
            env = dict(os.environ, VERIF_SRC=prev + "/src", VERIF_SCRATCH=tag, VERIF_KNOWN=os.path.join(HERE, "tools", "empty_known.json"))
            for seed in ("1", "2", "3"):
                sh([sys.executable, os.path.join(HERE, "run_check.py"), prop, "--tier", "quick", "--seed", seed], env=env, cwd=HERE)
                cands = []
                for f in sorted(glob.glob(os.path.join(sdir, "replays", "*.json"))):
                    e2 = dict(os.environ, VERIF_SRC=at + "/src", VERIF_SCRATCH=tag + "r")
                    r = sh([sys.executable, os.path.join(HERE, "run_check.py"), prop, "--replay", f], env=e2, cwd=HERE)
                    if r.returncode == 0:
                        e3 = dict(os.environ, VERIF_SRC=prev + "/src", VERIF_SCRATCH=tag + "r")
                        r3 = sh([sys.executable, os.path.join(HERE, "run_check.py"), prop, "--replay", f], env=e3, cwd=HERE)
                        if r3.returncode == 1:
                            d = json.load(open(f))
                            cands.append((len(json.dumps(d["spec"])), d))
                if cands:
                    cands.sort(key=lambda t: t[0])
                    d = cands[0][1]
                    found = {"property": prop, "signature": d["signature"], "detail": d["detail"], "spec": d["spec"]}
                    break
            shutil.rmtree(sdir, ignore_errors=True)
            shutil.rmtree(sdir + "r", ignore_errors=True)
            if found:
                break
        res[c] = found
        print(c, row["what"][:60], "->", (found or {}).get("property"), (found or {}).get("signature"), flush=True)
        json.dump(res, open(OUT, "w"), indent=1)
    finally:
        for d in (prev, at):
            sh(["git", "-C", "/repo", "worktree", "remove", "--force", d])
