#!/venv/bin/python
"""Regenerates MANIFEST.json from tools/manifest_src.json (per-property texts)."""
import json, os
HERE = os.path.dirname(os.path.dirname(os.path.abspath(__file__)))
src = json.load(open(os.path.join(HERE, "tools", "manifest_src.json")))
PY = "/venv/bin/python"
checks = []
for c in src["checks"]:
    pid = c["property_id"]
    if not os.path.exists(os.path.join(HERE, "checks", pid.lower() + ".py")):
        continue
    checks.append({
        "property_id": pid,
        "quick_cmd": f"{PY} run_check.py {pid} --tier quick",
        "thorough_cmd": f"{PY} run_check.py {pid} --tier thorough",
        "evidence_file": f"/verif/evidence/{pid}.json",
        "replay_cmd_template": f"{PY} run_check.py {pid} --replay {{path}}",
        "engine": "hypothesis-pbt",
        "level_claimed": {"category": c.get("category", "exploration"), "text": c["text"],
                          "design_ref": c["design_ref"]},
        "level_note": c["level_note"],
        "technique": c["technique"],
    })
claimed = {c["property_id"] for c in checks}
na = [n for n in src["not_applicable"] if n["property_id"] not in claimed]
m = {
    "version": 1,
    "setup_cmd": f"{PY} tools/setup.py",
    "hooks": {"guard": "TORCHPHYSICS_VERIF", "enable": "no source hooks: checks observe public API only; TORCHPHYSICS_VERIF=1 is exported by run_check.py but nothing in /repo reads it",
              "baseline_off_cmd": "cd /repo && /venv/bin/python -m pytest -ra -q -p no:cacheprovider --timeout=900 --continue-on-collection-errors",
              "source_commits": src.get("hook_commits", []), "add_only": True},
    "engines": [{"name": "hypothesis-pbt", "path": "/verif/run_check.py",
                 "serves_properties": sorted(claimed),
                 "kind_free_text": "Hypothesis 6.168 generated-input search over JSON specs with independent oracles (reference geometry, sympy, plain-PyTorch reference loops, table/dict models), shrinking to replay files"}],
    "checks": checks,
    "notes": src.get("notes", ""),
    "not_applicable": na,
}
json.dump(m, open(os.path.join(HERE, "MANIFEST.json"), "w"), indent=1)
print("claimed", sorted(claimed), "not_applicable", [n["property_id"] for n in na])
