#!/venv/bin/python
"""Sensitivity helper: run a check against a scratch copy of the library with one text edit.

  tools/mutant.py C20 models/FNO.py 'padding[3::2]' 'padding[2::2]' [--tests]

The copy lives under /tmp/tp-mut-<pid>/src and is removed afterwards; /repo is not touched.
With --tests the repository's test-suite is also run against the mutated copy.
Several edits: repeat  FILE OLD NEW  triples.
"""
import os
import shutil
import subprocess
import sys

HERE = os.path.dirname(os.path.dirname(os.path.abspath(__file__)))


def main():
    args = [a for a in sys.argv[1:] if not a.startswith("--")]
    flags = [a for a in sys.argv[1:] if a.startswith("--")]
    props = args[0].split(",")
    triples = args[1:]
    assert len(triples) % 3 == 0 and triples, __doc__
    root = f"/tmp/tp-mut-{os.getpid()}"
    shutil.copytree("/repo/src", root + "/src", ignore=shutil.ignore_patterns("__pycache__", "*.egg-info"))
    try:
        for i in range(0, len(triples), 3):
            rel, old, new = triples[i:i + 3]
            p = os.path.join(root, "src", "torchphysics", rel)
            s = open(p).read()
            if old not in s:
                print(f"MUTANT-ERROR: text not found in {rel}: {old!r}")
                return 3
            open(p, "w").write(s.replace(old, new, 1))
        env = dict(os.environ, VERIF_SRC=root + "/src", VERIF_SCRATCH=os.environ.get("VERIF_SCRATCH", "mut%d" % os.getpid()))
        rc_all = {}
        if "--tests" in flags:
            shutil.copytree("/repo/tests", root + "/tests", ignore=shutil.ignore_patterns("__pycache__"))
            r = subprocess.run(["/venv/bin/python", "-m", "pytest", "-q", "-x", "-p", "no:cacheprovider",
                                "--timeout=900", "--continue-on-collection-errors", "tests"],
                               cwd=root, env=dict(env, PYTHONPATH=root + "/src"),
                               capture_output=True, text=True)
            print("TESTS:", r.stdout.strip().splitlines()[-1] if r.stdout.strip() else r.stderr[-300:])
        for prop in props:
            cmd = ["/venv/bin/python", os.path.join(HERE, "run_check.py"), prop, "--tier", "quick"]
            for f in flags:
                if f.startswith("--examples=") or f.startswith("--workers="):
                    cmd += f.split("=")
            r = subprocess.run(cmd, env=env, capture_output=True, text=True, cwd=HERE)
            lines = [l for l in r.stdout.splitlines() if not l.startswith("KNOWN-FINDING")]
            print("\n".join(lines[-4:]))
            if r.returncode == 2:
                print(r.stderr[-1500:])
            print(f"MUTANT {prop}: {'KILLED' if r.returncode == 1 else 'SURVIVED' if r.returncode == 0 else 'HARNESS-ERROR'}")
            rc_all[prop] = r.returncode
        # found replays of mutants are not kept
        return 0
    finally:
        shutil.rmtree(root, ignore_errors=True)


if __name__ == "__main__":
    sys.exit(main())
