"""C06 - boundary normals are finite outward unit vectors."""
import warnings

import numpy as np
import torch

from torchphysics.problem.spaces import Points

from vf import build, geo, refgeo as rg, specs

PROPERTY = "C06"
RULE = ("Hypothesis draws the boundary of a primitive (interval incl. its single end points, circle, "
        "parallelogram in both vertex orientations, counter-clockwise triangle, sphere, polygon with hole, "
        "convex mesh; slanted, shifted, parameter-dependent) or of a nested union / cut / intersection of "
        "primitives, with 0-5 parameter rows. Boundary points come from the library's own random and grid "
        "boundary samplers (grid samplers hit corners exactly). Per row: normal() is finite, has unit "
        "length (1e-4) and is outward w.r.t. the float64 reference set: x + h*n is not inside by more "
        "than h/10 and x - h*n is not outside by more than h/10 (h = 1e-3 * smallest feature). Rows within "
        "5h of a second leaf boundary (corners of Boolean results) are undecided; rows within 3h of a "
        "polygon vertex are only required to be finite, unit and 'leaving'. Non-trivial: not an "
        "axis-aligned counter-clockwise parameter-free leaf, and for Boolean cases at least one decided "
        "row on each operand's part; distinct = spec hash without rng.")
ASSUMPTIONS = ["reference geometry vf/refgeo.py", "triangles are generated counter-clockwise (documented precondition)",
               "transformed domains and products have no normal() and are not generated",
               "rows the reference cannot place on the boundary (C01's business) are not judged"]
BUDGET = {"quick": {"examples": 170, "workers": 4}, "thorough": {"examples": 2500, "workers": 14}}


def _flip_par(o, d1, d2):
    """parallelogram whose third corner moves through the line origin--corner_1 as p grows from 0 to 1:
    counter-clockwise corner order for p < 1/2, clockwise for p > 1/2 (or the reverse)."""
    C = specs.const
    return {"t": "par", "var": "x", "o": C(o), "c1": C([o[0] + d1[0], o[1] + d1[1]]),
            "c2": {"k": "affine", "var": "p", "v0": [round(o[0] + d2[0], 4), round(o[1] + d2[1], 4)],
                   "V1": [[round(-2 * d2[0], 4)], [round(-2 * d2[1], 4)]]}}


def _flip_case():
    import math
    from hypothesis import strategies as st

    @st.composite
    def s(draw):
        o = [draw(specs.num(-3, 3)), draw(specs.num(-3, 3))]
        al, l1, l2 = draw(specs.num(0, 6.283)), draw(specs.num(0.5, 3)), draw(specs.num(0.5, 3))
        be = draw(specs.num(0.6, 2.5))
        d1 = [l1 * math.cos(al), l1 * math.sin(al)]
        d2 = [l2 * math.cos(al + be), l2 * math.sin(al + be)]
        k = draw(st.sampled_from([2, 3, 4]))
        rows = [[draw(st.one_of(specs.num(0.0, 0.3), specs.num(0.7, 1.0)))] for _ in range(k)]
        return {"dom": {"E": {"t": "boundary", "a": _flip_par(o, d1, d2)}, "kind": "boundary", "pvars": ["p"], "lattice": False, "far": False},
                "prows": {"p": rows}, "n": draw(st.sampled_from([4, 8, 16])), "rng": draw(st.integers(0, 2 ** 31 - 1))}
    return s()


def strategy(tier):
    from hypothesis import strategies as st

    @st.composite
    def s(draw):
        if draw(st.integers(0, 11)) == 0:
            return draw(_flip_case())
        dc = draw(specs.domain_case(tier, kinds=("boundary",), dims=(1, 2, 2, 2, 2, 3),
                                    max_depth=3 if tier == "quick" else 4))
        E = dc["E"]
        # no transforms: Translate/Rotate objects have no normal()
        from hypothesis import assume
        assume(not rg.has(E, lambda n: n["t"] in ("translate", "rotate")))
        fv = rg.free_vars(E)
        names = set(fv) | (set(dc["pvars"]) if draw(st.integers(0, 3)) == 0 else set())
        prows = draw(specs.param_rows(names, ks=(1, 1, 2, 3, 5) if fv else (0, 0, 1, 2))) if names else {}
        assume(specs.ratio_ok_rows(E, prows))
        return {"dom": dc, "prows": prows, "n": draw(st.sampled_from([4, 8, 16, 33])),
                "rng": draw(st.integers(0, 2 ** 31 - 1))}
    return s()


def _min_angle(V):
    """smallest convex interior angle of polygons V (N,m,2) per row."""
    m = V.shape[1]
    best = np.full(V.shape[0], np.pi)
    for i in range(m):
        a = V[:, i - 1] - V[:, i]
        b = V[:, (i + 1) % m] - V[:, i]
        cosang = np.einsum("nd,nd->n", a, b) / (np.linalg.norm(a, axis=1) * np.linalg.norm(b, axis=1) + 1e-300)
        best = np.minimum(best, np.arccos(np.clip(cosang, -1, 1)))
    return best


def _seg_dist3(x, a, b):
    ab = b - a
    t = np.clip(((x - a) @ ab) / max(ab @ ab, 1e-300), 0, 1)
    return np.linalg.norm(x - (a + t[:, None] * ab), axis=1)


def _near_corner(I, env, h):
    """rows so close to a vertex (2-D polygons) or an edge (3-D meshes) that the inward step of a
    correct face normal leaves through the adjacent face: closer than h/tan(alpha) (+ margin),
    alpha = smallest interior / dihedral angle of that leaf."""
    N = rg.env_len(env)
    near = np.zeros(N, dtype=bool)
    for leaf in rg.leaves(I):
        x = env[leaf["var"]]
        if leaf["t"] in ("par", "tri", "poly"):
            if leaf["t"] == "poly":
                rings = [np.broadcast_to(np.asarray(r, float), (N,) + np.shape(r)) for r in rg._rings(leaf)]
            else:
                rings = [rg._leaf_polygon(leaf, env, N)]
            for V in rings:
                alpha = _min_angle(V)
                thr = 1.5 * h * (1.0 / np.tan(np.maximum(alpha, 1e-3)) + 1.0) + 2 * h
                d = np.min(np.linalg.norm(V - x[:, None, :], axis=2), axis=1)
                near |= d <= thr
        elif leaf["t"] == "mesh":
            Vt = np.asarray(leaf["verts"], float)
            nrm, _ = rg._mesh_planes(leaf)
            F = leaf["faces"]
            edges = {}
            for fi, f in enumerate(F):
                for a, b in ((f[0], f[1]), (f[1], f[2]), (f[2], f[0])):
                    edges.setdefault((min(a, b), max(a, b)), []).append(fi)
            for (a, b), fs in edges.items():
                if len(fs) != 2:
                    continue
                cosd = -float(nrm[fs[0]] @ nrm[fs[1]])          # cos of the interior dihedral angle
                alpha = np.arccos(np.clip(cosd, -1, 1))
                if alpha > np.pi - 1e-6:                           # coplanar faces: no real edge
                    continue
                thr = 1.5 * h * (1.0 / np.tan(max(alpha, 1e-3)) + 1.0) + 2 * h if alpha < np.pi / 2 else 3 * h
                near |= _seg_dist3(x, Vt[a], Vt[b]) <= thr
    return near


def run_case(spec, ctx):
    E, prows = spec["dom"]["E"], spec["prows"]
    k = geo.nrows(prows)
    penv = build.params_env(prows)
    I = geo._strip_boundary(E)
    classes = geo.case_classes(spec)
    top = geo.node_label(I)
    with ctx.lib("construct", feature=top):
        D = build.domain(E)
    var, dim = rg.space_vars(I)[0]
    feature_size = geo.min_feature(I, penv)
    h = 1e-3 * feature_size
    tol = geo.tolerances(E, penv)
    # (relative to the shape itself: a millimetre-sized shape next to the origin is well conditioned in float32)
    small = geo.scale_of(I, penv, 0.0) < 0.5
    if geo.condition_number(I, penv, 0.0 if small else 1.0) > 15:
        # float32 positions of a small shape far from the origin are not accurate to h
        ctx.event("skipped:ill-conditioned")
        return {"nontrivial": False, "classes": classes, "summary": {"skipped": "ill-conditioned"}}
    decided = undecided = 0
    per_leaf = {}
    D_orig = D
    modes = [("random", False), ("grid", False)]
    if k <= 1 and spec["rng"] % 2 == 0:
        # the boundary object evaluated with data (D(**values)): its normals are those of the original at these values
        modes.append(("random", True))
    for how, evaluated in modes:
        from vf import core as _core
        sub = _core.Ctx(ctx.prop, ctx.tier, ctx.seed, known=_core._NoKnown())
        D = D_orig
        rest = {}
        if evaluated:
            # with two or more free variables only the first one is fixed: the snapshot still depends on the others
            fixed = sorted(prows)[:1] if len(prows) >= 2 else sorted(prows)
            rest = {kk: v for kk, v in prows.items() if kk not in fixed}
            vals = {kk: torch.tensor(prows[kk][:1], dtype=torch.float32).reshape(1, -1) for kk in fixed} if k else \
                {"p": torch.tensor([[0.5]])}
            try:
                with warnings.catch_warnings():
                    warnings.simplefilter("ignore")
                    with sub.lib("evaluate"):
                        D = D_orig(**vals)
            except _core.CaseAborted:
                ctx.event("evaluation-failed(C17)")
                continue
            classes.append("evaluated-boundary" + ("-partial" if rest else ""))
        try:        # budgeted: a non-terminating / failing sampler is C01's business, not a hang here
            with warnings.catch_warnings():
                warnings.simplefilter("ignore")
                with sub.lib("sample"):
                    P, pen = geo.lib_sample(D, how, spec["n"], rest if evaluated else prows)
        except _core.CaseAborted:
            ctx.event("sampling-failed(C01):" + (sub.case_violations[0].signature.split("|")[0][:80] if sub.case_violations else "inconclusive"))
            continue
        if len(P) != spec["n"] * (1 if evaluated else max(k, 1)) or not torch.isfinite(P.as_tensor).all():
            ctx.event("sampling-rowcount(C02)")
            continue
        if evaluated:
            pen = {kk: np.repeat(np.asarray(v[:1], dtype=np.float32).astype(np.float64), len(P), axis=0) for kk, v in penv.items()} if k else {}
            # a sibling snapshot of the same parent at another value, made between sampling and normal()
            try:
                with warnings.catch_warnings():
                    warnings.simplefilter("ignore")
                    with sub.lib("evaluate(sibling)"):
                        D_orig(**{kk: 1.0 - v for kk, v in vals.items()})
            except _core.CaseAborted:
                pass
        env = build.points_env(P, pen)
        st = rg.status(E, env, tol["tol_b"])
        if evaluated:
            params_rep = build.params_points({kk: np.asarray(pen[kk]) for kk in rest}) if rest else Points.empty()
        else:
            params_rep = build.params_points({kk: np.asarray(v) for kk, v in pen.items()}) if k else Points.empty()
        with ctx.lib("normal" + ("(evaluated boundary)" if evaluated else ""), feature=top):
            with warnings.catch_warnings():
                warnings.simplefilter("ignore")
                nrm = D.normal(P, params_rep)
        if not isinstance(nrm, torch.Tensor) or tuple(nrm.shape) != (len(P), dim):
            ctx.violation("normal-shape", top, f"normal() returned shape {tuple(nrm.shape) if hasattr(nrm, 'shape') else type(nrm)} for {len(P)} points in dim {dim}")
            continue
        nv = nrm.detach().double().numpy()
        on = st != rg.OUT              # rows the reference does not place off the boundary
        fin = np.isfinite(nv).all(axis=1)
        if (on & ~fin).any():
            i = int(np.where(on & ~fin)[0][0])
            ctx.violation("normal-nonfinite", _leaf_at(I, env, i),
                          f"{(on & ~fin).sum()} of {on.sum()} {how} boundary points have a non-finite normal, e.g. at "
                          f"{np.round(env[var][i], 6).tolist()}")
            continue
        ln = np.linalg.norm(nv, axis=1)
        bad_len = on & (np.abs(ln - 1) > 1e-4)
        if bad_len.any():
            i = int(np.where(bad_len)[0][0])
            ctx.violation("normal-not-unit", _leaf_at(I, env, i), f"|n| = {ln[i]:.6f} at {np.round(env[var][i], 6).tolist()}")
            continue
        # outwardness
        dists = np.stack(rg.leaf_dists(I, env), axis=0)
        second = (dists <= 5 * h).sum(axis=0) >= 2
        near_vertex = _near_corner(I, env, h)
        ep = dict(env)
        ep[var] = env[var] + h * nv
        em = dict(env)
        em[var] = env[var] - h * nv
        sp = rg.status(I, ep, h / 10)
        sm = rg.status(I, em, h / 10)
        judge = on & ~second & (st == rg.IN)
        undecided += int((on & ~judge).sum())
        decided += int(judge.sum())
        # in Boolean results an operand can be subtracted, which swaps the roles of the two steps:
        # near a vertex neither step is required there
        leaves_bad = judge & (sp == rg.IN) & (~near_vertex if rg.depth(I) else True)
        enters_bad = judge & ~near_vertex & (sm == rg.OUT)
        for i in np.where(judge)[0]:
            lab = _leaf_at(I, env, int(i))
            per_leaf[lab] = per_leaf.get(lab, 0) + 1
        if leaves_bad.any() or enters_bad.any():
            badrows = leaves_bad | enters_bad
            i = int(np.where(badrows)[0][0])
            kind = "inward" if (leaves_bad[i] and (enters_bad[i] or near_vertex[i])) else \
                ("not-leaving" if leaves_bad[i] else "not-entering")
            ctx.violation("normal-" + kind, _leaf_at(I, env, i) + ("|" + top if rg.depth(I) else "") + ("|evaluated" if evaluated else ""),
                          f"{badrows.sum()} of {judge.sum()} decided {how} boundary rows: normal {np.round(nv[i], 4).tolist()} at "
                          f"{np.round(env[var][i], 6).tolist()} does not point out of the domain (h={h:.3g})")
    plain = geo.is_plain({"dom": {"E": I, "kind": "boundary"}, "prows": prows})
    nontrivial = (not plain) and decided > 0 and (rg.depth(I) == 0 or len(per_leaf) >= 2)
    return {"nontrivial": bool(nontrivial), "classes": classes,
            "summary": {"decided": decided, "undecided": undecided, "per_leaf": per_leaf, "h": h}}


def _leaf_at(I, env, i):
    """label of the leaf whose boundary row i lies on (nearest leaf boundary)."""
    e1 = {k: v[[i]] for k, v in env.items()}
    best, lab = np.inf, "?"
    for leaf in rg.leaves(I):
        d = rg.leaf_contains_bdist(leaf, e1)[1][0]
        if d < best:
            best, lab = d, geo.node_label(leaf)
    return lab


def extra_cases(tier, seed):
    """pinned: parallelograms whose corner order flips between the parameter rows of one batch; one-sided
    interval boundaries and boundaries of parameter-free shapes evaluated with data; a repeated polygon vertex."""
    C = specs.const
    out = []
    for j, rows in enumerate(([[0.1], [0.9]], [[0.9], [0.1]], [[0.2], [0.8], [0.05]])):
        out.append({"dom": {"E": {"t": "boundary", "a": _flip_par([0.5, -1.0], [2.0, 0.5], [-0.4, 1.5])}, "kind": "boundary",
                            "pvars": ["p"], "lattice": False, "far": False}, "prows": {"p": rows}, "n": 8, "rng": 2 * (seed + j) + 1})
    I1 = {"t": "interval", "var": "u", "lo": C([-0.7]), "hi": C([1.9])}
    I2 = {"t": "interval", "var": "u", "lo": C([0.5]), "hi": {"k": "affine", "var": "p", "v0": [1.0], "V1": [[2.0]]}}
    for j, (I, side, prows) in enumerate([(I1, "bright", {}), (I1, "bleft", {}), (I1, "boundary", {}), (I2, "boundary", {"p": [[0.4]]}),
                                          (I1, "bright", {"p": [[0.4]]})]):
        out.append({"dom": {"E": {"t": side, "a": I}, "kind": "boundary", "pvars": sorted(prows), "lattice": False, "far": False},
                    "prows": prows, "n": 4, "rng": 2 * (seed + j)})
    # millimetre-sized shapes next to the origin (area below 1e-5), both corner orders, straight and slanted
    for j, (o, c1, c2) in enumerate([([0.001, 0.0005], [0.001, 0.0035], [0.003, 0.0005]),        # clockwise
                                     ([0.001, 0.0005], [0.003, 0.0005], [0.001, 0.0035]),        # counter-clockwise
                                     ([-0.002, 0.001], [-0.001, 0.0035], [0.0005, 0.0]),         # clockwise, slanted
                                     ([0.0, 0.0], [0.002, 0.0005], [-0.0005, 0.003])]):
        for t_ in ("par", "tri"):
            if t_ == "tri" and j in (0, 2):
                c1, c2 = c2, c1
            out.append({"dom": {"E": {"t": "boundary", "a": {"t": t_, "var": "x", "o": {"k": "const", "v": o}, "c1": {"k": "const", "v": c1},
                                                             "c2": {"k": "const", "v": c2}}},
                                "kind": "boundary", "pvars": [], "lattice": False, "far": False}, "prows": {}, "n": 16, "rng": 2 * (seed + j) + 1})
    out.append({"dom": {"E": {"t": "boundary", "a": {"t": "circle", "var": "x", "c": C([0.001, -0.002]), "r": C([0.0015])}},
                        "kind": "boundary", "pvars": [], "lattice": False, "far": False}, "prows": {}, "n": 16, "rng": 2 * seed + 1})
    L = [[0, 0], [3, 0], [3, 1], [1, 1], [1, 3], [0, 3]]
    for j, dup in enumerate((0, 2, 5)):
        out.append({"dom": {"E": {"t": "boundary", "a": {"t": "poly", "var": "x", "verts": L, "hole": None, "dup": dup}}, "kind": "boundary",
                            "pvars": [], "lattice": True, "far": False}, "prows": {}, "n": 33, "rng": 2 * (seed + j) + 1})
    sq = [[-2, -2], [2, -2], [2, 2], [-2, 2]]
    out.append({"dom": {"E": {"t": "boundary", "a": {"t": "poly", "var": "x", "verts": sq, "hole": [[-1, -1], [-1, 1], [1, 1], [1, -1]], "dup": 1}},
                        "kind": "boundary", "pvars": [], "lattice": True, "far": False}, "prows": {}, "n": 33, "rng": 2 * seed + 1})
    return out
