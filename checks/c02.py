"""C02 - samplers return exactly n points per parameter row, paired in order; sampler algebra."""
import numpy as np
import torch
from hypothesis import strategies as st

from torchphysics.problem import samplers as S
from torchphysics.problem.spaces import Points

from vf import build, geo, refgeo as rg, sampling, specs

PROPERTY = "C02"
RULE = ("Two case kinds. (scenario) a generated domain expression x sampling path (domain methods and "
        "every point sampler, see C01) x n x k parameter rows (incl. unused extra parameter variables): "
        "row count == n*max(k,1) (also with filters), variables == domain variables U parameter "
        "variables, every parameter column == repeat_interleave(params, n) bitwise (density paths: each "
        "returned parameter row is an input row, in non-decreasing row order), len(sampler) == rows of a "
        "parameter-free call, static samplers repeat. (algebra) a generated sampler expression over "
        "deterministic and random base samplers (Grid / Data / ExponentialInterval / RandomUniform, "
        "factors that depend on a partner variable, external parameter rows) with *, +, append, "
        "make_static, nesting <= 3: the result must equal, bitwise, a reference assembled by the harness "
        "from single-parameter-row calls of fresh copies of the base samplers (product = for every row "
        "of B(P) a full sample of A at that row, sum = concatenation, append = column stack), len() == "
        "rows of a parameter-free call, repeated calls keep the bookkeeping. Non-trivial: k>=1 and n>=2, "
        "or a filter, or an algebra expression of depth >= 2 / with a data sampler inside a product / "
        "with a dependent factor; distinct = spec hash without rng.")
ASSUMPTIONS = ["row counts and parameter columns are compared bitwise",
               "algebra reference uses the library's own base samplers on single parameter rows (only composition is judged)",
               "random base samplers inside algebra are judged by count/pairing only",
               "domain-level grid/density sampling with at most one parameter row; ProductDomain grids not generated (NotImplemented by design)"]
BUDGET = {"quick": {"examples": 260, "workers": 4}, "thorough": {"examples": 2500, "workers": 14}}


# ------------------------------------------------------------------ algebra specs -----------
@st.composite
def _base(draw, names, partner=None):
    """a base sampler over one fresh variable name (removed from `names`)."""
    var = names.pop(0)
    kind = draw(st.sampled_from(["grid", "grid", "data", "expo", "random"]))
    n = draw(st.sampled_from([1, 2, 3, 4, 7]))
    lo = draw(specs.num(-2, 2))
    ln = draw(specs.num(0.5, 3))
    dep = None
    if partner is not None and kind in ("grid", "expo", "random") and draw(st.booleans()):
        dep = {"var": partner[0], "dim": partner[1], "coef": draw(specs.num(0.1, 1.0))}
    if kind == "data":
        dim = draw(st.sampled_from([1, 1, 2]))
        rows = [[draw(specs.num(-5, 5)) for _ in range(dim)] for _ in range(n)]
        return {"b": "data", "var": var, "dim": dim, "rows": rows}
    b = {"b": kind, "var": var, "dim": 1, "n": n, "lo": lo, "len": ln, "dep": dep}
    if kind == "grid" and dep is None and draw(st.integers(0, 2)) == 0:
        # axis-aligned square with a perfect-square n: the library's barycentric grid is then
        # complete (other n are topped up with random points and are not deterministic)
        b["dim"] = 2
        # dyadic side length: (n * side) / side is then exact in float32 (for 1.835 the library
        # computes 8.9999995, truncates the square root to 2 and tops the 2x2 grid up randomly)
        b["len"] = draw(st.sampled_from([0.5, 1.0, 1.5, 2.0, 2.5, 3.0]))
        b["len2"] = b["len"]
        b["n"] = draw(st.sampled_from([1, 4, 9]))
    if kind == "expo":
        b["expo"] = draw(st.sampled_from([0.5, 2.0]))
    return b


ROOT_DEPTH = [3]


@st.composite
def _sexpr(draw, names, depth, partner=None):
    if depth <= 0 or len(names) < 6 or draw(st.integers(0, 9)) < 3:
        return draw(_base(names, partner))
    ops = ["mul", "mul", "add", "static"] + (["append"] if partner is None and depth == ROOT_DEPTH[0] else [])
    op = draw(st.sampled_from(ops))
    if op == "static":
        return {"op": "static", "a": draw(_sexpr(names, depth - 1, partner))}
    if op == "mul":
        b = draw(_sexpr(names, depth - 1, partner))
        # the first factor may depend on a variable the second factor produces
        vb = _vars(b)
        a = draw(_sexpr(names, depth - 1, (vb[0][0], vb[0][1]) if vb else partner))
        return {"op": "mul", "a": a, "b": b}
    if op == "add":
        # both operands must produce the same variables: duplicate the structure of `a`
        a = draw(_sexpr(names, depth - 1, partner))
        b = _refresh(a, draw(st.integers(1, 3)))
        return {"op": "add", "a": a, "b": b}
    a = draw(_base(names, partner))
    b = draw(_base(names, partner))
    # append needs equally long samples
    if a["b"] == "data":
        b["n"] = len(a["rows"])
        if b["b"] == "data":
            b["rows"] = (b["rows"] * len(a["rows"]))[:len(a["rows"])]
    elif b["b"] == "data":
        a["n"] = len(b["rows"])
    else:
        b["n"] = a["n"]
    if a.get("dim") == 2 or b.get("dim") == 2:
        # rectangle grids need not have exactly n regular points: keep append on 1-D/data factors
        for f in (a, b):
            if f["b"] == "grid":
                f["dim"] = 1
    return {"op": "append", "a": a, "b": b}


def _refresh(e, shift):
    """same structure and variables, other numbers (for sums)."""
    if "b" in e and isinstance(e["b"], str):
        f = dict(e)
        if f["b"] == "data":
            f["rows"] = [[v + shift for v in r] for r in f["rows"]]
        else:
            f["lo"] = f["lo"] + shift
        return f
    return {k: (_refresh(v, shift) if isinstance(v, dict) else v) for k, v in e.items()}


def _vars(e):
    if "op" not in e:
        return [(e["var"], e["dim"])]
    out = []
    for key in ("a", "b"):
        if key in e and isinstance(e[key], dict):
            for v in _vars(e[key]):
                if v not in out:
                    out.append(v)
    return out


def _depth(e):
    if "op" not in e:
        return 0
    return 1 + max(_depth(e[k]) for k in ("a", "b") if k in e and isinstance(e[k], dict))


@st.composite
def _algebra_case(draw, tier):
    names = ["a", "b", "c", "d", "e", "f", "g", "h", "i", "j", "k", "l", "m", "n", "o", "r", "s"]
    ext = draw(st.sampled_from([0, 0, 1, 2, 3]))
    partner = ("p", 1) if ext and draw(st.booleans()) else None
    ROOT_DEPTH[0] = 3 if tier == "quick" else 4
    if ext:
        ROOT_DEPTH[0] = -1       # AppendSampler joins both samples: it cannot carry parameter columns twice
    e = draw(_sexpr(names, 3 if tier == "quick" else 4, partner))
    prows = {"p": [[draw(specs.num(0, 1))] for _ in range(ext)]} if ext else {}
    return {"case": "algebra", "expr": e, "prows": prows, "calls": draw(st.integers(1, 3)),
            "rng": draw(st.integers(0, 2 ** 31 - 1))}


def strategy(tier):
    scen = sampling.scenario_strategy(tier).map(lambda c: dict(c, case="scenario"))
    return geo.weighted((4, scen), (2, _algebra_case(tier)), (1, _data_case()))


# ------------------------------------------------------------------ algebra execution ------
def _base_sampler(b):
    from torchphysics.problem import domains as D
    if b["b"] == "data":
        return S.DataSampler({b["var"]: torch.tensor(b["rows"], dtype=torch.float32)})
    sp = build.space_of(b["var"], b["dim"])
    if b["dim"] == 2:
        dom = D.Parallelogram(sp, [b["lo"], b["lo"]], [b["lo"] + b["len"], b["lo"]], [b["lo"], b["lo"] + b["len2"]])
    else:
        lo, hi = b["lo"], b["lo"] + b["len"]
        if b.get("dep"):
            coef, pv = b["dep"]["coef"], b["dep"]["var"]
            ns = {"hi": hi, "coef": coef}
            exec(f"def up({pv}):\n    return hi + coef * {pv}[:, :1]\n", ns)
            dom = D.Interval(sp, lo, ns["up"])
        else:
            dom = D.Interval(sp, lo, hi)
    if b["b"] == "grid":
        return S.GridSampler(dom, n_points=b["n"])
    if b["b"] == "expo":
        return S.ExponentialIntervalSampler(dom, b["n"], b["expo"])
    return S.RandomUniformSampler(dom, n_points=b["n"])


def _build(e):
    if "op" not in e:
        return _base_sampler(e)
    if e["op"] == "static":
        return _build(e["a"]).make_static()
    a, b = _build(e["a"]), _build(e["b"])
    return {"mul": lambda: a * b, "add": lambda: a + b, "append": lambda: a.append(b)}[e["op"]]()


def _has_random(e):
    if "op" not in e:
        return e["b"] == "random"
    return any(_has_random(e[k]) for k in ("a", "b") if k in e and isinstance(e[k], dict))


def _ref(e, Q):
    """reference result assembled from single-row calls of fresh base samplers."""
    if "op" not in e:
        if len(Q) == 0:
            return _base_sampler(e).sample_points()
        parts = [_base_sampler(e).sample_points(Q[i, ]) for i in range(len(Q))]
        parts = [p_ for p_ in parts if not p_.isempty]
        if not parts:
            return Points.empty()
        # one concatenation (row by row `|` is quadratic in the number of rows)
        assert all(p_.space == parts[0].space for p_ in parts)
        return Points(torch.cat([p_._t for p_ in parts], dim=0), parts[0].space)
    if e["op"] == "static":
        return _ref(e["a"], Q)
    if e["op"] == "mul":
        return _ref(e["a"], _ref(e["b"], Q))
    if e["op"] == "add":
        return _ref(e["a"], Q) | _ref(e["b"], Q)
    return _ref(e["a"], Q).join(_ref(e["b"], Q))


def _expected_len(e):
    if "op" not in e:
        return len(e["rows"]) if e["b"] == "data" else e["n"]
    if e["op"] == "static":
        return _expected_len(e["a"])
    if e["op"] == "mul":
        return _expected_len(e["a"]) * _expected_len(e["b"])
    if e["op"] == "add":
        return _expected_len(e["a"]) + _expected_len(e["b"])
    return _expected_len(e["a"])


def _same_points(R, X):
    """bitwise equality of two Points irrespective of variable order."""
    if set(R.space.keys()) != set(X.space.keys()) or len(R) != len(X):
        return False
    rc, xc = R.coordinates, X.coordinates
    return all(rc[v].shape == xc[v].shape and torch.equal(rc[v], xc[v]) for v in rc)


def _feature(e):
    f = []
    for n in _walk(e):
        if "op" in n:
            f.append(n["op"])
        else:
            f.append(n["b"] + ("-dep" if n.get("dep") else ""))
    order = ["mul", "add", "append", "static", "data", "grid", "grid-dep", "expo", "expo-dep", "random", "random-dep"]
    return "+".join(x for x in order if x in f)


def _walk(e):
    yield e
    for k in ("a", "b"):
        if k in e and isinstance(e[k], dict):
            yield from _walk(e[k])


def _run_algebra(spec, ctx):
    e, prows = spec["expr"], spec["prows"]
    k = geo.nrows(prows)
    full = _feature(e)
    # signature feature: the top-level operation only (one root cause -> one signature); the full
    # list of ingredients goes into the detail text
    feat = e.get("op", e.get("b", "?"))
    ext = "|ext" if k else ""
    params = build.params_points(prows)
    with ctx.lib("construct", feature=feat):
        smp = _build(e)
    exp_len = _expected_len(e)
    # len() before any call
    with ctx.lib("len", feature=feat):
        l0 = len(smp)
    if l0 != exp_len:
        ctx.violation("len", feat + "|before-call", f"len(sampler)={l0}, a parameter-free call returns {exp_len} rows")
    rnd = _has_random(e)
    if exp_len * max(len(params), 1) > 3000:
        # the reference makes one library call per (base sampler, parameter row) with a fresh sampler object: bounded
        # by generated size (minutes per case otherwise); the length facts above were still checked
        ctx.event("algebra-reference-skipped:more-than-3000-rows")
        return {"nontrivial": False, "classes": ["algebra", "alg-too-large"], "summary": {"rows": int(exp_len * max(len(params), 1))}}
    torch.manual_seed(spec["rng"])
    # the reference makes one library call per (base sampler, parameter row): give the block a
    # budget proportional to that number instead of the single-call budget
    with ctx.lib("reference", feature=feat + "|single-factor-calls", budget_calls=400000):
        X = _ref(e, params)
    first = None
    for call in range(spec["calls"]):
        torch.manual_seed(spec["rng"])
        with ctx.lib("sample_points", feature=feat + ext):
            R = smp.sample_points(params)
        if not isinstance(R, Points):
            ctx.violation("return-type", feat, f"returned {type(R).__name__}")
            return None
        if len(R) != len(X):
            ctx.violation("rowcount", feat + ext, f"call {call}: {len(R)} rows, reference composition has {len(X)} "
                          f"(expected {exp_len} per parameter row, k={k})")
            return None
        if set(R.space.keys()) != set(X.space.keys()):
            ctx.violation("variables", feat + ext, f"variables {sorted(R.space.keys())} vs reference {sorted(X.space.keys())}")
            return None
        if not rnd:
            if not _same_points(R, X):
                bad = [v for v in R.space.keys() if not torch.equal(R.coordinates[v], X.coordinates[v])]
                ctx.violation("composition", feat + ext, f"call {call}: result differs from the composition of "
                              f"single-factor calls in variables {bad} (expression: {full})")
        else:
            # deterministic columns (everything not produced by a random base) must still agree
            # (a factor that depends on a partner variable is only as deterministic as that partner)
            det = [n["var"] for n in _walk(e) if "op" not in n and n["b"] != "random" and not n.get("dep")] + list(prows)
            bad = [v for v in det if v in R.space.keys() and not torch.equal(R.coordinates[v], X.coordinates[v])]
            if bad:
                ctx.violation("composition", feat + ext + "|random", f"deterministic columns {bad} differ from the reference pairing")
        if first is None:
            first = R
    # len() after the calls: rows of a parameter-free call
    with ctx.lib("len", feature=feat):
        l1 = len(smp)
    # after a call WITH parameters the docs ("the number of points the sampler will create or has
    # created") allow len() to report the rows of that call: judged only for parameter-free histories
    if l1 != exp_len and not k:
        ctx.violation("len", feat + ("|after-call-with-params" if k else "|after-call"),
                      f"len(sampler)={l1} after {spec['calls']} call(s) with k={k} parameter rows; a parameter-free call returns {exp_len} rows")
    d = _depth(e)
    nontrivial = d >= 2 or any(n.get("dep") for n in _walk(e) if "op" not in n) or \
        (d >= 1 and any("op" not in n and n["b"] == "data" for n in _walk(e)) and "mul" in full)
    return {"nontrivial": bool(nontrivial), "classes": ["algebra", "alg-depth%d" % d, "alg-k%d" % min(k, 2)] + full.split("+"),
            "summary": {"rows": len(X), "expected_len": exp_len, "k": k}}


# ------------------------------------------------------------------ scenario oracles -------
def _run_scenario(spec, ctx):
    E, prows, path, n = spec["dom"]["E"], spec["prows"], spec["path"], spec["n"]
    k = geo.nrows(prows)
    classes = geo.case_classes(spec) + ["path:" + path]
    sub = core_sub(ctx)
    from vf.core import CaseAborted
    try:
        out = sampling.run_scenario(spec, sub)
    except CaseAborted:
        out = None
    if out is None or sub.case_violations:
        # crashes / non-termination of the plain sampling call are judged by C01
        ctx.event("sampling-call-failed(C01)")
        return {"nontrivial": False, "classes": classes,
                "summary": {"failed": sub.case_violations[0].signature if sub.case_violations else "?"}}
    if out.skipped:
        ctx.event("skipped:" + out.skipped)
        return {"nontrivial": False, "classes": classes, "summary": {"skipped": out.skipped}}
    tag = out.tag
    dvars = [v for v, _ in rg.space_vars(geo._strip_boundary(E))]
    params = build.params_points(prows)
    for c in out.calls:
        P = c["points"]
        rows = len(P)
        have = set(P.space.keys())
        want = set(dvars) | (set(prows.keys()) if c["param_cols"] else set())
        if have != want:
            ctx.violation("variables", tag, f"{c['kind']}: variables {sorted(have)}, expected {sorted(want)}")
            continue
        if c["n"] is not None:
            exp = c["n"] * max(k, 1)
            if rows != exp:
                ctx.violation("rowcount", tag, f"{c['kind']}: {rows} rows for n={c['n']}, k={k} (expected {exp})")
                continue
        if c["param_cols"] and k and len(c.get("param_hist") or []) > 1:
            # adaptive sampler called with parameter rows that changed between the calls: row j belongs to
            # block j // n and carries that block's parameter row of this call or (a kept point) of an earlier one
            pc = P.coordinates
            n_ = c["n"] if c["n"] is not None else None
            if n_ is not None:
                for j in range(rows):
                    i = j // n_
                    if not any(all(torch.allclose(pc[v][j].double(), torch.tensor(h[v][i], dtype=torch.float64), atol=1e-6, rtol=0)
                                   for v in prows) for h in c["param_hist"]):
                        ctx.violation("pairing", tag + "|history", f"{c['kind']}: row {j} carries none of the parameter rows given for block {i}")
                        break
            continue
        if c["param_cols"] and k:
            pc = P.coordinates
            for v in prows:
                col = pc[v]
                src = params.coordinates[v]
                if c["n"] is not None:
                    if not torch.equal(col, torch.repeat_interleave(src, c["n"], dim=0)):
                        ctx.violation("pairing", tag, f"{c['kind']}: column '{v}' is not repeat_interleave(params, n)")
                        break
                else:
                    # density: every returned row is an input row, rows in non-decreasing order
                    idx = []
                    ok = True
                    for r in col:
                        hit = [i for i in range(k) if torch.equal(r, src[i])]
                        if not hit:
                            ok = False
                            break
                        idx.append(hit[0] if not idx or hit[0] >= idx[-1] or len(hit) == 1 else max(h for h in hit))
                    if not ok or any(b < a for a, b in zip(idx, idx[1:])):
                        ctx.violation("pairing", tag + "|density", f"{c['kind']}: parameter column '{v}' is not the input rows in order")
                        break
    smp = getattr(out, "sampler", None)
    if smp is not None and not path.startswith("adaptive") and "-d" not in path and k == 0 and out.calls:
        with ctx.lib("len", feature=tag):
            ln = len(smp)
        if ln != len(out.calls[0]["points"]):
            ctx.violation("len", tag, f"len(sampler)={ln} but the parameter-free call returned {len(out.calls[0]['points'])} rows")
    if path.startswith("static") and len(out.calls) == 2:
        if not _same_points(out.calls[0]["points"], out.calls[1]["points"]):
            ctx.violation("static-repeat", tag, "second call of a static sampler returned other points")
    nontrivial = (k >= 1 and n >= 2) or "filter" in path
    return {"nontrivial": bool(nontrivial and not geo.is_plain(spec) or "filter" in path), "classes": classes,
            "summary": {"calls": len(out.calls), "rows": [len(c["points"]) for c in out.calls], "k": k, "n": n}}


def core_sub(ctx):
    """a private collector for the plain sampling call (its crashes are C01's business)."""
    from vf import core
    sub = core.Ctx(ctx.prop, ctx.tier, ctx.seed, known=core._NoKnown())
    return sub


# ------------------------------------------------------------------ data with extra axes ---
@st.composite
def _data_case(draw):
    """DataSampler whose data rows carry additional axes ((N, Q, d), e.g. Q quadrature points per row)."""
    N, Q, d = draw(st.integers(1, 5)), draw(st.integers(1, 4)), draw(st.integers(1, 3))
    k = draw(st.integers(0, 3))
    return {"case": "data-axes", "N": N, "Q": Q, "d": d, "as_dict": draw(st.booleans()), "calls": draw(st.integers(1, 2)),
            "prows": {"p": [[draw(specs.num(0, 1))] for _ in range(k)]} if k else {}}


def _run_data(spec, ctx):
    import contextlib
    import io
    N, Q, d, prows = spec["N"], spec["Q"], spec["d"], spec["prows"]
    k = geo.nrows(prows)
    data = (torch.arange(N * Q * d, dtype=torch.float32).reshape(N, Q, d) * 0.25 - 1.0)
    sp = build.space_of("x", d)
    feat = "data-axes" if Q > 1 else "data-axes|Q1"
    with ctx.lib("construct", feature=feat):
        smp = S.DataSampler({"x": data.clone()}) if spec["as_dict"] else S.DataSampler(Points(data.clone(), sp))
    with ctx.lib("len", feature=feat):
        l0 = len(smp)
    if l0 != N:
        ctx.violation("len", feat + "|before-call", f"len(sampler)={l0} for data of shape {tuple(data.shape)}: a parameter-free call returns {N} rows")
    params = build.params_points(prows)
    for call in range(spec["calls"]):
        for with_params in ([False, True] if k else [False]):
            with ctx.lib("sample_points", feature=feat + ("|ext" if with_params else "")), contextlib.redirect_stdout(io.StringIO()):
                R = smp.sample_points(params) if with_params else smp.sample_points()
            if not isinstance(R, Points):
                ctx.violation("return-type", feat, f"returned {type(R).__name__}")
                return None
            t = R.as_tensor
            kk = k if with_params else 1
            if t.shape[0] != N * kk:
                ctx.violation("rowcount", feat + ("|ext" if with_params else ""), f"{t.shape[0]} rows for {N} data rows and k={k if with_params else 0}")
                return None
            co = R.coordinates
            x = co["x"]
            if tuple(x.shape) != (N * kk, Q, d) or not torch.equal(x, data.repeat(kk, 1, 1)):
                ctx.violation("composition", feat, f"call {call}: the data block is not repeated completely per parameter row (shape {tuple(x.shape)})")
                return None
            if with_params:
                pcol = co["p"]
                want = torch.repeat_interleave(params.as_tensor, N, dim=0)
                got = pcol.reshape(N * k, -1)
                if got.shape[0] != N * k or not all(torch.equal(got[:, j:j + 1], want) for j in range(got.shape[1])):
                    ctx.violation("pairing", feat, f"call {call}: rows i*N..(i+1)*N-1 do not carry parameter row i")
                    return None
    if k:
        # the same pairing through a sampler product (the parameter rows come from a second data sampler)
        with ctx.lib("construct", feature=feat + "|mul"):
            prod = (S.DataSampler({"x": data.clone()})) * S.DataSampler({"p": params.as_tensor.clone()})
        with ctx.lib("sample_points", feature=feat + "|mul"), contextlib.redirect_stdout(io.StringIO()):
            R = prod.sample_points()
        t = R.as_tensor
        if t.shape[0] != N * k:
            ctx.violation("rowcount", feat + "|mul", f"product with a {k}-row sampler returns {t.shape[0]} rows, not {N * k}")
        elif not torch.equal(R.coordinates["x"], data.repeat(k, 1, 1)):
            ctx.violation("composition", feat + "|mul", "product does not pair every partner row with the complete data")
    with ctx.lib("len", feature=feat):
        l1 = len(smp)
    if l1 != N and not k:
        ctx.violation("len", feat + "|after-call", f"len(sampler)={l1}, a parameter-free call returns {N} rows")
    return {"nontrivial": bool(Q > 1 and k >= 1), "classes": ["data-axes", "Q%d" % min(Q, 2), "alg-k%d" % min(k, 2)],
            "summary": {"N": N, "Q": Q, "d": d, "k": k}}


def run_case(spec, ctx):
    if spec.get("case") == "algebra":
        return _run_algebra(spec, ctx)
    if spec.get("case") == "data-axes":
        return _run_data(spec, ctx)
    return _run_scenario(spec, ctx)


def extra_cases(tier, seed):
    pinned = [{"case": "data-axes", "N": N, "Q": Q, "d": 2, "as_dict": ad, "calls": 2, "prows": {"p": [[0.25], [0.75]][:k]} if k else {}}
              for N, Q, k, ad in ((3, 2, 2, False), (2, 3, 1, True), (4, 2, 0, False), (1, 4, 2, True))]
    return [dict(c, case="scenario") for c in sampling.pinned_scenarios(seed)] + pinned
