"""C17 - partially evaluating a domain is the same as supplying the parameters."""
import warnings

import numpy as np
import torch
from hypothesis import assume
from hypothesis import strategies as st

from torchphysics.problem.spaces import Points

from vf import build, core, geo, refgeo as rg, specs

PROPERTY = "C17"
RULE = ("Hypothesis draws a parameter-dependent domain expression (all node kinds: leaves with affine / "
        "sinusoidal dependence on p (R1) and q (R2), nested + - &, Translate, Rotate with moving centre, "
        "independent and dependent products, boundaries incl. boundary_left/right), 1-3 parameter rows, a "
        "subset S of the free variables to fix (values = (1,d) tensors, optionally with an unrelated extra "
        "name, optionally in two stages D(S1)(S2)). Commuting diagram on generated query points: "
        "_contains, volume, bounding_box, grid samples of D(**vals) with the remaining parameters equal "
        "those of D with all parameters (membership on rows farther than tol from every leaf boundary, "
        "numbers 1e-5); random samples of D(**vals) lie in the reference set at vals; D itself is unchanged "
        "(same necessary_variables, same answers afterwards); necessary_variables == free variables of the "
        "spec minus the fixed ones, before and after evaluation. Non-trivial: nesting >= 1 or a boundary, "
        "and >= 1 variable left free or a two-stage evaluation; distinct = spec hash without rng.")
ASSUMPTIONS = ["values are supplied as (1,d) float tensors (what PlotSampler passes)",
               "fixing a product's own (bound) variables is not generated",
               "grid samples are compared only when both calls return the same number of rows and the grid is complete (random top-up rows differ by design)",
               "reference geometry vf/refgeo.py decides which query rows are far enough from the boundary"]
BUDGET = {"quick": {"examples": 150, "workers": 4}, "thorough": {"examples": 2500, "workers": 14}}


def strategy(tier):
    @st.composite
    def s(draw):
        dc = draw(specs.domain_case(tier, kinds=("interior", "interior", "boundary", "boundary", "product",
                                                 "depproduct", "bproduct"), pdep=0.8, pydef=True,
                                      pvar_choices=(["p", "q"], ["p", "q"], ["p", "q"], ["p"], ["q"])))
        E = dc["E"]
        fv = sorted(rg.free_vars(E))
        assume(len(fv) >= 1)
        k = draw(st.sampled_from([1, 1, 2, 3]))
        prows = {n: [[draw(specs.num(0, 1)) for _ in range(specs.PVARS[n])] for _ in range(k)] for n in fv}
        assume(specs.ratio_ok_rows(E, prows))
        nfix = draw(st.integers(1, len(fv))) if len(fv) == 1 or draw(st.integers(0, 3)) == 0 else \
            draw(st.integers(1, len(fv) - 1))
        S = draw(st.permutations(fv))[:nfix]
        two = len(S) >= 2 and draw(st.booleans())
        # f(a, b=default): once a is fixed while b is not, the function is complete and is evaluated with the
        # default (UserFunction semantics, C13) - supplying b later cannot matter. Only histories in which b is
        # fixed together with (or instead of) a are comparable with the all-parameters evaluation.
        pd = [P for n in rg.walk(E) for P in rg.own_params(n) if P.get("pydef")]
        assume(all(P["var"] not in S or P["var2"] in S for P in pd))
        if pd:
            two = False
        return {"dom": dc, "prows": prows, "fix": sorted(S), "two_stage": two,
                "extra_name": draw(st.integers(0, 3)) == 0, "n": draw(st.sampled_from([1, 4, 9, 16])),
                "rng": draw(st.integers(0, 2 ** 31 - 1))}
    return s()


def _vol(D, params):
    with warnings.catch_warnings():
        warnings.simplefilter("ignore")
        return D.volume(params).detach().double().reshape(-1).numpy()


def _box(D, params):
    with warnings.catch_warnings():
        warnings.simplefilter("ignore")
        b = D.bounding_box(params)
    return torch.as_tensor(b).detach().double().reshape(-1).numpy()


def run_case(spec, ctx):
    E, prows, S = spec["dom"]["E"], spec["prows"], spec["fix"]
    k = geo.nrows(prows)
    gen = np.random.default_rng(spec["rng"])
    I = geo._strip_boundary(E)
    classes = geo.case_classes(spec) + [f"fix{len(S)}", "two-stage" if spec["two_stage"] else "one-stage"]
    top = ("boundary:" if rg.is_boundary(E) else "") + geo.node_label(I)
    fv = rg.free_vars(E)
    # boundary_left/right whose own bound depends on a variable that gets fixed: known finding D25
    def _sbp(n):
        if n["t"] not in ("bleft", "bright"):
            return False
        P = n["a"]["lo"] if n["t"] == "bleft" else n["a"]["hi"]
        return bool(rg.pvars(P) & set(S))
    if rg.has(E, _sbp):
        top += "+sbp-dep"
    if rg.has(E, rg.is_boundary):
        try:      # operand boundaries that touch along a shared piece / end point: known finding D21
            pe_t = build.params_env({n: prows[n][:1] for n in prows})
            if geo.touching(E, pe_t, 1e-4 * geo.scale_of(E, pe_t)):
                top += "+touching"
        except Exception:      # noqa: BLE001 - classification only
            pass
    R = sorted(fv - set(S))
    # all-parameter rows: fixed variables take their row-0 value in every row
    prows_all = {n: ([prows[n][0]] * k if n in S else prows[n]) for n in prows}
    prows_R = {n: prows[n] for n in R}
    vals = {n: torch.tensor([prows[n][0]], dtype=torch.float32).reshape(1, -1) for n in S}
    if spec["extra_name"]:
        vals_call = dict(vals, zz=torch.tensor([[0.25]]))
    else:
        vals_call = dict(vals)
    with ctx.lib("construct", feature=top):
        D = build.domain(E)
    # ---- declared variables before evaluation
    nv0 = set(D.necessary_variables) if D.necessary_variables is not None else None
    req = rg.required_vars(E)        # variables that only enter through arguments with a Python default are optional
    if nv0 != set(req):
        ctx.violation("necessary-variables", top, f"declared {sorted(nv0) if nv0 is not None else None}, free variables of the expression are {sorted(req)}")
    with ctx.lib("partial-evaluation", feature=top):
        if spec["two_stage"]:
            half = len(S) // 2
            D1 = D(**{n: vals_call[n] for n in S[:half]})
            D1 = D1(**{n: v for n, v in vals_call.items() if n not in S[:half]})
        else:
            D1 = D(**vals_call)
    nv1 = set(D1.necessary_variables) if D1.necessary_variables is not None else None
    if nv1 != set(req) - set(S):
        ctx.violation("necessary-variables", top + "|after-evaluation",
                      f"after fixing {S}: declared {sorted(nv1) if nv1 is not None else None}, expected {sorted(set(req) - set(S))}")
    if set(D.necessary_variables or ()) != (nv0 or set()):
        ctx.violation("original-changed", top, "necessary_variables of the original domain changed")
    params_all = build.params_points(prows_all)
    params_R = build.params_points(prows_R) if R else Points.empty()
    penv_all = build.params_env(prows_all)
    tol = geo.tolerances(E, penv_all)
    # ---- membership on query rows (points + parameter rows)
    NQ = 96
    ridx = np.arange(NQ) % k
    env = geo.uniform_queries(E, penv_all, ridx, gen)
    near = geo.near_boundary_queries(E, env, gen, tol["tol_in"], factors=(2.0, 50.0)) if not rg.has(E, rg.is_boundary) else None
    if near is not None:
        env = {kk: np.concatenate([env[kk], near[kk]]) for kk in env}
    env = geo.env32(env)
    N = rg.env_len(env)
    dom_vars = list(D.space.keys())
    pt, pr_all = geo.split_env(D, env)
    envR = {kk: v for kk, v in env.items() if kk in dom_vars or kk in R}
    pt1, pr_R = geo.split_env(D1, envR)
    with ctx.lib("_contains(original, all parameters)", feature=top):
        a0 = D._contains(pt, pr_all)
    with ctx.lib("_contains(evaluated, remaining parameters)", feature=top + "|after-evaluation"):
        a1 = D1._contains(pt1, pr_R)
    ok0, v0 = geo.as_bool_rows(a0, N)
    ok1, v1 = geo.as_bool_rows(a1, N)
    decided_n = 0
    if not ok1 or not ok0:
        ctx.violation("answer-shape", top + "|after-evaluation", "membership answer of the evaluated domain is malformed")
    else:
        if rg.has(E, rg.is_boundary):
            st_ = rg.status(E, env, tol["tol_b"])
            decided = st_ == rg.OUT          # far rows must agree (both reject); near rows are rounding
            decided |= (st_ == rg.IN) & (rg.status(E, env, 0.1 * tol["tol_b"]) == rg.IN)
        else:
            decided = rg.status(E, env, tol["tol_in"]) != rg.UNDECIDED
        decided_n = int(decided.sum())
        bad = decided & (v0 != v1)
        if bad.any():
            i = int(np.where(bad)[0][0])
            ctx.violation("membership-differs", top,
                          f"{bad.sum()} of {decided.sum()} decided rows: D(**vals)._contains = {bool(v1[i])} but "
                          f"D._contains with parameters = {bool(v0[i])} at { {kk: np.round(v[i], 5).tolist() for kk, v in env.items()} }")
    # ---- volume
    dep_product = spec["dom"]["kind"] == "depproduct"
    try:
        if dep_product:           # the dependent product's volume is a 10-sample random estimate
            raise core.CaseAborted()
        with ctx.lib("volume", feature=top):
            vol0 = _vol(D, params_all)
            vol1 = _vol(D1, params_R)
        if not dep_product:
            a = np.broadcast_to(vol0, (max(len(vol0), len(vol1)),)) if len(vol0) in (1, len(vol1)) else vol0
            b = np.broadcast_to(vol1, a.shape) if len(vol1) in (1, len(a)) else vol1
            if a.shape != b.shape or not np.allclose(a, b, rtol=1e-5, atol=1e-6):
                ctx.violation("volume-differs", top, f"volume after evaluation {np.round(vol1, 6).tolist()} vs with parameters {np.round(vol0, 6).tolist()}")
    except core.CaseAborted:
        pass
    # ---- bounding box (single row)
    if k == 1 and spec["dom"]["kind"] != "depproduct":
        try:
            with ctx.lib("bounding_box", feature=top + "|after-evaluation"):
                b0 = _box(D, params_all)
                b1 = _box(D1, params_R)
            if b0.shape != b1.shape or not np.allclose(b0, b1, rtol=1e-5, atol=1e-5 * tol["scale"]):
                ctx.violation("box-differs", top, f"bounding box after evaluation {np.round(b1, 5).tolist()} vs with parameters {np.round(b0, 5).tolist()}")
        except core.CaseAborted:
            pass
    # ---- sampling of the evaluated domain
    is_prod = rg.has(E, lambda n: n["t"] == "product")
    if k == 1:
        try:
            with ctx.lib("sample_random_uniform(evaluated)", feature=top + "|after-evaluation"):
                with warnings.catch_warnings():
                    warnings.simplefilter("ignore")
                    P1 = D1.sample_random_uniform(n=spec["n"], params=params_R)
            if len(P1) == spec["n"]:
                e1 = build.points_env(P1, geo.repeat_env(penv_all, len(P1)))
                st1 = rg.status(E, e1, tol["tol_b"] if rg.has(E, rg.is_boundary) else tol["tol_in"])
                if (st1 == rg.OUT).any():
                    i = int(np.where(st1 == rg.OUT)[0][0])
                    # rows on a piece shared by two operand boundaries are the contact-set defect D21 (present
                    # without any evaluation as well): named after the operation joining the operands
                    contact = []
                    for i2 in np.where(st1 == rg.OUT)[0][:20]:
                        try:
                            contact.append(geo.contact_op(E, {kk: v[[i2]] for kk, v in e1.items()}, tol["tol_b"]))
                        except Exception:      # noqa: BLE001 - classification only
                            contact.append(None)
                    suffix = ("+touching:" + contact[0].split("+")[0]) if contact and all(contact) and rg.has(E, rg.is_boundary) else ""
                    ctx.violation("sample-outside", top + "|after-evaluation" + suffix,
                                  f"random sample of D(**vals) at {np.round(P1.as_tensor[i].numpy(), 5).tolist()} is not in the set denoted at vals")
            else:
                ctx.event("rowcount(C02)")
            boolean = rg.has(E, lambda n: n["t"] in rg.BOOL)
            if not is_prod and not boolean:       # Boolean grids are topped up with random points
                with ctx.lib("sample_grid", feature=top + "|after-evaluation"):
                    with warnings.catch_warnings():
                        warnings.simplefilter("ignore")
                        core.seed_library(spec["rng"])
                        G0 = D.sample_grid(n=spec["n"], params=params_all)
                        core.seed_library(spec["rng"])
                        G1 = D1.sample_grid(n=spec["n"], params=params_R)
                if len(G0) == len(G1) and len(G0) > 0:
                    x0 = G0[:, dom_vars].as_tensor.double().numpy()
                    x1 = G1[:, dom_vars].as_tensor.double().numpy()
                    if not np.allclose(x0, x1, rtol=1e-5, atol=1e-5 * tol["scale"]):
                        ctx.violation("grid-differs", top, "grid samples of D(**vals) differ from those of D with the parameters")
                elif len(G0) != len(G1):
                    ctx.violation("grid-differs", top + "|rowcount", f"{len(G1)} grid rows after evaluation, {len(G0)} with parameters")
        except core.CaseAborted:
            pass
    # ---- a second partial evaluation of the ORIGINAL with other values must not reach into the first
    # result (nor into the original): D(p=1) keeps denoting the set at p=1 after D(p=3) was built
    other_vals = {n: v + 0.37 for n, v in vals.items()}
    with ctx.lib("partial-evaluation(second, other values)", feature=top):
        D_other = D(**other_vals)
        if R:
            D_other2 = D(**{n: torch.tensor([prows[n][0]], dtype=torch.float32).reshape(1, -1) + 0.21 for n in R[:1]})
    if ok1:
        with ctx.lib("_contains(first evaluated domain, again)", feature=top + "|after-evaluation"):
            a1b = D1._contains(pt1, pr_R)
        ok1b, v1b = geo.as_bool_rows(a1b, N)
        if ok1b and not np.array_equal(v1, v1b):
            ctx.violation("evaluated-domain-changed", top,
                          f"D(**vals) answers differently ({int((v1 != v1b).sum())} of {N} rows) after the original was "
                          f"partially evaluated a second time with other values")
        nv1b = set(D1.necessary_variables) if D1.necessary_variables is not None else None
        if nv1b != nv1:
            ctx.violation("evaluated-domain-changed", top + "|necessary-variables",
                          f"necessary_variables of D(**vals) changed from {sorted(nv1 or [])} to {sorted(nv1b or [])}")
    # ---- the original still answers the same
    with ctx.lib("_contains(original, again)", feature=top):
        a2 = D._contains(pt, pr_all)
    ok2, v2 = geo.as_bool_rows(a2, N)
    if ok0 and ok2 and not np.array_equal(v0, v2):
        ctx.violation("original-changed", top, "the original domain answers differently after it was partially evaluated")
    nontrivial = (rg.depth(I) >= 1 or rg.is_boundary(E)) and (len(R) >= 1 or spec["two_stage"]) and decided_n > 0
    return {"nontrivial": bool(nontrivial), "classes": classes,
            "summary": {"fixed": S, "free": R, "decided_rows": decided_n}}


def extra_cases(tier, seed):
    """declared-flag compositions (their exact volume depends on the flag surviving evaluation)."""
    C = lambda *v: {"k": "const", "v": list(v)}
    A1 = lambda base, a: {"k": "affine", "var": "p", "v0": list(base), "V1": [[x] for x in a]}
    big = {"t": "circle", "var": "x", "c": A1([0.2, -0.1], [0.5, 0.3]), "r": C(1.0)}
    small = {"t": "circle", "var": "x", "c": A1([0.3, 0.0], [0.5, 0.3]), "r": C(0.4)}
    far = {"t": "par", "var": "x", "o": A1([3.0, 0.0], [0.5, 0.3]), "c1": A1([4.0, 0.2], [0.5, 0.3]), "c2": A1([2.9, 1.0], [0.5, 0.3])}
    out = []
    for i, E in enumerate([{"t": "cut", "a": big, "b": small, "contained": True},
                           {"t": "union", "a": big, "b": far, "disjoint": True},
                           {"t": "translate", "a": {"t": "cut", "a": big, "b": small, "contained": True}, "v": A1([1.0, 1.0], [0.2, 0.0])},
                           {"t": "boundary", "a": {"t": "cut", "a": big, "b": small, "contained": True}}]):
        for extra in (False, True):
            out.append({"dom": {"E": E, "kind": "boundary" if E["t"] == "boundary" else "interior", "pvars": ["p"],
                                "lattice": False, "far": False},
                        "prows": {"p": [[0.4]]}, "fix": ["p"], "two_stage": False, "extra_name": extra, "n": 9,
                        "rng": seed * 100 + i})
    # transforms with every combination of constant / parameter-dependent angle, pivot and shift, one and two
    # variables, evaluated completely and only partly (p fixed, q stays a parameter)
    A2 = lambda base, a, b: {"k": "affine2", "var": "p", "var2": "q", "v0": list(base), "V1": [[x] for x in a],      # noqa: E731
                             "V2": [[x, 0.0] for x in b]}
    sq = {"t": "par", "var": "x", "o": C(0.5, 0.2), "c1": C(1.7, 0.4), "c2": C(0.3, 1.1)}
    sqp = {"t": "par", "var": "x", "o": A1([0.5, 0.2], [0.4, 0.0]), "c1": A1([1.7, 0.4], [0.4, 0.0]), "c2": A1([0.3, 1.1], [0.4, 0.0])}
    j = 0
    for inner in (sq, sqp):
        for angle in (A1([0.3], [1.4]), A2([0.3], [1.4], [0.8])):
            for around in (None, C(1.5, -0.7), A1([1.5, -0.7], [0.3, 0.6])):
                for form in ("angles", "matrix_fn"):
                    R = {"t": "rotate", "a": inner, "angle": angle, "around": around, "form": form}
                    for E in (R, {"t": "boundary", "a": R}, {"t": "translate", "a": R, "v": A1([0.4, -0.2], [0.0, 1.0])}):
                        j += 1
                        two = angle["k"] == "affine2"
                        out.append({"dom": {"E": E, "kind": "boundary" if E["t"] == "boundary" else "interior",
                                            "pvars": ["p", "q"] if two else ["p"], "lattice": False, "far": False},
                                    "prows": {"p": [[0.6]], "q": [[0.3, 0.9]]} if two else {"p": [[0.6]]},
                                    "fix": ["p"], "two_stage": False, "extra_name": j % 2 == 0, "n": 9, "rng": seed * 100 + 20 + j})
    # two-variable radius with a Python default: for its second variable (fixed alone / together with the
    # first) and for a third argument that is never supplied (first or second variable fixed alone)
    for j, (flag, fix) in enumerate((("pydef", ["q"]), ("pydef", ["p", "q"]), ("kdef", ["p"]), ("kdef", ["q"]))):
        rad = dict(A2([0.6], [0.5], [0.3]), **{flag: True})
        circ = {"t": "circle", "var": "x", "c": C(0.5, -0.25), "r": rad}
        for E in (circ, {"t": "boundary", "a": circ}):
            out.append({"dom": {"E": E, "kind": "boundary" if E["t"] == "boundary" else "interior", "pvars": ["p", "q"],
                                "lattice": False, "far": False}, "prows": {"p": [[0.6]], "q": [[0.3, 0.9]]},
                        "fix": fix, "two_stage": False, "extra_name": False, "n": 9, "rng": seed * 100 + 80 + j})
    return out
