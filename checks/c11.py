"""C11 - samplers follow their named laws: uniform, even grid, Gaussian, LHS."""
import math
import warnings

import numpy as np
import torch
from hypothesis import assume
from hypothesis import strategies as st
from scipy import stats as sst

from torchphysics.problem import samplers as S
from torchphysics.problem.spaces import Points

from vf import build, core, geo, refgeo as rg, specs, stats

PROPERTY = "C11"
RULE = ("Hypothesis draws (leaf) a primitive or its boundary (slanted / clockwise / parameter-dependent at "
        "one parameter row): samples are mapped to canonical coordinates in which the uniform law is "
        "uniform on a cube ((r/R)^dim and angles, barycentric pairs, arclength fraction, face index) and "
        "chi-square tested against exact cell probabilities; (comp) unions, cuts, intersections, "
        "Translate/Rotate, independent and dependent products, polygons and meshes: two-sample chi-square "
        "against a float64 reference rejection sampler on a K^d partition of the reference box; (bcomp) "
        "2-D Boolean boundaries: one-sample chi-square against cell masses from a fine arclength "
        "quadrature of the reference boundary; (grid) share of grid points per coarse cell vs the cell's "
        "measure share within 1.0*n^(-1/dim) (Boolean results: share >= mu/3 for mu >= 0.1); (gauss) "
        "probability-integral transform of the truncated normal on intervals / rectangles / mean-centred "
        "discs; (lhs) exactly one point per slab on every axis of a box. Two regimes: few calls with large "
        "n, many calls with n in {1,2,3}. Decision: stage 1 at alpha=1e-4, a rejection is re-tested on "
        "a fresh seed with 4x the sample at alpha=1e-6; only a double rejection is a violation. "
        "Non-trivial: not a bare origin-centred leaf or the small-n regime, and >= 16 cells with expected "
        "count >= 20; distinct = spec hash without rng.")
ASSUMPTIONS = ["false-alarm probability <= 1e-10 per test (two-stage rule)",
               "power: sized for gross law violations (missing root in a radial law, side choice ignoring lengths, mixture weights ignoring measures); a bias of a few percent in a small cell is below the power",
               "reference samplers: float64 rejection in reference boxes (vf/refgeo.py)"]
BUDGET = {"quick": {"examples": 16, "workers": 4, "shrink": False},
          "thorough": {"examples": 160, "workers": 14, "shrink": False}}

NQ = {"quick": 20000, "thorough": 100000}


# ------------------------------------------------------------------ strategies ------------
@st.composite
def _leaf(draw, dim=None, lattice=False):
    dim = dim or draw(st.sampled_from([1, 2, 2, 2, 3]))
    depv = {"p": (1, 0.0, 1.0)} if draw(st.booleans()) else {}
    ctx = specs.Ctx(depv, 0.6 if depv else 0.0, lattice, False)
    hint = ([draw(specs.num(-6, 6)) for _ in range(dim)], draw(specs.num(0.5, 4.0)))
    L = draw(specs.leaf(dim, ctx, hint))
    if L["t"] == "par" and draw(st.booleans()):
        L = dict(L, c1=L["c2"], c2=L["c1"])
    return L


@st.composite
def _case(draw, tier):
    kind = draw(st.sampled_from(["leaf", "leaf", "bleaf", "bleaf", "comp", "comp", "comp", "comp", "bcomp", "bcomp",
                                 "grid", "grid", "gauss", "lhs"]))
    c = {"kind": kind, "regime": draw(st.sampled_from(["large", "large", "small", "density"])),
         "nsmall": draw(st.sampled_from([1, 1, 2, 3])), "rng": draw(st.integers(0, 2 ** 31 - 1))}
    if kind in ("leaf", "bleaf"):
        L = draw(_leaf())
        c["E"] = L if kind == "leaf" else {"t": "boundary", "a": L}
    elif kind == "comp":
        dc = draw(specs.domain_case(tier, kinds=("interior", "interior", "product", "depproduct"),
                                    dims=(1, 2, 2, 2, 3), max_depth=2))
        assume(rg.depth(dc["E"]) >= 1 or dc["E"]["t"] in ("poly", "mesh"))
        c["E"] = dc["E"]
        c["dkind"] = dc["kind"]
    elif kind == "bcomp":
        depv = {"p": (1, 0.0, 1.0)} if draw(st.booleans()) else {}
        bctx = specs.Ctx(depv, 0.4 if depv else 0.0, draw(st.integers(0, 4)) == 0, False)
        op = draw(st.sampled_from(["union", "cut", "isect"]))
        hint = ([draw(specs.num(-5, 5)), draw(specs.num(-5, 5))], draw(specs.num(0.6, 3.0)))
        A = draw(specs.expr(2, bctx, draw(st.sampled_from([0, 0, 0, 1])), hint, ops=("union", "cut", "isect")))
        B = draw(specs.expr(2, bctx, 0, specs._hint_of(A, bctx)))
        E = {"t": op, "a": A, "b": B}
        if op == "union":
            E["disjoint"] = False
        if op == "cut":
            E["contained"] = False
        assume(specs.ratio_ok(E, bctx, 0.1))
        c["E"] = {"t": "boundary", "a": E}
    elif kind == "grid":
        if draw(st.booleans()):
            c["E"] = draw(_leaf())
        else:
            dc = draw(specs.domain_case(tier, kinds=("interior",), dims=(1, 2, 2, 3), max_depth=2))
            c["E"] = dc["E"]
        c["n"] = draw(st.sampled_from([20, 50, 100, 200, 500, 1000]))
    elif kind == "gauss":
        shape = draw(st.sampled_from(["interval", "rect", "disc"]))
        c["shape"] = shape
        cen = [draw(specs.num(-5, 5)), draw(specs.num(-5, 5))]
        size = draw(specs.num(0.5, 4))
        c["cen"], c["size"] = cen, size
        c["off"] = [draw(specs.num(-0.4, 0.4)), draw(specs.num(-0.4, 0.4))]   # mean offset in units of size
        c["std"] = draw(specs.num(0.15, 1.5))                                   # in units of size
        c["k"] = draw(st.sampled_from([0, 0, 2]))
    else:
        c["shape"] = draw(st.sampled_from(["interval", "rect", "product", "moving-interval", "moving-rect"]))
        c["move"] = draw(specs.num(0.5, 6.0))
        c["cen"] = [draw(specs.num(-5, 5)), draw(specs.num(-5, 5))]
        c["size"] = [draw(specs.num(0.5, 4)), draw(specs.num(0.5, 4))]
        c["n"] = draw(st.sampled_from([200, 50, 7, 2, 1]))
    if "E" in c:
        fv = rg.free_vars(c["E"])
        k = draw(st.sampled_from([1, 1, 2, 3])) if kind in ("leaf", "bleaf") and c["regime"] != "density" else \
            (draw(st.sampled_from([1, 2])) if kind == "comp" and c["regime"] != "density" and fv
             and c.get("dkind") != "depproduct" else 1)      # (dependent products with >= 2 external rows: finding D17 of C01/C02)
        c["prows"] = {n: [[draw(specs.num(0, 1)) for _ in range(specs.PVARS[n])] for _ in range(k)] for n in sorted(fv)}
    return c


def strategy(tier):
    return _case(tier)


# ------------------------------------------------------------------ sampling --------------
ROWS = [None]      # parameter row of every returned sample row of the last _draw call
WARM = [None]      # warm-up request issued on the same domain object before every tested request


def _draw(ctx, feat, D, params, N, regime, nsmall, how="random"):
    """N rows from the library (one call with n=N, or many calls with n=nsmall); every library
    call gets its own termination budget."""
    fn = D.sample_random_uniform if how == "random" else D.sample_grid
    if WARM[0] is not None and how == "random":
        WARM[0](N)
    with warnings.catch_warnings():
        warnings.simplefilter("ignore")
        k = max(len(params), 1)
        if regime == "large":
            with ctx.lib("sample_random_uniform", feature=feat, big=N >= 50000):
                x = fn(n=max(N // k, 1), params=params).as_tensor.detach().double().numpy()
            ROWS[0] = np.repeat(np.arange(k), len(x) // k) if len(x) % k == 0 else None
            return x
        if regime == "density":
            with ctx.lib("volume", feature=feat):
                vol = float(D.volume(params).reshape(-1)[0])
            with ctx.lib("sample_random_uniform(d)", feature=feat):
                x = fn(d=N / max(vol, 1e-9), params=params).as_tensor.detach().double().numpy()
            ROWS[0] = np.zeros(len(x), dtype=int)
            return x
        parts = []
        calls = max(1, N // (5 * nsmall))          # small-n regime: 1/5 of the sample, many calls
        ridx = []
        for _ in range(max(1, calls // k)):
            with ctx.lib("sample_random_uniform", feature=feat):
                part = fn(n=nsmall, params=params).as_tensor.detach().double().numpy()
            parts.append(part)
            ridx.append(np.repeat(np.arange(k), len(part) // k) if len(part) % k == 0 else np.full(len(part), -1))
        ROWS[0] = np.concatenate(ridx)
        if (ROWS[0] < 0).any():
            ROWS[0] = None
        return np.concatenate(parts, axis=0)


def _polyline_u(x, rings):
    """arclength fraction in [0,1) of points on a union of closed rings."""
    segs = []
    for r in rings:
        r = np.asarray(r, float)
        for i in range(len(r)):
            segs.append((r[i], r[(i + 1) % len(r)]))
    lens = np.array([np.linalg.norm(b - a) for a, b in segs])
    cum = np.concatenate([[0.0], np.cumsum(lens)])
    best = np.full(len(x), np.inf)
    s = np.zeros(len(x))
    for j, (a, b) in enumerate(segs):
        ab = b - a
        t = np.clip(((x - a) @ ab) / max(ab @ ab, 1e-300), 0, 1)
        d = np.linalg.norm(x - (a + t[:, None] * ab), axis=1)
        upd = d < best
        best[upd] = d[upd]
        s[upd] = cum[j] + t[upd] * lens[j]
    return s / cum[-1]


def _polyline_u_rows(x, V):
    """arclength fraction of x (N,2) on closed polygons V (N,m,2), one polygon per row."""
    m = V.shape[1]
    lens = np.stack([np.linalg.norm(V[:, (i + 1) % m] - V[:, i], axis=1) for i in range(m)], axis=1)
    cum = np.concatenate([np.zeros((len(x), 1)), np.cumsum(lens, axis=1)], axis=1)
    best = np.full(len(x), np.inf)
    s = np.zeros(len(x))
    for j in range(m):
        a, b = V[:, j], V[:, (j + 1) % m]
        ab = b - a
        t = np.clip(np.einsum("nd,nd->n", x - a, ab) / np.maximum(np.einsum("nd,nd->n", ab, ab), 1e-300), 0, 1)
        d = np.linalg.norm(x - (a + t[:, None] * ab), axis=1)
        upd = d < best
        best[upd] = d[upd]
        s[upd] = cum[upd, j] + t[upd] * lens[upd, j]
    return s / cum[:, -1]


def _canonical(E, penv, x, rows=None):
    """(u in [0,1]^m, grid shape) for a leaf or leaf boundary; None if no closed form is used.
    rows: parameter row index of every sample (several parameter rows are pooled in canonical
    coordinates, which are normalised per row)."""
    bd = rg.is_boundary(E)
    L = E["a"] if bd else E
    t = L["t"]
    if rows is not None and penv:
        pe = {kk: v[rows] for kk, v in penv.items()}
        return _canonical_rows(E, pe, x)
    pe = penv
    if t == "interval":
        lo, hi = rg.pval(L["lo"], pe, 1)[0, 0], rg.pval(L["hi"], pe, 1)[0, 0]
        if bd:
            return (np.abs(x[:, :1] - hi) < np.abs(x[:, :1] - lo)).astype(float) * 0.75, (2,)
        return (x - lo) / (hi - lo), (16,)
    if t in ("circle", "sphere"):
        c, R = rg.pval(L["c"], pe, 1)[0], rg.pval(L["r"], pe, 1)[0, 0]
        v = x - c
        r = np.linalg.norm(v, axis=1)
        ang = np.mod(np.arctan2(v[:, 1], v[:, 0]), 2 * np.pi) / (2 * np.pi)
        if t == "circle":
            if bd:
                return ang[:, None], (32,)
            return np.stack([(r / R) ** 2, ang], axis=1), (4, 8)
        z = np.clip(v[:, 2] / np.maximum(r, 1e-300), -1, 1)
        if bd:
            return np.stack([(z + 1) / 2, ang], axis=1), (6, 6)
        return np.stack([(r / R) ** 3, (z + 1) / 2, ang], axis=1), (3, 4, 4)
    if t in ("par", "tri"):
        V = rg._leaf_polygon(L, pe, 1)[0]
        if bd:
            return _polyline_u(x, [V])[:, None], (32,)
        o = V[0]
        d1 = V[1] - o
        d2 = (V[3] if t == "par" else V[2]) - o
        ab = np.linalg.solve(np.stack([d1, d2], axis=1), (x - o).T).T
        if t == "par":
            return ab, (6, 6)
        s = np.clip(ab.sum(axis=1), 1e-12, None)
        return np.stack([s ** 2, ab[:, 0] / s], axis=1), (6, 6)
    if t == "poly" and bd:
        return _polyline_u(x, rg._rings(L))[:, None], (32,)
    return None


def _canonical_rows(E, env, x):
    """per-row version: env has one parameter row per sample."""
    bd = rg.is_boundary(E)
    L = E["a"] if bd else E
    t = L["t"]
    N = len(x)
    if t == "interval":
        lo, hi = rg.pval(L["lo"], env, N)[:, 0], rg.pval(L["hi"], env, N)[:, 0]
        if bd:
            return (np.abs(x[:, 0] - hi) < np.abs(x[:, 0] - lo)).astype(float)[:, None] * 0.75, (2,)
        return ((x[:, 0] - lo) / (hi - lo))[:, None], (16,)
    if t in ("circle", "sphere"):
        c, R = rg.pval(L["c"], env, N), rg.pval(L["r"], env, N)[:, 0]
        v = x - c
        r = np.linalg.norm(v, axis=1)
        ang = np.mod(np.arctan2(v[:, 1], v[:, 0]), 2 * np.pi) / (2 * np.pi)
        if t == "circle":
            return (ang[:, None], (32,)) if bd else (np.stack([(r / R) ** 2, ang], axis=1), (4, 8))
        z = np.clip(v[:, 2] / np.maximum(r, 1e-300), -1, 1)
        return (np.stack([(z + 1) / 2, ang], axis=1), (6, 6)) if bd else \
            (np.stack([(r / R) ** 3, (z + 1) / 2, ang], axis=1), (3, 4, 4))
    if t in ("par", "tri"):
        V = rg._leaf_polygon(L, env, N)
        if bd:
            return _polyline_u_rows(x, V)[:, None], (32,)
        o = V[:, 0]
        d1 = V[:, 1] - o
        d2 = (V[:, 3] if t == "par" else V[:, 2]) - o
        M = np.stack([d1, d2], axis=2)                    # (N,2,2) columns d1,d2
        ab = np.linalg.solve(M, (x - o)[:, :, None])[:, :, 0]
        if t == "par":
            return ab, (6, 6)
        sm = np.clip(ab.sum(axis=1), 1e-12, None)
        return np.stack([sm ** 2, ab[:, 0] / sm], axis=1), (6, 6)
    return None


def _joint_box(E, penv):
    """a box containing the whole (possibly dependent-product) set, in space-variable order."""
    I = geo._strip_boundary(E)
    if I["t"] != "product":
        b = rg.ref_box(I, penv)[0]
        return b[0::2], b[1::2]
    bb = rg.ref_box(geo._strip_boundary(I["b"]), penv)[0]
    blo, bhi = bb[0::2], bb[1::2]
    A = geo._strip_boundary(I["a"])
    bvar = rg.space_vars(geo._strip_boundary(I["b"]))[0][0]
    if bvar in rg.free_vars(A):
        ts = np.linspace(blo[0], bhi[0], 33)
        los, his = [], []
        for tv in ts:
            pe = dict(penv)
            pe[bvar] = np.array([[tv]])
            ab = rg.ref_box(A, pe)[0]
            los.append(ab[0::2])
            his.append(ab[1::2])
        alo, ahi = np.min(los, axis=0), np.max(his, axis=0)
        pad = 0.1 + 0.05 * (ahi - alo)
        alo, ahi = alo - pad, ahi + pad
    else:
        ab = rg.ref_box(A, penv)[0]
        alo, ahi = ab[0::2], ab[1::2]
    return np.concatenate([alo, blo]), np.concatenate([ahi, bhi])


def _ref_joint(E, penv, N, gen):
    """float64 uniform reference sample of an interior expression (incl. products) by rejection."""
    I = geo._strip_boundary(E)
    lo, hi = _joint_box(E, penv)
    svars = rg.space_vars(I)
    out, got = [], 0
    tries = 0
    while got < N and tries < 400:
        m = max(2048, 2 * (N - got))
        X = lo[None, :] + gen.random((m, len(lo))) * (hi - lo)[None, :]
        env = {k: np.repeat(v, m, axis=0) for k, v in penv.items()}
        off = 0
        for v, d in svars:
            env[v] = X[:, off:off + d]
            off += d
        keep = X[rg.contains(I, env)]
        out.append(keep)
        got += len(keep)
        tries += 1
    return np.concatenate(out, axis=0)[:N], lo, hi


def _cells_for(dim):
    return {1: (16,), 2: (6, 6), 3: (4, 4, 4)}[dim]


# ------------------------------------------------------------------ tests -----------------
def _two_stage(ctx, test, feat, kind, N, spec):
    """test(N, rngseed) -> (stat, df, p, info). Stage 1 at ALPHA1, confirmation with 4N at ALPHA2."""
    stat, df, p, info = test(N, spec["rng"])
    out = {"stat": round(stat, 2), "df": df, "p": p}
    if df >= 1 and p < stats.ALPHA1:
        stat2, df2, p2, info2 = test(4 * N, spec["rng"] + 1)
        out.update(stat2=round(stat2, 2), df2=df2, p2=p2)
        if p2 < stats.ALPHA2:
            ctx.violation(kind, feat, f"chi2={stat:.1f} (df {df}, p={p:.2e}) confirmed on a fresh seed with 4x the "
                          f"sample: chi2={stat2:.1f} (df {df2}, p={p2:.2e}); {info2}")
        else:
            ctx.event("stage1-rejection-not-confirmed")
    return out


def _label(E, spec):
    I = geo._strip_boundary(E)
    lab = ("boundary:" if rg.is_boundary(E) else "") + geo.node_label(I)
    if spec.get("dkind") == "depproduct":
        lab = "depproduct"
        if rg.has(I["a"], lambda n: n["t"] in rg.BOOL):
            lab += "+boolean-factor"      # volume() of the dependent factor is only an estimate (D38)
    return lab + ("|small-n" if spec["regime"] == "small" else "|density" if spec["regime"] == "density" else "")


def _union_of_estimates(I):
    """a union one of whose operands is a cut / intersection / union: that operand's volume() is the
    documented estimate (a.volume for a cut or intersection, the sum for a union), and the union mixes its
    operands in proportion to these estimates (known finding D40)."""
    def strip(n):
        while n["t"] in ("translate", "rotate"):
            n = n["a"]
        return n
    for n in rg.walk(I):
        if n["t"] == "union":
            for c in (strip(n["a"]), strip(n["b"])):
                if c["t"] in ("isect",) or (c["t"] == "cut" and not c.get("contained")) or \
                        (c["t"] == "union" and not c.get("disjoint")):
                    return True
    return False


def _overlap_union(E, penv, gen):
    """does the expression contain a union whose operands overlap (known finding D20)?"""
    rows = rg.env_len(penv) if penv else 1
    for n in rg.walk(geo._strip_boundary(E)):
        if n["t"] == "union":
            for r in range(rows):
                pe = {k: v[r:r + 1] for k, v in penv.items()}
                try:
                    pts = rg.sample_interior(n["a"], pe, 400, gen)
                    env = {k: np.repeat(v, len(pts), axis=0) for k, v in pe.items()}
                    env[rg.space_vars(n)[0][0]] = pts
                    if rg.contains(n["b"], env).mean() > 0.02:
                        return True
                except Exception:      # noqa: BLE001 - classification only
                    return True
    return False


def run_case(spec, ctx):
    kind = spec["kind"]
    WARM[0] = None
    N = NQ[ctx.tier]
    if kind in ("gauss", "lhs"):
        return _run_sampler_law(spec, ctx, N)
    if kind == "mixture":
        return _run_mixture(spec, ctx, N)
    E = spec["E"]
    prows = spec["prows"]
    penv = build.params_env(prows)
    params = build.params_points(prows)
    feat = _label(E, spec)
    classes = [kind, spec["regime"]] + sorted(specs.features(E) & {"dep", "par-cw", "union", "cut", "isect", "rotate",
                                                                   "translate", "poly", "mesh", "product", "sphere", "tri"})
    with ctx.lib("construct", feature=feat):
        D = build.domain(E)
    I = geo._strip_boundary(E)
    if kind == "grid":
        return _run_grid(spec, ctx, D, E, penv, params, feat, classes)
    gen0 = np.random.default_rng(spec["rng"])
    if kind == "comp" and _overlap_union(E, penv, gen0):
        feat += "+union-overlap"
        classes.append("union-overlap")
    if kind == "comp" and "+union-overlap" not in feat and _union_of_estimates(I):
        feat += "+union-of-boolean"
        classes.append("union-of-boolean")
    if kind == "bcomp":
        try:
            if geo.touching(E, penv, 1e-4 * geo.scale_of(E, penv)):
                feat += "+touching"
                classes.append("touching")
        except Exception:      # noqa: BLE001 - classification only
            pass
    if kind == "bcomp" and any(c["t"] in rg.BOOL for c in rg.children(I)):
        # operands that are Boolean results themselves report the SUM of their operands' boundary
        # lengths as volume (documented estimate): known finding D37
        feat += "+nested"
        classes.append("nested-boolean-boundary")

    WARM[0] = None
    if spec.get("warm", spec["rng"] % 2 == 0):
        # the same domain object served another request before every tested request (a law must not depend
        # on what the object was asked earlier): two points per parameter row, or - where the expression
        # allows it - a request of the SAME batch shape (same n, same number of rows) for OTHER parameter
        # values (mirrored rows 1 - p)
        mirror = None
        if (prows and spec["rng"] % 4 == 0) or spec.get("warm") == "mirror":
            mirrored = {kk: [[round(1.0 - x, 6) for x in r] for r in v] for kk, v in prows.items()}
            if mirrored and specs.ratio_ok_rows(I, mirrored):
                mirror = build.params_points(mirrored)
                classes.append("warm-up-other-values")

        def warm(n_stage):
            if mirror is not None and spec["regime"] != "density":
                wn = max(n_stage // max(geo.nrows(prows), 1), 1) if spec["regime"] == "large" else spec["nsmall"]
                wp = mirror
            else:
                wn, wp = 2, params
            with ctx.lib("sample_random_uniform(warm-up)", feature=feat):
                with warnings.catch_warnings():
                    warnings.simplefilter("ignore")
                    D.sample_random_uniform(n=wn, params=wp)
        WARM[0] = warm
        classes.append("warm-up")

    def lib_sample(n, seed):
        core.seed_library(seed)
        return _draw(ctx, feat, D, params, n, spec["regime"], spec["nsmall"])

    penv1 = {kk: v[:1] for kk, v in penv.items()}
    if kind in ("leaf", "bleaf") and _canonical(E, penv1, np.zeros((1, rg.space_vars(I)[0][1]))) is not None:
        def test(n, seed):
            x = lib_sample(n, seed)
            rows = ROWS[0] if geo.nrows(prows) > 1 else None
            if geo.nrows(prows) > 1 and rows is None:
                return 0.0, 0, 1.0, "row count not divisible by the number of parameter rows (C02)"
            u, shape = _canonical(E, penv, x, rows)
            ncell = int(np.prod(shape))
            cnt = stats.counts_of(stats.cell_index(u, shape), ncell)
            st_, df, p = stats.chi2_one_sample(cnt, np.ones(ncell))
            return st_, df, p, f"cell counts min {cnt.min():.0f} max {cnt.max():.0f} of {len(x)}"
        res = _two_stage(ctx, test, feat, "uniformity", N, spec)
    elif kind == "bleaf" and I["t"] == "mesh":
        nrm, off = rg._mesh_planes(I)
        V = np.asarray(I["verts"], float)
        areas = np.array([0.5 * np.linalg.norm(np.cross(V[f[1]] - V[f[0]], V[f[2]] - V[f[0]])) for f in I["faces"]])

        keys = [tuple(np.round(np.append(nv, o), 6)) for nv, o in zip(nrm, off)]
        uniq = sorted(set(keys))
        group = np.array([uniq.index(kk) for kk in keys])
        garea = np.bincount(group, weights=areas, minlength=len(uniq))

        def test(n, seed):
            x = lib_sample(n, seed)
            face = np.argmin(np.abs(x @ nrm.T - off[None, :]), axis=1)
            cnt = np.bincount(group[face], minlength=len(uniq)).astype(float)
            st_, df, p = stats.chi2_one_sample(cnt, garea)
            return st_, df, p, f"points per plane {cnt.astype(int).tolist()} vs area shares {np.round(garea / garea.sum(), 3).tolist()}"
        res = _two_stage(ctx, test, feat, "uniformity", N, spec)
    elif kind == "bcomp":
        res = _run_bcomp(spec, ctx, D, E, penv, params, feat, N)
        if res is None:
            return {"nontrivial": False, "classes": classes, "summary": {"skipped": True}}
    else:
        dim = sum(d for _, d in rg.space_vars(I))
        shape = _cells_for(min(dim, 3))

        krows = geo.nrows(prows)

        def test(n, seed):
            xall = lib_sample(n, seed)
            g = np.random.default_rng(seed + 17)
            if krows > 1 and ROWS[0] is None:
                return 0.0, 0, 1.0, "row count not divisible by the number of parameter rows (C02)"
            worst = None
            # several parameter rows in one call: every row's block must follow the law of ITS row
            for r in range(max(krows, 1)):
                x = xall[ROWS[0] == r] if krows > 1 else xall
                pe = {kk: v[r:r + 1] for kk, v in penv.items()} if krows > 1 else penv
                if len(x) < 200:
                    continue
                y, lo, hi = _ref_joint(E, pe, 4 * len(x), g)
                d = min(dim, 3)
                ux = ((x - lo) / (hi - lo))[:, :d]
                uy = ((y - lo) / (hi - lo))[:, :d]
                nc = int(np.prod(shape))
                a = stats.counts_of(stats.cell_index(ux, shape), nc)
                b = stats.counts_of(stats.cell_index(uy, shape), nc)
                st_, df, p = stats.chi2_two_sample(a, b)
                p = min(1.0, p * max(krows, 1))          # Bonferroni over the rows
                j = int(np.argmax(np.abs(a / a.sum() - b / b.sum())))
                info = (f"parameter row {r}: " if krows > 1 else "") + \
                    f"largest share gap in cell {j}: library {a[j] / a.sum():.4f} vs reference {b[j] / b.sum():.4f}"
                if worst is None or p < worst[2]:
                    worst = (st_, df, p, info)
            return worst if worst is not None else (0.0, 0, 1.0, "too few rows")
        res = _two_stage(ctx, test, feat, "uniformity", N, spec)
    plain = kind == "leaf" and not (specs.features(E) & {"dep", "par-cw", "par-slanted", "poly", "mesh"})
    nontrivial = (not plain or spec["regime"] == "small") and res.get("df", 0) >= 15
    return {"nontrivial": bool(nontrivial), "classes": classes, "summary": res}


def _run_bcomp(spec, ctx, D, E, penv, params, feat, N):
    """Boolean boundary in 2-D: cell masses from a fine arclength quadrature of the leaf boundaries."""
    I = E["a"]
    tol = 1e-4 * geo.scale_of(E, penv)
    pts, wts = [], []
    for leaf in rg.leaves(I):
        pe = geo._penv_for(leaf, penv)
        if leaf["t"] in ("par", "tri", "poly"):
            rings = [rg._leaf_polygon(leaf, pe, 1)[0]] if leaf["t"] != "poly" else [np.asarray(r, float) for r in rg._rings(leaf)]
            total = sum(rg.ring_length(r) for r in rings)
            for ring in rings:
                for i in range(len(ring)):
                    a, b = ring[i], ring[(i + 1) % len(ring)]
                    le = float(np.linalg.norm(b - a))
                    me = max(8, int(math.ceil(3000 * le / total)))
                    tt = (np.arange(me) + 0.5) / me
                    pts.append(a[None, :] + tt[:, None] * (b - a)[None, :])
                    wts.append(np.full(me, le / me))            # arclength weight of every node
        else:
            bp, _ = rg.leaf_boundary_points(leaf, pe, 750)       # equally spaced on a circle
            length = float(rg.leaf_measure(leaf, pe, boundary=True)[0])
            pts.append(bp)
            wts.append(np.full(len(bp), length / len(bp)))
    Q = np.concatenate(pts)
    W = np.concatenate(wts)
    env = {k: np.repeat(v, len(Q), axis=0) for k, v in penv.items()}
    env[rg.space_vars(I)[0][0]] = Q
    # a node of a leaf boundary belongs to the boundary of the result iff membership of the result
    # is not constant around it; the nodes are exact float64 points, so a tiny radius decides this
    # sharply (the tolerance-based status() would add a 4*tol/sin(angle) margin at every crossing)
    keep = rg.probe_mixed(I, env, 1e-7 * geo.scale_of(E, penv))
    if keep.sum() < 50:
        ctx.inconclusive_case("boundary-quadrature-empty")
        return None
    Q, W = Q[keep], W[keep]
    # cell edges must not coincide with edges of the geometry (a float32 sample of an edge at
    # x = c falls on either side of a cell face at c): pad the box by incommensurable amounts
    w = Q.max(axis=0) - Q.min(axis=0)
    lo, hi = Q.min(axis=0) - 0.0137 * w - 1e-9, Q.max(axis=0) + 0.0291 * w + 1e-9
    shape = (6, 6)
    nc = 36
    probs = np.bincount(stats.cell_index((Q - lo) / (hi - lo), shape), weights=W, minlength=nc)

    def test(n, seed):
        core.seed_library(seed)
        x = _draw(ctx, feat, D, params, n, spec["regime"], spec["nsmall"])
        cnt = stats.counts_of(stats.cell_index((x - lo) / (hi - lo), shape), nc)
        # cells without quadrature mass must stay (nearly) empty: pool them into one cell
        zero = probs <= 0
        o = np.concatenate([cnt[~zero], [cnt[zero].sum()]])
        e = np.concatenate([probs[~zero], [1e-4 * probs.sum()]])
        st_, df, p = stats.chi2_one_sample(o, e)
        j = int(np.argmax(np.abs(cnt / cnt.sum() - probs / probs.sum())))
        return st_, df, p, f"cell {j}: library share {cnt[j] / cnt.sum():.4f} vs arclength share {probs[j] / probs.sum():.4f}"
    return _two_stage(ctx, test, feat, "uniformity", max(N // 4, 4000), spec)


def _run_grid(spec, ctx, D, E, penv, params, feat, classes):
    I = geo._strip_boundary(E)
    n = spec["n"]
    dim = rg.space_vars(I)[0][1]
    core.seed_library(spec["rng"])
    with ctx.lib("sample_grid", feature=feat):
        with warnings.catch_warnings():
            warnings.simplefilter("ignore")
            x = D.sample_grid(n=n, params=params).as_tensor.detach().double().numpy()
    if len(x) != n:
        ctx.event("rowcount(C02)")
        return {"nontrivial": False, "classes": classes, "summary": {"rows": len(x)}}
    gen = np.random.default_rng(spec["rng"])
    y, lo, hi = _ref_joint(E, penv, 40000, gen)
    w = hi - lo
    lo, hi = lo - 0.0137 * w, hi + 0.0291 * w      # grid lines must not sit on cell faces
    m = 3 if dim <= 2 else 2
    shape = (m,) * dim
    nc = m ** dim
    a = stats.counts_of(stats.cell_index((x - lo) / (hi - lo), shape), nc) / n
    mu = stats.counts_of(stats.cell_index((y - lo) / (hi - lo), shape), nc) / len(y)
    boolean = rg.has(I, lambda nn: nn["t"] in rg.BOOL)
    # discretisation bound: two cell faces per axis can each mis-assign one grid line
    bound = (2.0 / n if dim == 1 else 1.0 * n ** (-1.0 / dim)) + 3 * np.sqrt(mu * (1 - mu) / len(y)) + 0.01
    if not boolean:
        bad = np.abs(a - mu) > bound
        if bad.any():
            j = int(np.argmax(np.abs(a - mu) - bound))
            ctx.violation("grid-uneven", feat, f"n={n}: cell {j} receives share {a[j]:.3f} of the grid points, its measure share is {mu[j]:.3f} (bound {bound[j]:.3f})")
    else:
        bad = (mu >= 0.1) & (a < mu / 3)
        if bad.any():
            j = int(np.where(bad)[0][0])
            ctx.violation("grid-uneven", feat + "|boolean", f"n={n}: cell {j} with measure share {mu[j]:.3f} receives only {a[j]:.3f} of the grid points")
    return {"nontrivial": n >= 50 and (rg.depth(I) >= 1 or bool(specs.features(I) & {"dep", "par-cw", "par-slanted", "poly", "mesh"})),
            "classes": classes + [f"grid-n{n}"], "summary": {"max_gap": float(np.max(np.abs(a - mu))), "n": n}}


def _run_sampler_law(spec, ctx, N):
    from torchphysics.problem import domains as Dm
    from torchphysics.problem.spaces import R1, R2
    kind = spec["kind"]
    cen, size = spec["cen"], spec["size"]
    classes = [kind, spec["shape"]]
    if kind == "gauss":
        s = size
        std = spec["std"] * s
        if spec["shape"] == "interval":
            lo, hi = cen[0] - s / 2, cen[0] + s / 2
            dom = Dm.Interval(R1("u"), lo, hi)
            mean = [cen[0] + spec["off"][0] * s]
        elif spec["shape"] == "rect":
            dom = Dm.Parallelogram(R2("x"), [cen[0] - s / 2, cen[1] - s / 3], [cen[0] + s / 2, cen[1] - s / 3],
                                   [cen[0] - s / 2, cen[1] + s / 3])
            mean = [cen[0] + spec["off"][0] * s, cen[1] + spec["off"][1] * s * 2 / 3]
        else:
            dom = Dm.Circle(R2("x"), cen, s / 2)
            mean = list(cen)
        feat = "gaussian:" + spec["shape"]
        n_per = 2000
        calls = max(1, N // n_per)
        k = spec["k"]
        params = Points(torch.tensor([[0.1 * i] for i in range(k)]), R1("p")) if k else Points.empty()

        def test(n, seed):
            core.seed_library(seed)
            xs = []
            with ctx.lib("GaussianSampler", feature=feat):
                smp = S.GaussianSampler(dom, n_per, mean=mean if len(mean) > 1 else mean[0], std=std)
                for _ in range(max(1, n // (n_per * max(k, 1)))):
                    P = smp.sample_points(params)
                    xs.append(P[:, list(dom.space.keys())].as_tensor.detach().double().numpy())
            x = np.concatenate(xs)
            Phi = sst.norm.cdf
            if spec["shape"] == "interval":
                a, b = Phi((lo - mean[0]) / std), Phi((hi - mean[0]) / std)
                u = ((Phi((x[:, 0] - mean[0]) / std) - a) / (b - a))[:, None]
                shape = (16,)
            elif spec["shape"] == "rect":
                us = []
                for ax, (l, h) in enumerate([(cen[0] - s / 2, cen[0] + s / 2), (cen[1] - s / 3, cen[1] + s / 3)]):
                    a, b = Phi((l - mean[ax]) / std), Phi((h - mean[ax]) / std)
                    us.append((Phi((x[:, ax] - mean[ax]) / std) - a) / (b - a))
                u = np.stack(us, axis=1)
                shape = (5, 5)
            else:
                r2 = np.sum((x - np.asarray(cen)) ** 2, axis=1)
                R2_ = (s / 2) ** 2
                ur = (1 - np.exp(-r2 / (2 * std ** 2))) / (1 - np.exp(-R2_ / (2 * std ** 2)))
                ang = np.mod(np.arctan2(x[:, 1] - cen[1], x[:, 0] - cen[0]), 2 * np.pi) / (2 * np.pi)
                u = np.stack([ur, ang], axis=1)
                shape = (4, 6)
            nc = int(np.prod(shape))
            cnt = stats.counts_of(stats.cell_index(u, shape), nc)
            st_, df, p = stats.chi2_one_sample(cnt, np.ones(nc))
            return st_, df, p, f"PIT cell counts min {cnt.min():.0f} max {cnt.max():.0f} of {len(x)}"
        res = _two_stage(ctx, test, feat, "gaussian-law", N, spec)
        return {"nontrivial": res.get("df", 0) >= 15, "classes": classes, "summary": res}
    # ---- LHS
    n = spec["n"]
    sx, sy = size
    if spec["shape"] == "interval":
        dom = Dm.Interval(R1("u"), cen[0] - sx / 2, cen[0] + sx / 2)
        lo, hi = np.array([cen[0] - sx / 2]), np.array([cen[0] + sx / 2])
    elif spec["shape"] == "rect":
        dom = Dm.Parallelogram(R2("x"), [cen[0] - sx / 2, cen[1] - sy / 2], [cen[0] + sx / 2, cen[1] - sy / 2],
                               [cen[0] - sx / 2, cen[1] + sy / 2])
        lo, hi = np.array([cen[0] - sx / 2, cen[1] - sy / 2]), np.array([cen[0] + sx / 2, cen[1] + sy / 2])
    else:
        dom = Dm.Interval(R1("u"), cen[0] - sx / 2, cen[0] + sx / 2) * Dm.Interval(R1("t"), cen[1] - sy / 2, cen[1] + sy / 2)
        lo, hi = np.array([cen[0] - sx / 2, cen[1] - sy / 2]), np.array([cen[0] + sx / 2, cen[1] + sy / 2])
    feat = "lhs:" + spec["shape"]
    params = Points.empty()
    boxes = [(lo, hi)]
    if spec["shape"].startswith("moving"):
        # the box depends on a parameter p and the sampler is called with two parameter rows: every
        # row needs its own Latin hypercube in its own box
        mv = float(spec.get("move", 2.0)) * sx
        C = lambda *v: {"k": "const", "v": list(v)}
        A1 = lambda base, a: {"k": "affine", "var": "p", "v0": list(base), "V1": [[x] for x in a]}
        if spec["shape"] == "moving-interval":
            E = {"t": "interval", "var": "u", "lo": A1([cen[0] - sx / 2], [mv]), "hi": A1([cen[0] + sx / 2], [mv])}
            lo0, hi0 = np.array([cen[0] - sx / 2]), np.array([cen[0] + sx / 2])
            shift = np.array([mv])
        else:
            o = [cen[0] - sx / 2, cen[1] - sy / 2]
            E = {"t": "par", "var": "x", "o": A1(o, [mv, 0.0]), "c1": A1([o[0] + sx, o[1]], [mv, 0.0]),
                 "c2": A1([o[0], o[1] + sy], [mv, 0.0])}
            lo0, hi0 = np.array(o), np.array([o[0] + sx, o[1] + sy])
            shift = np.array([mv, 0.0])
        dom = build.domain(E)
        lo, hi = lo0, hi0
        pr = [[0.0], [1.0]]
        params = build.params_points({"p": pr})
        boxes = [(lo0 + r[0] * shift, hi0 + r[0] * shift) for r in pr]
        # float32 values of the bounds
        boxes = [(np.float32(a).astype(float), np.float32(b).astype(float)) for a, b in boxes]
    core.seed_library(spec["rng"])
    worst = 0
    for rep in range(5):
        with ctx.lib("LHSSampler", feature=feat):
            with warnings.catch_warnings():
                warnings.simplefilter("ignore")
                P = S.LHSSampler(dom, n).sample_points(params)
        xall = P[:, list(dom.space.keys())].as_tensor.detach().double().numpy()
        if xall.shape != (n * len(boxes), len(lo)):
            ctx.violation("lhs-shape", feat, f"LHS returned shape {xall.shape} for n={n}, {len(boxes)} parameter row(s)")
            break
        for ax, bi in [(ax, bi) for bi in range(len(boxes)) for ax in range(len(lo))]:
            x = xall[bi * n:(bi + 1) * n]
            lo, hi = boxes[bi]
            if True:
                pos = (x[:, ax] - lo[ax]) / (hi[ax] - lo[ax]) * n
                idx = np.floor(pos).astype(int)
                # float32 points may sit within 1e-4 of a slab edge: let those fall on either side
                frac = pos - idx
                counts = np.bincount(np.clip(idx, 0, n - 1), minlength=n)
                if not np.all(counts == 1):
                    amb = (frac < 1e-4 * n) | (frac > 1 - 1e-4 * n)
                    if not amb.any() or np.abs(counts - 1).sum() > 2 * amb.sum():
                        ctx.violation("lhs-slabs", feat, f"n={n}, axis {ax}: slab occupancy {counts.tolist()[:20]} is not one point per slab")
                        worst = 1
                        break
        if worst:
            break
    return {"nontrivial": n >= 2, "classes": classes + [f"lhs-n{n}"], "summary": {"n": n}}


# ------------------------------------------------------------------ pinned cases ----------
def _run_mixture(spec, ctx, N):
    """A disjoint union of two products over the same interval T: a disc of constant radius r whose centre moves
    with t (first factor depends on the second; its measure pi r^2 |T| is exact for the library too) and an
    independent rectangle x T, separated in x.  Uniform sampling of the union puts the share
    pi r^2 / (pi r^2 + w h) of the rows into the first part - at EVERY call on the same object (the parts are
    weighted by their volumes, which a repeated call must not change).  Exact binomial cell probabilities,
    chi-square with one degree of freedom, two-stage decision like all laws (a fresh object replays the same
    call history with 4x the rows)."""
    r, L, w, h, calls = spec["r"], spec["L"], spec["w"], spec["h"], spec["calls"]
    C = lambda *v: {"k": "const", "v": list(v)}      # noqa: E731
    T = {"t": "interval", "var": "t", "lo": C(0.0), "hi": C(L)}
    A = {"t": "product", "a": {"t": "circle", "var": "x", "c": {"k": "affine", "var": "t", "v0": [0.0, 0.0], "V1": [[0.3], [0.2]]},
                               "r": C(r)}, "b": T}
    x0 = 0.3 * L + r + 0.5
    B = {"t": "product", "a": {"t": "par", "var": "x", "o": C(x0, 0.0), "c1": C(x0 + w, 0.0), "c2": C(x0, h)}, "b": T}
    E = {"t": "union", "a": A, "b": B, "disjoint": bool(spec["declared"])}
    feat = "mixture:union-of-products"
    share = math.pi * r * r / (math.pi * r * r + w * h)
    classes = ["mixture", f"calls{calls}", "declared-disjoint" if spec["declared"] else "undeclared"]

    def test(n, seed):
        core.seed_library(seed)
        with ctx.lib("construct", feature=feat):
            D = build.domain(E)
        worst = None
        for c in range(calls):
            with ctx.lib("sample_random_uniform", feature=feat, budget_calls=4000 + 40 * n):
                with warnings.catch_warnings():
                    warnings.simplefilter("ignore")
                    P = D.sample_random_uniform(n=n)
            x = P[:, ["x"]].as_tensor.detach().double().numpy()
            if len(x) != n:
                return 0.0, 0, 1.0, "row count (C02)"
            na = int((x[:, 0] < x0 - 0.25).sum())
            st_, df, p_ = stats.chi2_one_sample([na, len(x) - na], [share, 1 - share])
            p_ = min(1.0, p_ * calls)
            if worst is None or p_ < worst[2]:
                worst = (st_, df, p_, f"call {c + 1} of {calls} on the same object: share of the rows in the moving-disc part "
                                      f"{na / len(x):.4f}, measure share {share:.4f}")
        return worst
    res = _two_stage(ctx, test, feat, "mixture-share", N, spec)
    return {"nontrivial": True, "classes": classes, "summary": res}


def extra_cases(tier, seed):
    """every primitive, every boundary and each sampler law once per run (deterministic coverage)."""
    C = lambda *v: {"k": "const", "v": list(v)}
    dep = {"k": "affine", "var": "p", "v0": [0.8], "V1": [[0.6]]}
    box = [[sx * 0.7 + 1, sy * 0.5 - 2, sz * 0.9] for sx in (-1, 1) for sy in (-1, 1) for sz in (-1, 1)]
    boxf = [[0, 1, 3], [0, 3, 2], [4, 6, 7], [4, 7, 5], [0, 4, 5], [0, 5, 1], [2, 3, 7], [2, 7, 6], [0, 2, 6], [0, 6, 4], [1, 5, 7], [1, 7, 3]]
    leaves = [
        {"t": "interval", "var": "u", "lo": C(-1.3), "hi": dep},
        {"t": "circle", "var": "x", "c": C(2.0, -1.0), "r": dep},
        {"t": "par", "var": "x", "o": C(1.0, 1.0), "c1": C(1.6, 3.1), "c2": C(3.2, 1.4)},       # clockwise, slanted
        {"t": "tri", "var": "x", "o": C(-2.0, 0.5), "c1": C(0.5, -0.3), "c2": C(-1.0, 2.2)},
        {"t": "sphere", "var": "y", "c": C(0.5, -1.0, 2.0), "r": dep},
        {"t": "poly", "var": "x", "verts": [[0, 0], [3, 0], [3, 1], [1, 1], [1, 3], [0, 3]], "hole": None},
        {"t": "mesh", "var": "y", "verts": box, "faces": boxf, "kind": "box"},
    ]
    out = []
    i = 0
    for L in leaves:
        prows = {"p": [[0.37]]} if rg.free_vars(L) else {}
        for kind, E in (("leaf", L), ("bleaf", {"t": "boundary", "a": L})):
            for regime in (("large", "small") if L["t"] in ("circle", "tri") else ("large",)):
                i += 1
                out.append({"kind": kind if L["t"] not in ("poly", "mesh") or kind == "bleaf" else "comp",
                            "regime": regime, "nsmall": 1, "rng": seed * 100 + i, "E": E, "prows": prows})
    disc = {"t": "circle", "var": "x", "c": C(0.0, 0.0), "r": C(1.0)}
    far = {"t": "circle", "var": "x", "c": C(3.0, 0.0), "r": C(0.7)}
    cutc = {"t": "circle", "var": "x", "c": C(0.4, 0.0), "r": C(0.8)}
    for j, E in enumerate([{"t": "union", "a": disc, "b": far, "disjoint": False},
                           {"t": "cut", "a": disc, "b": cutc, "contained": False},
                           {"t": "isect", "a": disc, "b": cutc},
                           {"t": "boundary", "a": {"t": "cut", "a": disc, "b": cutc, "contained": False}},
                           {"t": "boundary", "a": {"t": "union", "a": disc, "b": cutc, "disjoint": False}}]):
        out.append({"kind": "bcomp" if E["t"] == "boundary" else "comp", "regime": "large", "nsmall": 1,
                    "rng": seed * 100 + 50 + j, "E": E, "prows": {}})
    tdep = {"t": "product", "a": {"t": "circle", "var": "x", "c": C(0.0, 0.0),
                                   "r": {"k": "affine", "var": "t", "v0": [0.3], "V1": [[1.0]]}},
            "b": {"t": "interval", "var": "t", "lo": C(0.0), "hi": C(1.0)}}
    out.append({"kind": "comp", "dkind": "depproduct", "regime": "large", "nsmall": 1, "rng": seed * 100 + 60, "E": tdep, "prows": {},
                "warm": True})
    out.append({"kind": "comp", "dkind": "depproduct", "regime": "large", "nsmall": 1, "rng": seed * 100 + 61, "E": tdep, "prows": {},
                "warm": False})
    # the dependent factor wrapped in a constant shift / constant rotation
    grow_t = {"t": "circle", "var": "x", "c": C(0.0, 0.0), "r": {"k": "affine", "var": "t", "v0": [0.3], "V1": [[1.0]]}}
    for j, W in enumerate(({"t": "translate", "a": grow_t, "v": C(2.0, -1.0)},
                           {"t": "rotate", "a": {"t": "par", "var": "x", "o": C(0.5, 0.0), "c1": {"k": "affine", "var": "t", "v0": [1.0, 0.0], "V1": [[2.0], [0.0]]},
                                                 "c2": C(0.5, 1.0)}, "angle": C(0.7), "around": None, "form": "angles"})):
        out.append({"kind": "comp", "dkind": "depproduct", "regime": "large", "nsmall": 1, "rng": seed * 100 + 68 + j,
                    "E": {"t": "product", "a": W, "b": tdep["b"]}, "prows": {}, "warm": False})
    # polygon with boundary edges that are not edges of the Delaunay triangulation of its vertices
    slit = {"t": "poly", "var": "x", "hole": None,
            "verts": [[-1, 0], [10, 0], [10, 0.8], [5.5, 0.8], [5, 0.95], [4.5, 0.8], [0, 0.8], [0, 1], [10, 1], [10, 1.2], [5, 1.25], [-1, 1.2]]}
    out.append({"kind": "comp", "regime": "large", "nsmall": 1, "rng": seed * 100 + 62, "E": slit, "prows": {}, "warm": False})
    # two parameter rows in one call with different volume ratios of the parts of a (disjoint) union
    grow = {"k": "affine", "var": "p", "v0": [0.3], "V1": [[1.5]]}
    un = {"t": "union", "disjoint": False, "a": {"t": "circle", "var": "x", "c": C(0.0, 0.0), "r": grow},
          "b": {"t": "par", "var": "x", "o": C(2.5, -0.5), "c1": C(3.5, -0.5), "c2": C(2.5, 0.5)}}
    for j, regime in enumerate(("large", "small")):
        out.append({"kind": "comp", "regime": regime, "nsmall": 3, "rng": seed * 100 + 64 + j, "E": un,
                    "prows": {"p": [[0.0], [1.0]]}, "warm": False})
    # the same union asked first for other parameter values (one row and two rows)
    out.append({"kind": "comp", "regime": "large", "nsmall": 3, "rng": seed * 100 + 66, "E": un, "prows": {"p": [[0.1]]}, "warm": "mirror"})
    out.append({"kind": "comp", "regime": "large", "nsmall": 3, "rng": seed * 100 + 67, "E": un, "prows": {"p": [[0.0], [1.0]]}, "warm": "mirror"})
    for j, shape in enumerate(["interval", "rect", "disc"]):
        out.append({"kind": "gauss", "regime": "large", "nsmall": 1, "rng": seed * 100 + 70 + j, "shape": shape,
                    "cen": [1.0, -2.0], "size": 2.0, "off": [0.2, -0.1], "std": 0.5, "k": 0})
    stretchy = {"t": "par", "var": "x", "o": C(0.0, 0.0), "c1": {"k": "affine", "var": "p", "v0": [1.0, 0.0], "V1": [[3.0], [0.0]]},
                "c2": C(0.0, 1.0)}          # 1x1 at p=0, 4x1 at p=1
    for j, (E_, rows) in enumerate([({"t": "boundary", "a": stretchy}, [[0.0], [1.0]]), (stretchy, [[0.0], [1.0]]),
                                    ({"t": "boundary", "a": {"t": "tri", "var": "x", "o": C(0.0, 0.0),
                                                             "c1": {"k": "affine", "var": "p", "v0": [1.0, 0.0], "V1": [[2.0], [0.0]]},
                                                             "c2": C(0.0, 1.0)}}, [[0.0], [1.0], [0.5]])]):
        for regime in ("large", "small"):
            out.append({"kind": "bleaf" if E_["t"] == "boundary" else "leaf", "regime": regime, "nsmall": 2,
                        "rng": seed * 100 + 90 + j, "E": E_, "prows": {"p": rows}})
    # mixture weights of a union of products, asked repeatedly on the same object
    for j, (r, L, w, h, dec) in enumerate([(1.0, 2.0, 1.5, 1.0, True), (0.7, 0.5, 1.0, 2.0, False),
                                            (0.5 + (seed % 7) / 10.0, 1.0 + (seed % 5) / 2.0, 1.0 + (seed % 3) / 2.0, 1.0, seed % 2 == 0)]):
        out.append({"kind": "mixture", "regime": "large", "nsmall": 1, "rng": seed * 100 + 75 + j, "r": r, "L": L, "w": w, "h": h,
                    "calls": 3, "declared": dec, "prows": {}})
    for j, (shape, n) in enumerate([("interval", 50), ("rect", 50), ("product", 7), ("moving-interval", 20), ("moving-rect", 20)]):
        out.append({"kind": "lhs", "regime": "large", "nsmall": 1, "rng": seed * 100 + 80 + j, "shape": shape,
                    "cen": [1.0, -2.0], "size": [2.0, 1.5], "n": n})
    return out
