"""C07 - training through the Solver equals the reference optimisation loop.

One case = one generated training configuration (vf/train.py).  It is built up to three times
from the same spec (identical initial weights, data and sample points):

  A  Solver with the validation conditions, trained by a Lightning Trainer
  C  Solver without validation conditions (only when the spec has some)
  B  plain PyTorch loop of the harness over an explicitly enumerated list of learnable tensors

B against C (or A) decides "Solver == weighted-sum optimisation", A against C decides
"validation never changes learnable state".
"""
import copy

import torch
from hypothesis import strategies as st

from vf import train as T

PROPERTY = "C07"
LEVEL = "exploration"
RULE = ("Hypothesis draws a training configuration: 1-2 models (FCN/QRES/DeepRitzNet, hidden<=6, "
        "inputs x | x,t | 2-D x, 1-2 outputs), 0-2 learnable Parameters (1-2 variables of dim 1-2, "
        "shared between conditions; in 1-2% of the cases two Parameters joined with .join()), 1-4 "
        "training conditions out of PINN, Mean, DeepRitz, Parameter, AdaptiveWeights, Data "
        "(mini-batches, norms 1/2/3/inf, root, full data set, constrain_fn), Periodic and a "
        "user-defined Condition subclass whose loss depends on `iteration`, weights in [0.1,5], "
        "deterministic samplers (interval/circle grids, products of grids, DataSampler, "
        "pre-sampled static random samplers), optimizer SGD/momentum/Adam/AdamW/RMSprop with "
        "drawn hyper-parameters via OptimizerSetting, optional StepLR/ExponentialLR with frequency "
        "1-3, N=1..8 steps, 0-2 validation conditions (own or shared model/Parameter, with and "
        "without gradient tracking) and val_check_interval 1..N. Oracle: plain PyTorch loop over "
        "the enumerated learnable tensors; compared after N steps: every learnable tensor, "
        "per-tensor optimizer state, lr and scheduler counter (<=1e-6*max(1,|value|), 0.0 "
        "expected); `iteration` sequence 0..N-1 and one evaluation per step for every training "
        "condition; adaptive weights ascended; state with validation == state without. "
        "Non-trivial: N>=2 and (two conditions with different weights, or a trained Parameter, or "
        "adaptive weights, or a scheduler, or validation conditions); distinct = spec hash without "
        "the rng seed.")
ASSUMPTIONS = [
    "sampling is deterministic (the property's premise for C19, and needed here because "
    "Lightning's DataLoader consumes global torch RNG state): no un-cached random sampler, no "
    "Parallelogram grid (it is filled up with random points)",
    "PyTorch optimizers/schedulers, autograd and the Lightning Trainer are trusted",
    "the reference loop calls the library's condition.forward for the per-condition loss (the "
    "loss value itself is property C04); only the adaptive weighting and its gradient ascent are "
    "re-implemented by the harness (mean(w*unreduced), gradient negated before the step)",
    "strict ascent of an adaptive weight is demanded only without weight decay and where "
    "lr*weight*unreduced_loss/n of the first step exceeds 1e-5 (float32 resolution near 1)",
    "validation conditions without gradient tracking get derivative-free residuals",
    "random non-periodic samplers of a PeriodicCondition are static and sampled once at build time "
    "(same determinism premise as above); the value of the periodic loss itself is property C04",
    "Trainer(logger=False, enable_checkpointing=False, progress bar / model summary off, cpu, "
    "num_sanity_val_steps default)",
]
BUDGET = {"quick": {"examples": 100, "workers": 4, "shrink": False},
          "thorough": {"examples": 2000, "workers": 14}}


@st.composite
def _periodic_static_data(draw, tier):
    """A drawn configuration whose first model takes (x, t) and whose first training condition is
    a PeriodicCondition on it with a static non-periodic sampler and a data function: the data are
    pre-evaluated at both interval ends and stored in the condition (touched by on_train_start)."""
    spec = copy.deepcopy(draw(T.config(tier, resume=False)))
    spec["models"][0]["in"] = "xt"
    c = draw(T._cond(len(spec["models"]), len(spec["params"]), ["periodic"], False, False))
    c["model"] = 0
    c["data_fn"] = True
    c["sampler"]["static"] = True
    if draw(st.booleans()):
        spec["train"][0] = c
    else:
        spec["train"] = ([c] + spec["train"])[:4]
    return spec


@st.composite
def _config(draw, tier):
    # (an integer draw, not one_of over repeated strategies: one_of drops duplicates)
    if draw(st.integers(0, 5)) == 5:
        return draw(_periodic_static_data(tier))
    return draw(T.config(tier, resume=False))


def strategy(tier):
    return _config(tier)


def extra_cases(tier, seed):
    """pinned: PeriodicCondition with a static non-periodic sampler and a data function that differs
    between the two ends of the periodic interval, trained through the Solver"""
    rng = 4200 + int(seed) % 5

    def model(arch="FCN", out=1):
        return {"arch": arch, "in": "xt", "out": out, "hidden": [5, 4], "act": "tanh"}

    def periodic(nps="grid", fn_of="all", n=6, weight=1.5, params=()):
        return {"type": "periodic", "model": 0, "weight": weight,
                "sampler": {"k": "grid", "n": n, "n2": 1, "static": True}, "res": "value",
                "data_fn": True, "params": list(params), "track": True,
                "static_fn": True, "fn_of": fn_of, "nps": nps}

    def spec(models, train, opt, params=(), sched=None, steps=5, val=(), val_interval=None):
        return {"models": models, "params": list(params), "train": train, "opt": opt, "sched": sched,
                "rng": rng, "steps": steps, "default_names": False, "default_opt_args": False,
                "second_lr": None, "val": list(val), "val_interval": val_interval}

    pinn = {"type": "pinn", "model": 0, "weight": 0.5,
            "sampler": {"k": "grid", "n": 4, "n2": 2, "static": False}, "res": "deriv",
            "data_fn": True, "params": [0], "track": True}
    vpinn = {"type": "pinn", "model": 0, "weight": 1.0,
             "sampler": {"k": "grid", "n": 3, "n2": 2, "static": True}, "res": "value",
             "data_fn": False, "params": [], "track": False, "own_model": False, "own_param": False}
    yield spec([model()], [periodic()], {"kind": "sgd", "lr": 0.1, "weight_decay": 0.0})
    yield spec([model()], [periodic(params=[0]), pinn],
               {"kind": "adam", "lr": 0.01, "betas": [0.9, 0.99], "amsgrad": False, "weight_decay": 0.0},
               params=[{"dims": [1], "init": [0.8]}],
               sched={"kind": "step", "gamma": 0.7, "freq": 1, "step_size": 2}, steps=6)
    yield spec([model(out=2)], [periodic(nps="random", fn_of="periodic", n=4, weight=0.7)],
               {"kind": "momentum", "lr": 0.05, "momentum": 0.9, "nesterov": False, "weight_decay": 0.0},
               steps=4, val=[vpinn], val_interval=2)
    yield spec([model(arch="QRES")], [periodic(nps="data", n=5, weight=2.0)],
               {"kind": "rmsprop", "lr": 0.01, "alpha": 0.9, "momentum": 0.0, "centered": False}, steps=3)


def _feature(spec):
    for c in spec["train"] + (spec.get("val") or []):
        if len(set(c.get("params") or [])) >= 2:
            return "joined-parameters"
    return None


def _hook(store, key):
    def pre(module, args, kwargs):
        it = kwargs["iteration"] if "iteration" in kwargs else (args[1] if len(args) > 1 else None)
        store.setdefault(key, []).append(it)
    return pre


def _solver_run(spec, ctx, with_val, feature, label):
    with ctx.lib(f"construct[{label}]", feature=feature):
        w = T.build(spec, with_val=with_val)
        solver = T.make_solver(w)
    tensors = T.learnables(w)
    init = T.snapshot(tensors)
    seen = {}
    for i, c in enumerate(w.train):
        c.register_forward_pre_hook(_hook(seen, ("t", i)), with_kwargs=True)
        seen[("t", i)] = []
    for i, c in enumerate(w.val):
        c.register_forward_pre_hook(_hook(seen, ("v", i)), with_kwargs=True)
        seen[("v", i)] = []
    with ctx.lib(f"fit[{label}]", feature=feature):
        trainer = T.make_trainer(spec["steps"], spec.get("val_interval") if (with_val and w.val) else None)
        trainer.fit(solver)
        view = T.trainer_view(trainer, tensors)
    return {"world": w, "tensors": tensors, "init": init, "seen": seen, "view": view,
            "global_step": trainer.global_step}


def _tol(ref):
    m = float(ref.detach().abs().max()) if ref.numel() and bool(torch.isfinite(ref).all()) else 1.0
    return T.TOL * max(1.0, m)


def run_case(spec, ctx):
    out = _run_once(spec, ctx)
    if spec.get("second_lr"):
        # a second, freshly built training run in the same process (other learning rate): state that
        # leaks between Solver / OptimizerSetting objects shows up as a mismatch with the reference
        spec2 = dict(spec, opt=dict(spec["opt"], lr=spec["opt"]["lr"] * spec["second_lr"]), val=[], second_lr=None)
        out2 = _run_once(spec2, ctx)
        if out and out2:
            out["classes"] = list(out.get("classes", [])) + ["second-training"]
            out["summary"] = dict(out.get("summary") or {}, second=out2.get("summary"))
    return out


def _run_once(spec, ctx):
    N = spec["steps"]
    feature = _feature(spec)
    has_val = bool(spec.get("val"))
    # ---- B: reference
    with ctx.lib("construct[reference]", feature=feature):
        wb = T.build(spec, with_val=False)
    rec = {}
    with ctx.lib("condition-forward[reference]", feature=feature):
        ref_t, ref_view, ref_losses = T.reference_loop(wb, N, record=rec)
    # ---- C (training only) and A (with validation)
    runC = _solver_run(spec, ctx, False, feature, "solver")
    runA = _solver_run(spec, ctx, True, feature, "solver+validation") if has_val else None
    w = runC["world"]
    trained = T.trained_roles(w)
    reported = set()

    def report(kind, feat, detail):
        if (kind, feat) not in reported:
            reported.add((kind, feat))
            ctx.violation(kind, feat, detail)

    # 1. learnable state after N steps
    worst = 0.0
    for role, t in runC["tensors"].items():
        if role not in ref_t:
            continue
        d = T.maxdiff(t, ref_t[role])
        worst = max(worst, d)
        if d > _tol(ref_t[role]):
            moved = T.maxdiff(t, runC["init"][role])
            report("state-mismatch", T.role_kind(role),
                   f"{role}: |solver-reference|={d:.3e} after {N} steps (solver moved it by {moved:.3e}); "
                   f"opt={spec['opt']['kind']} conditions={[c['type'] for c in spec['train']]}")
    if runC["global_step"] != N:
        report("step-count", "global-step", f"trainer.global_step={runC['global_step']} for max_steps={N}")
    # 2. optimizer: membership, state, lr
    view = runC["view"]
    if view is None:
        report("optimizer-count", "configure_optimizers", "the trainer does not hold exactly one optimizer")
    else:
        for role in sorted(trained):
            if role in view["state"] and view["state"][role] is None:
                report("not-in-optimizer", T.role_kind(role),
                       f"{role} is reachable from a training condition but was not handed to the optimizer")
        for what, role, detail in T.compare_views(view, ref_view):
            if what == "membership":
                continue
            if what == "lr":
                report("lr-mismatch", role, detail + f" sched={spec['sched']}")
            else:
                report("optimizer-state-mismatch", T.role_kind(role), f"{role}: {detail}")
    # 3. iteration argument / evaluations per step
    for run, label in ((runC, "solver"), (runA, "solver+validation")):
        if run is None:
            continue
        for i in range(len(spec["train"])):
            seq = run["seen"][("t", i)]
            if len(seq) != N:
                report("evaluation-count", "training-condition",
                       f"[{label}] condition {i} ({spec['train'][i]['type']}) evaluated {len(seq)} times in {N} steps")
            elif seq != list(range(N)):
                report("iteration-sequence", "training-condition",
                       f"[{label}] condition {i} received iteration={seq}, expected 0..{N - 1}")
    # 4. adaptive weights ascend
    wd = T.weight_decay_of(spec)
    lr = spec["opt"]["lr"]
    n_adaptive = 0
    for i, info in enumerate(w.train_info):
        if info["adaptive"] is None:
            continue
        n_adaptive += 1
        role = f"adaptive{i}"
        if role in trained and view is not None and view["state"].get(role) is None:
            continue    # already reported as not-in-optimizer
        if wd != 0.0:
            continue
        a_now, a_init = runC["tensors"][role].detach(), runC["init"][role]
        u0 = rec.get("unreduced", {}).get(i, [None])[0]
        if u0 is None or u0.shape != a_now.shape or not bool(torch.isfinite(a_now).all()):
            continue
        if bool((a_now < a_init - 1e-6).any()):
            report("adaptive-not-ascending", "descended",
                   f"{role}: weights fell below their initial value: {a_now.tolist()} (loss terms {u0.tolist()})")
        must = (lr * info["weight"] * u0 / max(1, u0.numel())) > 1e-5
        if bool((must & ~(a_now > a_init)).any()):
            report("adaptive-not-ascending", "not-increased",
                   f"{role}: weights {a_now.tolist()} did not increase where the loss terms {u0.tolist()} are positive")
    # 5. validation never changes learnable state, is evaluated, never optimised
    n_val_calls = None
    if runA is not None:
        for role, t in runA["tensors"].items():
            if role.startswith("val"):
                d = T.maxdiff(t, runA["init"][role])
                if d > 0.0:
                    report("validation-only-optimised", T.role_kind(role),
                           f"{role} is reachable from validation conditions only and changed by {d:.3e}")
                continue
            d = T.maxdiff(t, runC["tensors"][role])
            if d > _tol(runC["tensors"][role]):
                report("validation-changed-state", T.role_kind(role),
                       f"{role}: run with validation conditions differs from the run without by {d:.3e} "
                       f"(val_check_interval={spec['val_interval']}, val={[c['type'] for c in spec['val']]})")
        if runA["view"] is not None and view is not None:
            for what, role, detail in T.compare_views(runA["view"], view):
                if role.startswith("val") or what == "membership":
                    continue
                report("validation-changed-state", "optimizer-" + what, f"{role}: {detail}")
        counts = [len(runA["seen"][("v", i)]) for i in range(len(spec["val"]))]
        n_val_calls = counts
        if min(counts) < 1:
            report("validation-not-evaluated", "validation-condition",
                   f"validation conditions evaluated {counts} times (val_check_interval={spec['val_interval']}, N={N})")
    # ---- classification
    weights = [c["weight"] for c in spec["train"]]
    trained_param = any(r.startswith("param") for r in trained)
    finite = T.all_finite(ref_t)
    if not finite:
        ctx.event("nonfinite-reference")
    ctx.event("solver-equals-reference-bitwise" if worst == 0.0 else "solver-differs-from-reference")
    nontrivial = finite and N >= 2 and (
        (len(weights) >= 2 and len(set(weights)) >= 2) or trained_param or n_adaptive > 0
        or spec["sched"] is not None or has_val)
    classes = T.classes_of(spec) + [f"steps:{'1' if N == 1 else '2-4' if N <= 4 else '5-8'}",
                                   f"nval:{len(spec.get('val') or [])}"]
    if trained_param:
        classes.append("trained-parameter")
    if any(c.get("use_iter") for c in spec["train"] if c["type"] == "spy"):
        classes.append("iteration-dependent-loss")
    shared = len({c["model"] for c in spec["train"] if c["type"] != "param"}) < \
        len([c for c in spec["train"] if c["type"] != "param"])
    if shared:
        classes.append("shared-model")
    for c, info in zip(spec["train"], w.train_info):
        if info["type"] == "periodic":
            classes.append("periodic:" + ("static-data" if info.get("static_data") else
                                          "data-fn" if c.get("data_fn") else "plain"))
            if info.get("static_data"):
                classes.append("periodic-static-data:fn-of-" + c.get("fn_of", "all"))
    return {"nontrivial": bool(nontrivial), "classes": classes,
            "summary": {"max_state_diff": worst, "steps": N, "final_loss": ref_losses[-1] if ref_losses else None,
                        "lr_end": ref_view["lr"], "val_calls": n_val_calls}}
