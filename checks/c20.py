"""C20 - Fourier layers are shift-equivariant, resolution-consistent convolutions."""
import contextlib

import numpy as np
import torch
from hypothesis import strategies as st

from torchphysics.models.FNO import FNO, _FourierLayer
from torchphysics.problem.spaces import Points, R1, R2, Space

PROPERTY = "C20"
RULE = ("Hypothesis draws layer/FNO configurations: spatial dim 1-3, per-axis resolution 3-20 "
        "(even and odd), channels 1-4, per-axis mode counts below/equal/above the available "
        "n (n//2+1 on the last axis), linear/skip/bias flags, batch 1-3, per-axis circular "
        "shifts, float64 random kernels and fields; sub-case 'resolution' draws a 1-D layer, a "
        "band-limited trigonometric polynomial and a refinement factor m. Oracles: "
        "L(roll(x,s)) == roll(L(x),s) (<=1e-9), L(x_fine)[::m] == L(x_coarse), input tensor "
        "bitwise unchanged; histories (rng mod 3): fresh object with gradient tracking / under "
        "torch.no_grad() / no_grad evaluation, then new weights, then the relations on the same "
        "object; and a freshly built object loading the used object's state_dict returns the same "
        "output (<=1e-12). Non-trivial: a non-zero shift and (dim>=2 or modes != available "
        "or an odd resolution), or a resolution case with m>=2 and degree>=1; distinct = spec "
        "hash without the rng seed.")
ASSUMPTIONS = ["batch normalisation (space_resolution) excluded: the property lists linear/skip only",
               "float64 tensors; tolerance 1e-9 relative to max|output|",
               "torch.fft and torch.roll are trusted"]
BUDGET = {"quick": {"examples": 220, "workers": 4},
          "thorough": {"examples": 2500, "workers": 14}}

ACTS = ["tanh", "sin", "gelu", "relu", "identity"]


class _Sin(torch.nn.Module):
    def forward(self, x):
        return torch.sin(x)


def _act(name):
    return {"tanh": torch.nn.Tanh(), "sin": _Sin(), "gelu": torch.nn.GELU(),
            "relu": torch.nn.ReLU(), "identity": torch.nn.Identity()}[name]


@st.composite
def _shift_case(draw, tier):
    dim = draw(st.sampled_from([1, 1, 2, 2, 3]))
    hi = {1: 20, 2: 12, 3: 7}[dim] + (4 if tier == "thorough" else 0)
    res = [draw(st.integers(3, hi)) for _ in range(dim)]
    modes = []
    for a, n in enumerate(res):
        avail = n // 2 + 1 if a == dim - 1 else n
        modes.append(draw(st.one_of(st.integers(1, max(1, avail - 1)), st.just(avail),
                                    st.integers(avail + 1, avail + 4))))
    kind = draw(st.sampled_from(["layer", "layer", "fno"]))
    spec = {"case": "shift", "kind": kind, "dim": dim, "res": res, "modes": modes,
            "channels": draw(st.integers(1, 4)), "batch": draw(st.integers(1, 3)),
            "linear": draw(st.booleans()), "skip": draw(st.booleans()),
            "bias": draw(st.booleans()),
            "shift": [draw(st.integers(0, n - 1)) for n in res],
            "grad_input": draw(st.booleans()),
            "rng": draw(st.integers(0, 2 ** 31 - 1))}
    if kind == "fno":
        spec["layers"] = draw(st.integers(1, 3))
        spec["in_dim"] = draw(st.integers(1, 3))
        spec["out_dim"] = draw(st.integers(1, 3))
        spec["act"] = draw(st.sampled_from(ACTS))
        spec["custom_updown"] = draw(st.booleans())
        spec["modes_per_layer"] = draw(st.booleans())
    return spec


@st.composite
def _res_case(draw, tier):
    n1 = draw(st.integers(4, 24))
    m = draw(st.integers(1, 4))
    kept = draw(st.integers(1, n1 // 2 + 3))
    # band limit strictly below kept modes and below n1/2
    max_deg = min(kept - 1, (n1 - 1) // 2)
    deg = draw(st.integers(0, max(0, max_deg)))
    return {"case": "resolution", "n1": n1, "m": m, "modes": kept, "deg": deg,
            "channels": draw(st.integers(1, 3)), "batch": draw(st.integers(1, 2)),
            "linear": draw(st.booleans()), "skip": draw(st.booleans()),
            "bias": draw(st.booleans()), "rng": draw(st.integers(0, 2 ** 31 - 1))}


def strategy(tier):
    return st.one_of(_shift_case(tier), _shift_case(tier), _res_case(tier))


def _randomise(module, gen):
    with torch.no_grad():
        for p in module.parameters():
            if p.is_complex():
                p.copy_(torch.complex(torch.randn(p.shape, generator=gen, dtype=torch.float64),
                                      torch.randn(p.shape, generator=gen, dtype=torch.float64))
                        .to(p.dtype))
            else:
                p.copy_(torch.randn(p.shape, generator=gen, dtype=torch.float64).to(p.dtype))


def _build(spec, gen):
    if spec["kind"] == "layer":
        layer = _FourierLayer(spec["channels"], tuple(spec["modes"]),
                              linear_connection=spec["linear"],
                              skip_connection=spec["skip"], bias=spec["bias"])
        layer = layer.to(torch.float64)
        layer.fourier_kernel.data = layer.fourier_kernel.data.to(torch.complex128)
        _randomise(layer, gen)
        return layer, spec["channels"], None
    names = ["u", "v", "w"]
    in_space = Space({names[i]: 1 for i in range(spec["in_dim"])})
    out_space = Space({"o%d" % i: 1 for i in range(spec["out_dim"])})
    modes = tuple(spec["modes"]) if spec["dim"] > 1 else spec["modes"][0]
    # A flat tuple of N numbers is read as "one entry per layer" whenever N >= layers (the
    # documented 1-D per-layer form); the unambiguous N-D form is a list of tuples.
    if spec.get("modes_per_layer") or (spec["dim"] > 1 and spec["dim"] >= spec["layers"]):
        modes = [modes for _ in range(spec["layers"])]
    kw = {}
    if spec.get("custom_updown"):
        kw["channel_up_sample_network"] = torch.nn.Sequential(
            torch.nn.Linear(spec["in_dim"], 5), torch.nn.Tanh(), torch.nn.Linear(5, spec["channels"]))
        kw["channel_down_sample_network"] = torch.nn.Sequential(
            torch.nn.Linear(spec["channels"], 4), torch.nn.Tanh(), torch.nn.Linear(4, spec["out_dim"]))
    model = FNO(in_space, out_space, fourier_layers=spec["layers"],
                hidden_channels=spec["channels"], fourier_modes=modes,
                activations=_act(spec["act"]), skip_connections=spec["skip"],
                linear_connections=spec["linear"], bias=spec["bias"], **kw)
    model = model.to(torch.float64)
    for mod in model.modules():
        if isinstance(mod, _FourierLayer):
            mod.fourier_kernel.data = mod.fourier_kernel.data.to(torch.complex128)
    _randomise(model, gen)
    return model, spec["in_dim"], in_space


def _apply(model, x, in_space):
    if in_space is None:
        return model(x)
    out = model(Points(x, in_space))
    return out.as_tensor


def _history(spec):
    """0: one gradient-tracking evaluation of a fresh object; 1: evaluation under torch.no_grad();
    2: no_grad evaluation, then new weights, then the relations under no_grad on the same object."""
    return spec.get("hist", spec["rng"] % 3)


def _twin_check(spec, ctx, model, x, y, in_space, feat, hist):
    """a freshly built object that loads the state_dict of the used one computes the same output (the
    state_dict is the whole state of the operator)."""
    gen2 = torch.Generator().manual_seed(spec["rng"] + 1)
    with ctx.lib("construct(twin)", feature=spec["kind"]):
        twin, _, _ = _build(spec, gen2)
        twin.load_state_dict(model.state_dict())
    with ctx.lib("forward(twin)", feature=spec["kind"]), torch.no_grad():
        yt = _apply(twin, x, in_space).detach()
    if tuple(yt.shape) != tuple(y.shape):
        return
    err = float((yt - y).abs().max())
    scale = max(1.0, float(y.abs().max()))
    if not np.isfinite(err) or err > 1e-12 * scale:
        ctx.violation("state-dependence", feat + ("|history" if hist == 2 else ""),
                      f"a fresh object with the same state_dict differs by {err:.3e} (scale {scale:.2e}) from the used one")


def _run_shift(spec, ctx):
    gen = torch.Generator().manual_seed(spec["rng"])
    with ctx.lib("construct", feature=spec["kind"]):
        model, cin, in_space = _build(spec, gen)
    x = torch.randn((spec["batch"], *spec["res"], cin), generator=gen, dtype=torch.float64)
    if spec["grad_input"]:
        x.requires_grad_(True)
    x_before = x.detach().clone()
    dims = tuple(range(1, spec["dim"] + 1))
    hist = _history(spec)
    feat = f"{spec['kind']}-dim{min(spec['dim'], 2)}"
    if hist == 2:
        # the same object was evaluated (without gradient tracking) before its weights changed
        with ctx.lib("forward(before the weights change)", feature=spec["kind"]), torch.no_grad():
            _apply(model, x.detach(), in_space)
        _randomise(model, gen)
    with ctx.lib("forward", feature=spec["kind"]), (torch.no_grad() if hist else contextlib.nullcontext()):
        y = _apply(model, x, in_space)
        xs = torch.roll(x.detach(), shifts=tuple(spec["shift"]), dims=dims)
        xs_before = xs.clone()
        ys = _apply(model, xs, in_space)
    _twin_check(spec, ctx, model, x.detach(), y.detach(), in_space, feat, hist)
    if not torch.equal(x.detach(), x_before) or not torch.equal(xs, xs_before):
        ctx.violation("input-modified", feat, "forward changed its input tensor")
    if tuple(y.shape[:-1]) != tuple(x.shape[:-1]):
        ctx.violation("shape", feat, f"output shape {tuple(y.shape)} for input {tuple(x.shape)}")
        return None
    ref = torch.roll(y.detach(), shifts=tuple(spec["shift"]), dims=dims)
    scale = max(1.0, float(y.detach().abs().max()))
    err = float((ys.detach() - ref).abs().max())
    if not np.isfinite(err) or err > 1e-9 * scale:
        ctx.violation("shift-equivariance", feat,
                      f"max|L(roll x)-roll L(x)|={err:.3e} (scale {scale:.2e}) shift={spec['shift']}")
    # classification
    avail = [n // 2 + 1 if a == spec["dim"] - 1 else n for a, n in enumerate(spec["res"])]
    trunc = any(m < a for m, a in zip(spec["modes"], avail))
    pad = any(m > a for m, a in zip(spec["modes"], avail))
    odd = any(n % 2 for n in spec["res"])
    nz = any(spec["shift"])
    classes = [f"dim{spec['dim']}", spec["kind"], f"hist{hist}"]
    classes += ["truncate"] if trunc else []
    classes += ["pad"] if pad else []
    classes += ["odd"] if odd else []
    classes += ["shift0"] if not nz else []
    return {"nontrivial": nz and (spec["dim"] >= 2 or trunc or pad or odd),
            "classes": classes, "summary": {"max_err": err, "scale": scale}}


def _run_resolution(spec, ctx):
    gen = torch.Generator().manual_seed(spec["rng"])
    C = spec["channels"]
    with ctx.lib("construct", feature="layer"):
        layer = _FourierLayer(C, (spec["modes"],), linear_connection=spec["linear"],
                              skip_connection=spec["skip"], bias=spec["bias"]).to(torch.float64)
        layer.fourier_kernel.data = layer.fourier_kernel.data.to(torch.complex128)
        _randomise(layer, gen)
    n1, m, deg = spec["n1"], spec["m"], spec["deg"]
    n2 = n1 * m
    a = torch.randn((spec["batch"], deg + 1, C), generator=gen, dtype=torch.float64)
    b = torch.randn((spec["batch"], deg + 1, C), generator=gen, dtype=torch.float64)

    def field(n):
        t = torch.arange(n, dtype=torch.float64) / n * 2 * np.pi
        k = torch.arange(deg + 1, dtype=torch.float64)
        cos = torch.cos(t[:, None] * k[None, :])
        sin = torch.sin(t[:, None] * k[None, :])
        return torch.einsum("nk,bkc->bnc", cos, a) + torch.einsum("nk,bkc->bnc", sin, b)

    x1, x2 = field(n1), field(n2)
    x1b, x2b = x1.clone(), x2.clone()
    hist = _history(spec)
    if hist == 2:
        # the coarse resolution was already evaluated (without gradient tracking) before the weights changed
        with ctx.lib("forward(before the weights change)", feature="layer"), torch.no_grad():
            layer(x1)
        _randomise(layer, gen)
    with ctx.lib("forward", feature="layer"), (torch.no_grad() if hist else contextlib.nullcontext()):
        y1 = layer(x1).detach()
        y2 = layer(x2).detach()
    _twin_check(dict(spec, kind="layer", modes=[spec["modes"]]), ctx, layer, x1, y1, None, "layer-dim1", hist)
    if not torch.equal(x1, x1b) or not torch.equal(x2, x2b):
        ctx.violation("input-modified", "layer-dim1", "forward changed its input tensor")
    # The layer is a Fourier multiplier in *unnormalised* torch.fft convention applied with
    # 'backward' normalisation, so the continuous multiplier is resolution independent.
    if tuple(y1.shape) != tuple(x1.shape) or tuple(y2.shape) != tuple(x2.shape):
        ctx.violation("shape", "layer-dim1",
                      f"output shapes {tuple(y1.shape)},{tuple(y2.shape)} for inputs {tuple(x1.shape)},{tuple(x2.shape)}")
        return None
    scale = max(1.0, float(y1.abs().max()))
    err = float((y2[:, ::m] - y1).abs().max())
    if not np.isfinite(err) or err > 1e-9 * scale:
        ctx.violation("resolution-consistency", "layer-dim1",
                      f"max|L(x_fine)[::{m}]-L(x_coarse)|={err:.3e} n1={n1} modes={spec['modes']} deg={deg}")
    return {"nontrivial": m >= 2 and deg >= 1, "classes": ["resolution", f"m{m}", f"hist{hist}"],
            "summary": {"max_err": err, "scale": scale}}


def run_case(spec, ctx):
    if spec["case"] == "shift":
        return _run_shift(spec, ctx)
    return _run_resolution(spec, ctx)
