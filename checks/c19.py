"""C19 - checkpoints and saved weights restore training exactly.

Crash-point enumeration: one uninterrupted run to N with the library's TrainerStateCheckpoint and
WeightSaveCallback; a harness callback placed after them copies the checkpoint file every time
it is rewritten.  For EVERY copy (interruption step k) a fresh Solver is built from the same spec
with different initial weights, resumed with Trainer(max_steps=N).fit(ckpt_path=copy_k) and
compared with the uninterrupted run.  The weight files are loaded into freshly built models.
"""
import os
import shutil
import tempfile

import torch
from hypothesis import strategies as st

import pytorch_lightning as pl
from torchphysics.utils.callbacks import TrainerStateCheckpoint, WeightSaveCallback

from vf import train as T

PROPERTY = "C19"
LEVEL = "exploration"
RULE = ("Hypothesis draws a training configuration as in C07 (1-2 models, 0-2 learnable "
        "Parameters, 1-4 conditions out of PINN/Mean/DeepRitz/Parameter/AdaptiveWeights/Data/"
        "Periodic, optimizer SGD/momentum/Adam/AdamW/RMSprop, optional StepLR/ExponentialLR with "
        "frequency 1-3, deterministic samplers), N=2..10 steps, TrainerStateCheckpoint interval "
        "1..4 (weights_only=False), WeightSaveCallback on one of the models with interval in "
        "{-1,1,2,3,4} and both flags drawn. Per configuration the set of interruption points is "
        "enumerated completely: every rewrite of the checkpoint file is copied and resumed from, "
        "in a freshly built Solver whose learnable tensors were shifted by N(0,0.25^2). Oracles: "
        "learnable tensors, per-tensor optimizer state, lr and scheduler counter after the resumed "
        "run == uninterrupted run (<=1e-6*max(1,|value|), 0.0 expected); _init.pt/_final.pt load "
        "strictly into a fresh model and reproduce the pre-/post-training state dict and outputs "
        "bitwise; _min_loss.pt equals the model state at the start of one of the checked batches; "
        "a file whose flag is off is not written. Non-trivial: some interruption step k with "
        "1<k<N and the configuration has optimizer state (momentum/Adam/RMSprop) or a scheduler or "
        "a trained Parameter; distinct = spec hash without the rng seed.")
ASSUMPTIONS = [
    "deterministic sampling (premise of the property): grids, DataSampler, pre-sampled static samplers",
    "Solver.on_train_start resets n_training_step to 0 on resume (stated in the callback's note), "
    "so only conditions that ignore `iteration` are generated (all library conditions do)",
    "the position of a DataCondition's mini-batch iterator is not part of a checkpoint: data "
    "conditions use a single batch (batch_size = number of data points) or the full data set",
    "the resumed Trainer has no callbacks; Lightning's checkpoint connector and torch.save/load are trusted",
    "all files live in a per-case directory from tempfile.mkdtemp(dir='/tmp'), removed in a finally block",
    "which steps get a checkpoint is not prescribed beyond 'every check_interval steps': only "
    "'at least one checkpoint when N >= interval' is demanded, every checkpoint found is resumed from",
]
BUDGET = {"quick": {"examples": 45, "workers": 4, "shrink": False},
          "thorough": {"examples": 700, "workers": 14}}


@st.composite
def _case(draw, tier):
    spec = draw(T.config(tier, resume=True))
    spec["ckpt_interval"] = draw(st.sampled_from([2, 1, 3, 4]))
    spec["ws"] = {"model": draw(st.integers(0, len(spec["models"]) - 1)),
                  "interval": draw(st.sampled_from([2, 1, 3, -1, 4])),
                  "init": draw(st.booleans()), "final": draw(st.booleans())}
    return spec


def strategy(tier):
    return _case(tier)


class _Recorder(pl.Callback):
    """placed AFTER the library callbacks: copies the checkpoint whenever its content changed and
    records the watched model at the start of every batch"""

    def __init__(self, directory, model):
        self.dir, self.model = directory, model
        self.last = None
        self.copies = []          # (global_step, batch_idx, path)
        self.at_batch_start = {}  # batch_idx -> state dict copy
        self.logged = {}          # batch_idx -> logged train/loss seen at batch start

    def on_train_batch_start(self, trainer, pl_module, batch, batch_idx, dataloader_idx=0):
        self.at_batch_start[batch_idx] = {k: v.detach().clone() for k, v in self.model.state_dict().items()}
        v = trainer.logged_metrics.get("train/loss")
        self.logged[batch_idx] = None if v is None else float(v)

    def on_train_batch_end(self, trainer, pl_module, outputs, batch, batch_idx, dataloader_idx=0):
        p = os.path.join(self.dir, "state.ckpt")
        if not os.path.exists(p):
            return
        with open(p, "rb") as f:
            data = f.read()
        if data != self.last:
            self.last = data
            q = os.path.join(self.dir, f"copy_{len(self.copies)}.ckpt")
            with open(q, "wb") as f:
                f.write(data)
            self.copies.append((int(trainer.global_step), int(batch_idx), q))


def _probe(mspec, gen):
    x = torch.rand((5, T._in_dim(mspec["in"])), generator=gen)
    import torchphysics as tp
    return tp.spaces.Points(x, T._in_space(mspec["in"]))


def _bitwise(a, b):
    """equal values, NaN treated as equal to NaN (a diverged training still has to round-trip)"""
    if not (torch.is_tensor(a) and torch.is_tensor(b)) or a.shape != b.shape or a.dtype != b.dtype:
        return False
    if torch.equal(a, b):
        return True
    return torch.equal(torch.isnan(a), torch.isnan(b)) and \
        torch.equal(torch.nan_to_num(a, nan=0.0), torch.nan_to_num(b, nan=0.0))


def _same_state(sd_a, sd_b):
    if list(sd_a.keys()) != list(sd_b.keys()):
        return False
    return all(_bitwise(sd_a[k], sd_b[k]) for k in sd_a)


def _tol(ref):
    m = float(ref.detach().abs().max()) if ref.numel() and bool(torch.isfinite(ref).all()) else 1.0
    return T.TOL * max(1.0, m)


def run_case(spec, ctx):
    tmp = tempfile.mkdtemp(prefix="verif-c19-", dir="/tmp")
    try:
        return _run(spec, ctx, tmp)
    finally:
        shutil.rmtree(tmp, ignore_errors=True)


def _run(spec, ctx, tmp):
    N, c, ws = spec["steps"], spec["ckpt_interval"], spec["ws"]
    reported = set()

    def report(kind, feat, detail):
        if (kind, feat) not in reported:
            reported.add((kind, feat))
            ctx.violation(kind, feat, detail)

    # ---- uninterrupted run
    with ctx.lib("construct"):
        w = T.build(spec)
        solver = T.make_solver(w)
    mi = ws["model"] % len(w.models)
    mspec = spec["models"][mi]
    watched = w.models[mi]
    probe = _probe(mspec, torch.Generator().manual_seed(int(spec["rng"]) + 1))
    with torch.no_grad():
        out_before = watched(probe).as_tensor.clone()
    sd_before = {k: v.detach().clone() for k, v in watched.state_dict().items()}
    rec = _Recorder(tmp, watched)
    with ctx.lib("construct-callbacks"):
        callbacks = [TrainerStateCheckpoint(tmp, "state", check_interval=c, weights_only=False),
                     WeightSaveCallback(watched, tmp, "w", ws["interval"],
                                        save_initial_model=ws["init"], save_final_model=ws["final"]),
                     rec]
    with ctx.lib("fit-uninterrupted"):
        trainer = T.make_trainer(N, callbacks=callbacks)
        trainer.fit(solver)
    tensors = T.learnables(w)
    final = T.snapshot(tensors)
    view = T.trainer_view(trainer, tensors)
    with torch.no_grad():
        out_after = watched(probe).as_tensor.clone()
    sd_after = {k: v.detach().clone() for k, v in watched.state_dict().items()}
    if trainer.global_step != N:
        report("step-count", "uninterrupted", f"global_step={trainer.global_step} for max_steps={N}")

    # ---- crash-point enumeration
    if N >= c and not rec.copies:
        report("no-checkpoint-written", "trainer-state", f"no checkpoint file after {N} steps, interval {c}")
    worst = 0.0
    steps_k = []
    reachable = T.trained_roles(w)
    for k, batch_idx, path in rec.copies:
        steps_k.append(k)
        with ctx.lib("construct-for-resume"):
            w2 = T.build(spec, perturb=True)
            solver2 = T.make_solver(w2)
        t2 = T.learnables(w2)
        with ctx.lib("resume", feature="weights-and-state"):
            tr2 = T.make_trainer(N)
            tr2.fit(solver2, ckpt_path=path)
            view2 = T.trainer_view(tr2, t2)
        pos = "last-step" if k >= N else "mid-run"
        if tr2.global_step != N:
            report("step-count", "resumed-" + pos, f"resumed from step {k}: global_step={tr2.global_step}, expected {N}")
        for role, t in t2.items():
            if role not in reachable:
                continue     # built by the generator but handed to no condition: not part of the Solver
            d = T.maxdiff(t, final[role])
            worst = max(worst, d)
            if d > _tol(final[role]):
                report("resume-mismatch", T.role_kind(role),
                       f"{role}: resumed from step {k} of {N} (interval {c}) differs from the uninterrupted run "
                       f"by {d:.3e}; opt={spec['opt']['kind']} sched={spec['sched']}")
        if view is not None and view2 is not None:
            for what, role, detail in T.compare_views(view2, view):
                if what == "lr":
                    report("resume-lr-mismatch", role, f"resumed from step {k} of {N}: {detail}")
                else:
                    report("resume-optimizer-mismatch", T.role_kind(role) if role in t2 else role,
                           f"resumed from step {k} of {N}: {role}: {detail}")
        elif (view is None) != (view2 is None):
            report("optimizer-count", "resumed", "number of optimizers differs between the runs")

    # ---- weight files
    def load_into_fresh(fname):
        """state dict from the file, and the outputs of a fresh (differently initialised) model
        after a strict load"""
        sd = torch.load(os.path.join(tmp, fname), weights_only=True)
        fresh = T.build(spec, perturb=True).models[mi]
        fresh.load_state_dict(sd, strict=True)
        with torch.no_grad():
            return sd, fresh(probe).as_tensor.clone()

    files = {n: os.path.exists(os.path.join(tmp, "w_" + n + ".pt")) for n in ("init", "final", "min_loss")}
    for which, flag, sd_ref, out_ref in (("init", ws["init"], sd_before, out_before),
                                         ("final", ws["final"], sd_after, out_after)):
        if not flag:
            if files[which]:
                report("unexpected-file", which, f"w_{which}.pt was written although its flag is False")
            continue
        if not files[which]:
            report("missing-file", which, f"w_{which}.pt was not written (N={N})")
            continue
        with ctx.lib("load-" + which, feature=which):
            sd, out = load_into_fresh(f"w_{which}.pt")
        if not _same_state(sd_ref, sd):
            report("weight-file-mismatch", which,
                   f"w_{which}.pt does not hold the model's state {'before' if which == 'init' else 'after'} training")
        elif not _bitwise(out, out_ref):
            report("weight-file-mismatch", which + "-outputs", "loaded model does not reproduce the outputs bitwise")
    checked = [b for b in range(1, N) if ws["interval"] > 0 and (b - 1) % ws["interval"] == 0]
    if ws["interval"] <= 0:
        if files["min_loss"]:
            report("unexpected-file", "min_loss", "w_min_loss.pt written with a negative check interval")
    elif files["min_loss"]:
        with ctx.lib("load-min_loss", feature="min_loss"):
            sd, _out = load_into_fresh("w_min_loss.pt")
        hits = [b for b, s in sorted(rec.at_batch_start.items()) if b > 0 and _same_state(s, sd)]
        if not hits:
            report("weight-file-mismatch", "min_loss",
                   f"w_min_loss.pt equals the model state at the start of no batch > 0 (interval {ws['interval']}, N={N})")
        elif not any(b in checked for b in hits):
            report("weight-file-mismatch", "min_loss-unchecked-step",
                   f"w_min_loss.pt holds the state of batch start(s) {hits}, checked batches are {checked}")
        else:
            # informational: is it the running minimum of the logged loss over the checked steps?
            best, arg = float("inf"), None
            for b in checked:
                v = rec.logged.get(b)
                if v is not None and v < best:
                    best, arg = v, b
            ctx.event("min-loss-file-is-running-minimum" if arg in hits else "min-loss-file-other-checked-step")
    elif checked and all(rec.logged.get(b) is not None and rec.logged[b] == rec.logged[b] for b in checked):
        report("missing-file", "min_loss", f"w_min_loss.pt missing although batches {checked} were checked")

    # ---- classification
    trained_param = any(r.startswith("param") for r in T.trained_roles(w))
    stateful = T.has_optimizer_state(spec) or spec["sched"] is not None or trained_param
    finite = T.all_finite(final)
    if not finite:
        ctx.event("nonfinite-final-state")
    mid = [k for k in steps_k if 1 < k < N]
    ctx.event("crash-points", len(steps_k))
    ctx.event("crash-points-mid-run", len(mid))
    ctx.event("resume-bitwise-equal" if worst == 0.0 else "resume-differs")
    classes = T.classes_of(spec) + [f"ckpt-interval:{c}", f"ws-interval:{ws['interval']}",
                                   f"crash-points:{min(len(steps_k), 5)}{'+' if len(steps_k) > 5 else ''}"]
    if trained_param:
        classes.append("trained-parameter")
    if any(info["adaptive"] is not None for info in w.train_info):
        classes.append("adaptive-weights")
    for n, present in files.items():
        if present:
            classes.append("file:" + n)
    return {"nontrivial": bool(finite and mid and stateful), "classes": classes,
            "summary": {"steps": N, "interval": c, "resumed_from": steps_k, "max_resume_diff": worst,
                        "files": sorted(n for n, p in files.items() if p)}}


def finish(ctx):
    return {"crash_points_enumerated": int(ctx.events.get("crash-points", 0)),
            "crash_points_mid_run": int(ctx.events.get("crash-points-mid-run", 0))}
