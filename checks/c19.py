"""C19 - checkpoints and saved weights restore training exactly.

Crash-point enumeration: one uninterrupted run to N with the library's TrainerStateCheckpoint and
WeightSaveCallback; a harness callback placed after them copies the checkpoint file every time
it is rewritten.  For EVERY copy (interruption step k) a fresh Solver is built from the same spec
with different initial weights, resumed with Trainer(max_steps=N).fit(ckpt_path=copy_k) and
compared with the uninterrupted run.  The weight files are loaded into freshly built models.

Model configurations whose state_dict has MORE entries than named_parameters() are part of the
generator: FCN/QRES/FNO built with ONE AdaptiveActivationFunction object (the constructors reuse
a single activation for every hidden layer, so its slope 'a' appears once per layer in the
state_dict) and FNO with batch normalisation (running statistics are buffers).
"""
import os
import shutil
import tempfile

import torch
from hypothesis import strategies as st

import pytorch_lightning as pl
from torchphysics.utils.callbacks import TrainerStateCheckpoint, WeightSaveCallback

from vf import train as T

PROPERTY = "C19"
LEVEL = "exploration"
RULE = ("Two families of training configurations. (a) 4 of 5 draws: as in C07 (1-2 models, 0-2 "
        "learnable Parameters, 1-4 conditions out of PINN/Mean/DeepRitz/Parameter/AdaptiveWeights/"
        "Data/Periodic, optimizer SGD/momentum/Adam/AdamW/RMSprop, optional StepLR/ExponentialLR "
        "with frequency 1-3, deterministic samplers); every FCN/QRES model additionally draws its "
        "activation as plain, ONE AdaptiveActivationFunction object shared by all hidden layers "
        "(then 2-3 hidden layers, so the state_dict has more entries than named_parameters()) or "
        "one AdaptiveActivationFunction per layer. (b) 1 of 5 draws: operator learning, 1-2 FNO "
        "models (1-2 Fourier layers, 2-4 channels, 1-4 modes, skip/linear connections, optional "
        "batch normalisation = buffers, optional shared AdaptiveActivationFunction, optional "
        "down-sampling network) fitted by 1-3 single-batch DataConditions on (n, res, dim) function "
        "samples. Both: N=2..10 steps, TrainerStateCheckpoint interval 1..4 (weights_only=False), "
        "WeightSaveCallback on one of the models with interval in {-1,1,2,3,4} and both flags "
        "drawn. Per configuration the set of interruption points is "
        "enumerated completely: every rewrite of the checkpoint file is copied and resumed from, "
        "in a freshly built Solver whose learnable tensors were shifted by N(0,0.25^2). Oracles: "
        "learnable tensors, buffers of the trained models, per-tensor optimizer state, lr and "
        "scheduler counter after the resumed "
        "run == uninterrupted run (<=1e-6*max(1,|value|), 0.0 expected; complex tensors as (re,im)); "
        "every weight file has exactly the keys of the model's state_dict; _init.pt/_final.pt load "
        "strictly into a fresh model and reproduce the pre-/post-training state dict bitwise and the "
        "eval-mode outputs bitwise; _min_loss.pt loads strictly and equals the model state at the "
        "start of one of the checked batches; "
        "a file whose flag is off is not written. Non-trivial: some interruption step k with "
        "1<k<N and the configuration has optimizer state (momentum/Adam/RMSprop) or a scheduler or "
        "a trained Parameter; distinct = spec hash without the rng seed. extra_cases pins six "
        "configurations whose watched model has state_dict > named_parameters (shared activation "
        "in FCN/QRES/FNO, FNO batch norm; one of them with a per-layer-activation second model), "
        "all three files requested.")
ASSUMPTIONS = [
    "deterministic sampling (premise of the property): grids, DataSampler, pre-sampled static samplers",
    "Solver.on_train_start resets n_training_step to 0 on resume (stated in the callback's note), "
    "so only conditions that ignore `iteration` are generated (all library conditions do)",
    "the position of a DataCondition's mini-batch iterator is not part of a checkpoint: data "
    "conditions use a single batch (batch_size = number of data points) or the full data set",
    "the resumed Trainer has no callbacks; Lightning's checkpoint connector and torch.save/load are trusted",
    "all files live in a per-case directory from tempfile.mkdtemp(dir='/tmp'), removed in a finally block",
    "which steps get a checkpoint is not prescribed beyond 'every check_interval steps': only "
    "'at least one checkpoint when N >= interval' is demanded, every checkpoint found is resumed from",
    "'loads into a freshly built identical model' = load_state_dict(strict=True), torch's default, "
    "into a model built by the same constructor call; therefore a file must hold every "
    "state_dict entry (shared parameters under each of their names, buffers), not only "
    "named_parameters()",
    "'reproduces the model' is observed on the state_dict and on eval-mode outputs (eval mode so "
    "that batch-norm running statistics take part and the probe does not change them; the "
    "train/eval flags of all submodules are put back afterwards)",
    "buffers of a trained model (batch-norm running statistics) are produced by training and "
    "decide the eval-mode outputs: they are compared like the learnable state after a resume",
    "FCN/QRES/FNO 'activations: a single function is used for each layer' (docstrings) - a single "
    "AdaptiveActivationFunction object is therefore a documented way to share one slope; "
    "FNO + DataCondition on (batch, resolution, dim) Points with space_resolution is the usage of "
    "examples/fno/integrator(+batchnorm).ipynb",
    "models are built through vf.train.build with its model factory extended for the duration "
    "of the call (this file only); the FNO family is built here and exposes the same World fields",
]
BUDGET = {"quick": {"examples": 50, "workers": 4, "shrink": False},
          "thorough": {"examples": 700, "workers": 14}}


@st.composite
def _fno_model(draw):
    return {"arch": "FNO", "in": draw(st.sampled_from(["f1", "f1", "f2"])),
            "out": draw(st.sampled_from([1, 1, 2])),
            "res": draw(st.integers(3, 8)), "layers": draw(st.sampled_from([2, 1, 2, 3])),
            "channels": draw(st.integers(2, 4)), "modes": draw(st.integers(1, 4)),
            "skip": draw(st.booleans()), "linear": draw(st.booleans()), "bias": draw(st.booleans()),
            "bn": draw(st.booleans()),
            "act": draw(st.sampled_from(["tanh", "sigmoid", "sin"])),
            "adaptive": draw(st.sampled_from([None, "shared", "shared", "per-layer"])),
            "scaling": draw(st.sampled_from([1.0, 2.0, 0.5])),
            "down_net": draw(st.booleans())}


@st.composite
def _fno_config(draw):
    """operator-learning family: FNO models fitted to data (examples/fno)"""
    n_models = draw(st.sampled_from([1, 1, 2]))
    models = [draw(_fno_model()) for _ in range(n_models)]
    train = []
    for _ in range(draw(st.sampled_from([1, 2, 1, 3]))):
        n = draw(st.integers(1, 5))
        train.append({"type": "data", "model": draw(st.integers(0, n_models - 1)),
                      "weight": draw(st.sampled_from([1.0, 0.1, 5.0, 2.5])),
                      "n": n, "batch": n, "norm": draw(st.sampled_from([2, 2, 1, 3, "inf"])),
                      "root": draw(st.sampled_from([1.0, 1.0, 2.0])), "full": draw(st.booleans())})
    return {"family": "fno", "models": models, "params": [], "train": train,
            "opt": draw(T._optimizer()),
            "sched": draw(st.one_of(T._scheduler(), st.none(), T._scheduler())),
            "rng": draw(st.integers(0, 2 ** 31 - 1)),
            "steps": draw(st.sampled_from([4, 3, 5, 2, 6, 7, 8, 9, 10])),
            "val": [], "val_interval": None}


@st.composite
def _case(draw, tier):
    if draw(st.integers(0, 4)) == 4:
        spec = draw(_fno_config())
    else:
        spec = draw(T.config(tier, resume=True))
        for m in spec["models"]:
            if m["arch"] not in ("FCN", "QRES"):
                continue
            mode = draw(st.sampled_from([None, None, "shared", "shared", "per-layer"]))
            if mode is None:
                continue
            m["adaptive"] = mode
            m["scaling"] = draw(st.sampled_from([1.0, 2.0, 0.5]))
            if mode == "shared":
                # one activation object for >= 2 hidden layers: the slope is shared between them
                while len(m["hidden"]) < 2 or (len(m["hidden"]) < 3 and draw(st.integers(0, 3)) == 0):
                    m["hidden"].append(draw(st.integers(1, 6)))
    spec["ckpt_interval"] = draw(st.sampled_from([2, 1, 3, 4]))
    spec["ws"] = {"model": draw(st.integers(0, len(spec["models"]) - 1)),
                  "interval": draw(st.sampled_from([2, 1, 3, -1, 4])),
                  "init": draw(st.booleans()), "final": draw(st.booleans())}
    return spec


def strategy(tier):
    return _case(tier)


def extra_cases(tier, seed):
    """pinned: models whose state_dict is larger than named_parameters() (+ one control), with
    all three weight files requested and a mid-run checkpoint"""
    adam = {"kind": "adam", "lr": 0.01, "betas": [0.9, 0.99], "amsgrad": False, "weight_decay": 0.0}
    mom = {"kind": "momentum", "lr": 0.01, "momentum": 0.9, "nesterov": False, "weight_decay": 0.0}
    grid = {"k": "grid", "n": 6, "n2": 2, "static": True}

    def pinn(model, params=(), res="value"):
        return {"type": "pinn", "model": model, "weight": 1.0, "sampler": dict(grid), "res": res,
                "data_fn": False, "params": list(params), "track": True}

    def std(models, train, opt, params=(), sched=None, steps=5, ckpt=2, ws_model=0, ws_interval=1):
        return {"models": models, "params": list(params), "train": train, "opt": dict(opt),
                "sched": sched, "rng": 1000 + int(seed) % 7, "steps": steps, "val": [],
                "val_interval": None, "ckpt_interval": ckpt,
                "ws": {"model": ws_model, "interval": ws_interval, "init": True, "final": True}}

    def fcn(arch="FCN", hidden=(4, 3), mode="shared", inp="x", out=1, act="tanh"):
        return {"arch": arch, "in": inp, "out": out, "hidden": list(hidden), "act": act,
                "adaptive": mode, "scaling": 1.0}

    def fno(bn, mode, layers=2, inp="f1", out=1, down=False):
        return {"arch": "FNO", "in": inp, "out": out, "res": 6, "layers": layers, "channels": 3,
                "modes": 2, "skip": True, "linear": True, "bias": True, "bn": bn, "act": "tanh",
                "adaptive": mode, "scaling": 1.0, "down_net": down}

    def data(model, n=3, norm=2):
        return {"type": "data", "model": model, "weight": 1.0, "n": n, "batch": n, "norm": norm,
                "root": 1.0, "full": False}

    def op(models, train, opt, **kw):
        s = std(models, train, opt, **kw)
        s["family"] = "fno"
        return s

    yield std([fcn()], [pinn(0)], adam)
    yield std([fcn("QRES", (3, 2, 3), inp="xt")], [pinn(0, params=[0], res="deriv")], mom,
              params=[{"dims": [1], "init": [0.5]}],
              sched={"kind": "exp", "gamma": 0.9, "freq": 2}, steps=6, ckpt=3, ws_interval=2)
    yield std([fcn(hidden=(3, 3), mode="per-layer"), fcn(hidden=(2, 2, 2), act="sin", out=2)],
              [pinn(0), pinn(1)], adam, ws_model=1)
    yield op([fno(True, None)], [data(0)], adam)
    yield op([fno(False, "shared", down=True)], [data(0, norm=1)], mom, ws_interval=2)
    yield op([fno(True, "shared", layers=3, inp="f2", out=2), fno(False, None, layers=1)],
             [data(0), data(1, n=1), data(0, n=4, norm="inf")], adam, steps=6, ckpt=4,
             sched={"kind": "step", "gamma": 0.5, "freq": 1, "step_size": 2})


# ====================================================================== builders
def _activation(m, n_layers):
    """what is handed as `activations`: a plain module, ONE AdaptiveActivationFunction object
    (the constructors then use it for every layer) or a list with one object per layer"""
    import torchphysics as tp
    mode = m.get("adaptive")
    if mode is None:
        return T._act(m["act"])
    if mode == "shared":
        return tp.models.AdaptiveActivationFunction(T._act(m["act"]), scaling=m.get("scaling", 1.0))
    return [tp.models.AdaptiveActivationFunction(T._act(m["act"]), scaling=m.get("scaling", 1.0))
            for _ in range(n_layers)]


def _build_model_ext(m, out_name):
    """vf.train's model factory plus the `adaptive` key of FCN / QRES models"""
    import torchphysics as tp
    if m.get("adaptive") is None or m["arch"] not in ("FCN", "QRES"):
        return _ORIG_BUILD_MODEL(m, out_name)
    cls = tp.models.FCN if m["arch"] == "FCN" else tp.models.QRES
    return cls(T._in_space(m["in"]), T._out_space(out_name, m["out"]), hidden=tuple(m["hidden"]),
               activations=_activation(m, len(m["hidden"])))


_ORIG_BUILD_MODEL = T._build_model


def _fno_in_space(kind):
    import torchphysics as tp
    return tp.spaces.R1("f") if kind == "f1" else tp.spaces.R2("f")


def _fno_in_dim(kind):
    return 1 if kind == "f1" else 2


def _build_fno_model(m, out_name):
    import torchphysics as tp
    F, U = _fno_in_space(m["in"]), T._out_space(out_name, m["out"])
    kw = {}
    if m["down_net"]:
        kw["channel_down_sample_network"] = torch.nn.Sequential(
            torch.nn.Linear(m["channels"], m["channels"]), torch.nn.Tanh(),
            torch.nn.Linear(m["channels"], U.dim))
    return tp.models.FNO(F, U, fourier_layers=m["layers"], hidden_channels=m["channels"],
                         fourier_modes=m["modes"], activations=_activation(m, m["layers"]),
                         skip_connections=m["skip"], linear_connections=m["linear"], bias=m["bias"],
                         space_resolution=(m["res"] if m["bn"] else None), **kw)


def _build_fno_world(spec, perturb):
    """same fields as vf.train.build: FNO models, one single-batch DataCondition per entry"""
    import torchphysics as tp
    seed = int(spec["rng"])
    torch.manual_seed(seed)
    gen = torch.Generator().manual_seed(seed)
    w = T.World()
    w.spec = spec
    w.models = [_build_fno_model(m, T.OUT_NAMES[i]) for i, m in enumerate(spec["models"])]
    w.params, w.pvars = [], []
    w.extra_models, w.extra_params, w.extra_pvars = [], [], []
    w.train, w.train_info, w.val, w.val_info = [], [], [], []
    for i, c in enumerate(spec["train"]):
        mi = c["model"] % len(w.models)
        m = spec["models"][mi]
        n = c["n"]
        grid = torch.linspace(0.0, 1.0, m["res"]).reshape(1, -1, 1)
        freq = 1.0 + 3.0 * torch.rand((n, 1, _fno_in_dim(m["in"])), generator=gen)
        fin = torch.sin(freq * grid) + 0.3 * torch.rand((n, m["res"], _fno_in_dim(m["in"])), generator=gen)
        uout = torch.cumsum(fin.sum(dim=2, keepdim=True), dim=1) / m["res"] \
            * torch.ones((1, 1, m["out"])) + 0.1 * torch.randn((n, m["res"], m["out"]), generator=gen)
        loader = tp.utils.PointsDataLoader(
            (tp.spaces.Points(fin, _fno_in_space(m["in"])),
             tp.spaces.Points(uout, T._out_space(T.OUT_NAMES[mi], m["out"]))), batch_size=c["batch"])
        w.train.append(tp.conditions.DataCondition(w.models[mi], loader, norm=c["norm"], root=c["root"],
                                                   use_full_dataset=c["full"], name=f"data_t{i}",
                                                   weight=c["weight"]))
        w.train_info.append({"type": "data", "model": mi, "adaptive": None, "n_points": None,
                             "weight": c["weight"], "tag": f"t{i}", "params": []})
    if perturb:
        g2 = torch.Generator().manual_seed(seed + 7919)
        with torch.no_grad():
            for t in T.learnables(w).values():
                t.add_(0.25 * torch.randn(t.shape, generator=g2))   # complex kernels: real part shifted
    return w


def _build(spec, perturb=False):
    if spec.get("family") == "fno":
        return _build_fno_world(spec, perturb)
    T._build_model = _build_model_ext
    try:
        return T.build(spec, perturb=perturb)
    finally:
        T._build_model = _ORIG_BUILD_MODEL


class _Recorder(pl.Callback):
    """placed AFTER the library callbacks: copies the checkpoint whenever its content changed and
    records the watched model at the start of every batch"""

    def __init__(self, directory, model):
        self.dir, self.model = directory, model
        self.last = None
        self.copies = []          # (global_step, batch_idx, path)
        self.at_batch_start = {}  # batch_idx -> state dict copy
        self.logged = {}          # batch_idx -> logged train/loss seen at batch start

    def on_train_batch_start(self, trainer, pl_module, batch, batch_idx, dataloader_idx=0):
        self.at_batch_start[batch_idx] = _state_copy(self.model)
        v = trainer.logged_metrics.get("train/loss")
        self.logged[batch_idx] = None if v is None else float(v)

    def on_train_batch_end(self, trainer, pl_module, outputs, batch, batch_idx, dataloader_idx=0):
        p = os.path.join(self.dir, "state.ckpt")
        if not os.path.exists(p):
            return
        with open(p, "rb") as f:
            data = f.read()
        if data != self.last:
            self.last = data
            q = os.path.join(self.dir, f"copy_{len(self.copies)}.ckpt")
            with open(q, "wb") as f:
                f.write(data)
            self.copies.append((int(trainer.global_step), int(batch_idx), q))


def _probe(mspec, gen):
    import torchphysics as tp
    if mspec["arch"] == "FNO":
        x = torch.rand((3, mspec["res"], _fno_in_dim(mspec["in"])), generator=gen)
        return tp.spaces.Points(x, _fno_in_space(mspec["in"]))
    x = torch.rand((5, T._in_dim(mspec["in"])), generator=gen)
    return tp.spaces.Points(x, T._in_space(mspec["in"]))


def _eval_outputs(model, probe):
    """outputs in eval mode (batch norm: running statistics are used and left unchanged); the
    train/eval flag of every submodule is put back"""
    modes = [(mod, mod.training) for mod in model.modules()]
    model.eval()
    try:
        with torch.no_grad():
            return model(probe).as_tensor.clone()
    finally:
        for mod, flag in modes:
            mod.training = flag


def _state_copy(model):
    return {k: v.detach().clone() for k, v in model.state_dict().items()}


def _real(t):
    """complex tensors (FNO kernels and their optimizer state) as (re, im) pairs"""
    return torch.view_as_real(t) if torch.is_tensor(t) and t.is_complex() else t


def _real_view(view):
    if view is None:
        return None
    state = {role: (None if stt is None else {k: _real(v) for k, v in stt.items()})
             for role, stt in view["state"].items()}
    return dict(view, state=state)


def _buffers(w):
    """role -> buffer of the models (batch-norm running statistics)"""
    return {f"model{i}.{n}": b for i, m in enumerate(w.models) for n, b in m.named_buffers()}


def _bitwise(a, b):
    """equal values, NaN treated as equal to NaN (a diverged training still has to round-trip)"""
    if not (torch.is_tensor(a) and torch.is_tensor(b)) or a.shape != b.shape or a.dtype != b.dtype:
        return False
    if torch.equal(a, b):
        return True
    if not (a.is_floating_point() or a.is_complex()):
        return False
    a, b = _real(a), _real(b)
    return torch.equal(torch.isnan(a), torch.isnan(b)) and \
        torch.equal(torch.nan_to_num(a, nan=0.0), torch.nan_to_num(b, nan=0.0))


def _same_state(sd_a, sd_b):
    if list(sd_a.keys()) != list(sd_b.keys()):
        return False
    return all(_bitwise(sd_a[k], sd_b[k]) for k in sd_a)


def _tol(ref):
    m = float(ref.detach().abs().max()) if ref.numel() and bool(torch.isfinite(ref).all()) else 1.0
    return T.TOL * max(1.0, m)


def run_case(spec, ctx):
    tmp = tempfile.mkdtemp(prefix="verif-c19-", dir="/tmp")
    try:
        return _run(spec, ctx, tmp)
    finally:
        shutil.rmtree(tmp, ignore_errors=True)


def _run(spec, ctx, tmp):
    N, c, ws = spec["steps"], spec["ckpt_interval"], spec["ws"]
    reported = set()

    def report(kind, feat, detail):
        if (kind, feat) not in reported:
            reported.add((kind, feat))
            ctx.violation(kind, feat, detail)

    # ---- uninterrupted run
    with ctx.lib("construct"):
        w = _build(spec)
        solver = T.make_solver(w)
    mi = ws["model"] % len(w.models)
    mspec = spec["models"][mi]
    watched = w.models[mi]
    probe = _probe(mspec, torch.Generator().manual_seed(int(spec["rng"]) + 1))
    sd_before = _state_copy(watched)
    out_before = _eval_outputs(watched, probe)
    rec = _Recorder(tmp, watched)
    with ctx.lib("construct-callbacks"):
        callbacks = [TrainerStateCheckpoint(tmp, "state", check_interval=c, weights_only=False),
                     WeightSaveCallback(watched, tmp, "w", ws["interval"],
                                        save_initial_model=ws["init"], save_final_model=ws["final"]),
                     rec]
    with ctx.lib("fit-uninterrupted"):
        trainer = T.make_trainer(N, callbacks=callbacks)
        trainer.fit(solver)
    tensors = T.learnables(w)
    final = T.snapshot(tensors)
    view = _real_view(T.trainer_view(trainer, tensors))
    final_buffers = T.snapshot(_buffers(w))
    sd_after = _state_copy(watched)
    out_after = _eval_outputs(watched, probe)
    if trainer.global_step != N:
        report("step-count", "uninterrupted", f"global_step={trainer.global_step} for max_steps={N}")

    # ---- crash-point enumeration
    if N >= c and not rec.copies:
        report("no-checkpoint-written", "trainer-state", f"no checkpoint file after {N} steps, interval {c}")
    worst = 0.0
    steps_k = []
    reachable = T.trained_roles(w)
    for k, batch_idx, path in rec.copies:
        steps_k.append(k)
        with ctx.lib("construct-for-resume"):
            w2 = _build(spec, perturb=True)
            solver2 = T.make_solver(w2)
        t2 = T.learnables(w2)
        with ctx.lib("resume", feature="weights-and-state"):
            tr2 = T.make_trainer(N)
            tr2.fit(solver2, ckpt_path=path)
            view2 = _real_view(T.trainer_view(tr2, t2))
        pos = "last-step" if k >= N else "mid-run"
        if tr2.global_step != N:
            report("step-count", "resumed-" + pos, f"resumed from step {k}: global_step={tr2.global_step}, expected {N}")
        for role, t in t2.items():
            if role not in reachable:
                continue     # built by the generator but handed to no condition: not part of the Solver
            d = T.maxdiff(_real(t), _real(final[role]))
            worst = max(worst, d)
            if d > _tol(final[role]):
                report("resume-mismatch", T.role_kind(role),
                       f"{role}: resumed from step {k} of {N} (interval {c}) differs from the uninterrupted run "
                       f"by {d:.3e}; opt={spec['opt']['kind']} sched={spec['sched']}")
        trained_models = {info["model"] for info in w2.train_info if info["type"] != "param"}
        for role, b in _buffers(w2).items():
            if int(role[len("model"):role.index(".")]) not in trained_models or role not in final_buffers:
                continue
            ref = final_buffers[role]
            d = T.maxdiff(b, ref)
            worst = max(worst, d)
            if d > (_tol(ref) if ref.is_floating_point() else 0.0):
                report("resume-mismatch", "model-buffers",
                       f"{role}: resumed from step {k} of {N} (interval {c}) differs from the uninterrupted run "
                       f"by {d:.3e}")
        if view is not None and view2 is not None:
            for what, role, detail in T.compare_views(view2, view):
                if what == "lr":
                    report("resume-lr-mismatch", role, f"resumed from step {k} of {N}: {detail}")
                else:
                    report("resume-optimizer-mismatch", T.role_kind(role) if role in t2 else role,
                           f"resumed from step {k} of {N}: {role}: {detail}")
        elif (view is None) != (view2 is None):
            report("optimizer-count", "resumed", "number of optimizers differs between the runs")

    # ---- weight files
    ref_keys = list(sd_before.keys())

    def read(which):
        """content of the file if it has exactly the entries of the model's state_dict, else None"""
        with ctx.lib("read-" + which, feature=which):
            sd = torch.load(os.path.join(tmp, f"w_{which}.pt"), weights_only=True)
        if not isinstance(sd, dict):
            report("weight-file-keys", which + "-not-a-state-dict", f"w_{which}.pt holds a {type(sd).__name__}")
            return None
        missing = [k for k in ref_keys if k not in sd]
        unexpected = [k for k in sd if k not in ref_keys]
        if missing:
            shared = len(ref_keys) - len({id(v) for v in watched.state_dict(keep_vars=True).values()})
            report("weight-file-keys", which + "-missing-entries",
                   f"w_{which}.pt lacks {missing[:6]} of the {len(ref_keys)} state_dict entries of the model "
                   f"({len(list(watched.named_parameters()))} named parameters, "
                   f"{len(list(watched.named_buffers()))} buffers, {shared} repeated entries): it cannot be "
                   f"loaded into a freshly built identical model")
        if unexpected:
            report("weight-file-keys", which + "-unexpected-entries",
                   f"w_{which}.pt has entries {unexpected[:6]} that the model's state_dict does not have")
        return None if (missing or unexpected) else sd

    def load_into_fresh(which, sd):
        """eval-mode outputs and state of a fresh (differently initialised) model after a strict load"""
        with ctx.lib("load-" + which, feature=which):
            fresh = _build(spec, perturb=True).models[mi]
            fresh.load_state_dict(sd, strict=True)
        return _state_copy(fresh), _eval_outputs(fresh, probe)

    files = {n: os.path.exists(os.path.join(tmp, "w_" + n + ".pt")) for n in ("init", "final", "min_loss")}
    for which, flag, sd_ref, out_ref in (("init", ws["init"], sd_before, out_before),
                                         ("final", ws["final"], sd_after, out_after)):
        if not flag:
            if files[which]:
                report("unexpected-file", which, f"w_{which}.pt was written although its flag is False")
            continue
        if not files[which]:
            report("missing-file", which, f"w_{which}.pt was not written (N={N})")
            continue
        sd = read(which)
        if sd is None:
            continue
        sd_loaded, out = load_into_fresh(which, sd)
        if not _same_state(sd_ref, sd) or not _same_state(sd_ref, sd_loaded):
            report("weight-file-mismatch", which,
                   f"w_{which}.pt does not hold the model's state {'before' if which == 'init' else 'after'} training")
        elif not _bitwise(out, out_ref):
            report("weight-file-mismatch", which + "-outputs", "loaded model does not reproduce the outputs bitwise")
    checked = [b for b in range(1, N) if ws["interval"] > 0 and (b - 1) % ws["interval"] == 0]
    if ws["interval"] <= 0:
        if files["min_loss"]:
            report("unexpected-file", "min_loss", "w_min_loss.pt written with a negative check interval")
    elif files["min_loss"]:
        sd = read("min_loss")
        if sd is not None:
            sd, _out = load_into_fresh("min_loss", sd)
        hits = [b for b, s in sorted(rec.at_batch_start.items())
                if sd is not None and b > 0 and _same_state(s, sd)]
        if sd is None:
            pass
        elif not hits:
            report("weight-file-mismatch", "min_loss",
                   f"w_min_loss.pt equals the model state at the start of no batch > 0 (interval {ws['interval']}, N={N})")
        elif not any(b in checked for b in hits):
            report("weight-file-mismatch", "min_loss-unchecked-step",
                   f"w_min_loss.pt holds the state of batch start(s) {hits}, checked batches are {checked}")
        else:
            # informational: is it the running minimum of the logged loss over the checked steps?
            best, arg = float("inf"), None
            for b in checked:
                v = rec.logged.get(b)
                if v is not None and v < best:
                    best, arg = v, b
            ctx.event("min-loss-file-is-running-minimum" if arg in hits else "min-loss-file-other-checked-step")
    elif checked and all(rec.logged.get(b) is not None and rec.logged[b] == rec.logged[b] for b in checked):
        report("missing-file", "min_loss", f"w_min_loss.pt missing although batches {checked} were checked")

    # ---- classification
    trained_param = any(r.startswith("param") for r in T.trained_roles(w))
    stateful = T.has_optimizer_state(spec) or spec["sched"] is not None or trained_param
    finite = T.all_finite(final)
    if not finite:
        ctx.event("nonfinite-final-state")
    mid = [k for k in steps_k if 1 < k < N]
    ctx.event("crash-points", len(steps_k))
    ctx.event("crash-points-mid-run", len(mid))
    ctx.event("resume-bitwise-equal" if worst == 0.0 else "resume-differs")
    classes = T.classes_of(spec) + [f"ckpt-interval:{c}", f"ws-interval:{ws['interval']}",
                                   f"crash-points:{min(len(steps_k), 5)}{'+' if len(steps_k) > 5 else ''}"]
    if trained_param:
        classes.append("trained-parameter")
    if any(info["adaptive"] is not None for info in w.train_info):
        classes.append("adaptive-weights")
    classes.append("family:" + spec.get("family", "pinn"))
    for m in spec["models"]:
        if m.get("adaptive"):
            classes.append("activation:adaptive-" + m["adaptive"])
        if m.get("bn"):
            classes.append("fno-batchnorm")
    n_sd, n_np = len(ref_keys), len(list(watched.named_parameters()))
    classes.append("watched:state_dict>named_parameters" if n_sd > n_np else "watched:state_dict==named_parameters")
    if any(True for _ in watched.named_buffers()):
        classes.append("watched:has-buffers")
    if n_sd - len(list(watched.named_buffers())) > n_np:
        classes.append("watched:shared-parameter")
    for n, present in files.items():
        if present:
            classes.append("file:" + n)
    return {"nontrivial": bool(finite and mid and stateful), "classes": classes,
            "summary": {"steps": N, "interval": c, "resumed_from": steps_k, "max_resume_diff": worst,
                        "files": sorted(n for n, p in files.items() if p)}}


def finish(ctx):
    return {"crash_points_enumerated": int(ctx.events.get("crash-points", 0)),
            "crash_points_mid_run": int(ctx.events.get("crash-points-mid-run", 0))}
