"""C04 - a condition's loss is reduce(error(residual)) on exactly its sampled points.

A case is a JSON description of one condition: its kind, the variables, the (analytic) model and
the order of its input space, the sampler tree, the by-name signature of the residual function,
data functions, learnable parameter, error/reduce functions, weight and the number of forward
calls.  The harness builds the real objects, wraps every sampler / data loader in a recording
subclass, hands the condition a spy residual that stores every argument it receives (and takes
torch.autograd.grad of outputs w.r.t. coordinates inside), calls the condition the way the Solver
does and recomputes everything independently from the recorded points in float64.
"""
import math

import torch
from hypothesis import strategies as st

from torchphysics.models import FCN, DeepONet, FCBranchNet, FCTrunkNet, Parameter
from torchphysics.models.deeponet.branchnets import BranchNet
from torchphysics.models.deeponet.layers import TrunkLinear
from torchphysics.models.deeponet.trunknets import TrunkNet
from torchphysics.models.model import Model
from torchphysics.problem import conditions as tpc
from torchphysics.problem.conditions.condition import SquaredError
from torchphysics.problem.domains import Interval, Parallelogram
from torchphysics.problem.domains.functionsets import CustomFunctionSet
from torchphysics.problem.samplers import (DataSampler, GridSampler, PointSampler,
                                           RandomUniformSampler)
from torchphysics.problem.spaces import FunctionSpace, Points, Space
from torchphysics.utils import DeepONetDataLoader, PointsDataLoader

PROPERTY = "C04"
RULE = ("Hypothesis draws a condition kind (PINN, Mean, DeepRitz, SingleModule with generated "
        "error/reduce functions, AdaptiveWeights, HPM_EquationLoss_at_Sampler, Periodic, IntegroPINN, "
        "PIDeepONet, Data, DeepONetData, HPM_EquationLoss_at_DataPoints, Parameter); 1-3 input "
        "variables of dim 1-2 and 1-2 output variables; an analytic Model (affine + quadratic + "
        "sine with coefficients k/8, closed-form Jacobian; reads its input by name or through "
        "_fix_points_order) or a real FCN / FC-DeepONet (routing only), the model's input space a "
        "drawn permutation of the sampler's variable order; a sampler tree of Data/Grid/Random "
        "leaves joined by * (second factor supplies parameter variables, optionally a domain bound "
        "depending on them) or .append, static or not (optionally with a resample interval); a "
        "residual signature = drawn subset and order of the available names, some with defaults, "
        "optionally an extra defaulted name; 0-3 data functions with by-name signatures; a "
        "learnable Parameter (one variable, or two joined); 1-3 residual components; weight; 1-3 "
        "forward calls (data kinds 1-4) whose iteration arguments follow a drawn schedule: the "
        "Solver's training numbering 0,1,2,.., the default None in every call (validation / manual "
        "evaluation), a non-decreasing numbering with repeats, or a free mix of None and numbers. "
        "PIDeepONet: 1-2 function sets (static or not) over a parameter k, in half of the cases the "
        "sampler leaf that carries t (the variable the input functions live on) is random and the "
        "function-set outputs are forced into the residual signature. Data kinds: norm 1/2/3/'inf', root, per "
        "batch or full data set, constrain_fn, shuffled recording loaders. Oracles: spied "
        "coordinates bitwise equal the recorded sampler/loader output of this call (one draw per "
        "call), every other spied argument equals the closed-form model output / parameter / data "
        "function / function-set value OF THE SAME ROWS of THIS call (1e-5; function sets: the "
        "functions of the parameters last drawn from the recorded parameter sampler), autograd derivatives inside the "
        "residual equal the closed-form Jacobian (1e-4), forward() equals the documented reduction "
        "of the residual recomputed in float64 (1e-5), cond.weight is the given weight. "
        "Non-trivial: model input order differs from the sampler order, or >=2 data functions, or "
        "a multi-component residual, or parameter variables from a sampler product, or a non-PINN "
        "kind; distinct = spec hash without the rng seed.")
ASSUMPTIONS = [
    "conditions are called like Solver.training_step does, cond(device='cpu', iteration=k), or "
    "like Solver.validation_step / a manual evaluation does, cond(device='cpu') (iteration stays "
    "None); the same condition may be called several times with the same iteration value and every "
    "call must use the rows sampled in that call (one sampler draw per call for non-static samplers)",
    "DeepONet conditions draw new function-set parameters once per iteration NUMBER "
    "(DeepONet._forward_branch): a call whose iteration argument equals that of the previous call "
    "may keep the function batch (0 or 1 draws of a non-static parameter sampler accepted), every "
    "other call must draw exactly once; the expected branch input and function-set values are "
    "always those of the last recorded parameters; iteration -1 (the initial marker of a "
    "FunctionSet) is never passed",
    "every condition gets its own fresh dict of data functions (the write-back of "
    "_setup_data_functions into the caller's dict belongs to C14)",
    "float32 library values against float64 recomputation: |a-b| <= 1e-5*max(|b|, scale) + "
    "1e-6*scale (scale = magnitude of the terms), derivatives 1e-4; coordinates, parameters and "
    "defaults are compared bitwise",
    "DataCondition(use_full_dataset=True) is taken as documented by its formula (and by C16): the "
    "mean over the batches of one pass of the per-batch mean of |model-target|^p (max for 'inf'), "
    "then the root; ragged last batches are only counted (event full-dataset-ragged)",
    "HPM_EquationLoss_at_DataPoints: per batch reduce(error(residual))**norm, then the root "
    "(docstring: 'the result will be taken to the n-th potency')",
    "targets of data conditions are handed in the model's output space (order included), as the "
    "docstring demands; the inputs may be in any order",
    "IntegroPINNCondition: point axis first, integral axis second ((N,1,d), (1,M,d), (N,M,k)), the "
    "shapes under which the arguments broadcast to the (point x integral point) mesh",
    "PIDeepONetCondition: function axis first (F,N,.), as documented by create_function_batch; "
    "with a static input sampler the pre-evaluated (N,k) data-function values are accepted in "
    "place of (F,N,k) (they broadcast identically). The loss that equals the mean over functions "
    "and components of the SUM over points gets its own signature (|sum-over-points), any other "
    "deviation the plain loss-value signature",
    "a sampler tree that raises when sampled on its own (defects of C01/C02) makes the case "
    "inconclusive (event sampler-unusable); DataSampler is never the first factor of a product "
    "(known D12); GridSampler only on single Interval/Parallelogram leaves; no density sampling, "
    "no adaptive samplers (C15)",
    "AdaptiveWeightsCondition: the harness overwrites the adaptive weights with drawn positive "
    "values (stands for training) and expects mean(w * error)",
    "PeriodicCondition: constant interval bounds (multiples of 0.25)",
]
BUDGET = {"quick": {"examples": 400, "workers": 4},
          "thorough": {"examples": 2500, "workers": 14}}

SAMPLER_KINDS = ["PINNCondition", "MeanCondition", "DeepRitzCondition", "SingleModuleCondition",
                 "AdaptiveWeightsCondition", "HPM_EquationLoss_at_Sampler"]
KINDS = SAMPLER_KINDS + ["PeriodicCondition", "IntegroPINNCondition", "PIDeepONetCondition",
                         "DataCondition", "DeepONetDataCondition",
                         "HPM_EquationLoss_at_DataPoints", "ParameterCondition"]
KIND_WEIGHTS = {"PINNCondition": 4, "PeriodicCondition": 3, "IntegroPINNCondition": 3,
                "PIDeepONetCondition": 3, "DataCondition": 3, "SingleModuleCondition": 2,
                "DeepONetDataCondition": 2}
ERRS = ["sq", "abs", "id", "p4"]
REDS = ["mean", "sum", "max", "wsum"]
RANGES = {"x": (-1.0, 2.0), "t": (0.0, 1.5), "p": (0.5, 2.0), "y": (-2.0, -0.5), "k": (0.5, 2.0)}
EXTRA = "zz"
RTOL, AFLOOR, DTOL = 1e-5, 1e-6, 1e-4


# ====================================================================== generator
@st.composite
def _in_vars(draw, kmin=1, kmax=3):
    k = draw(st.integers(kmin, kmax))
    names = list(draw(st.permutations(["x", "t", "p", "y"])))[:k]
    return [[n, draw(st.sampled_from([1, 1, 2])) if n in ("x", "p") else 1] for n in names]


@st.composite
def _out_vars(draw):
    out = [["u", draw(st.sampled_from([1, 1, 2]))]]
    if draw(st.booleans()):
        out.append(["v", 1])
        if draw(st.booleans()):
            out.reverse()
    return out


@st.composite
def _model(draw, k):
    return {"type": draw(st.sampled_from(["analytic", "analytic", "analytic", "real"])),
            "fix": draw(st.booleans()),
            "perm": list(draw(st.permutations(list(range(k)))))}


@st.composite
def _leaf(draw, vs, allow_data=True, nmax=5):
    types = ["random"]
    if allow_data:
        types += ["data", "data"]
    if len(vs) == 1:
        types += ["grid", "grid"]
    return {"type": draw(st.sampled_from(types)), "vars": [list(v) for v in vs],
            "n": draw(st.integers(1, nmax)), "dict": draw(st.booleans())}


@st.composite
def _sampler(draw, vs, static=None):
    """Sampler tree over the variables vs (in this order: first group, then second group)."""
    spec = {"static": draw(st.booleans()) if static is None else static,
            "resample": draw(st.sampled_from([0, 0, 0, 0, 2, 3]))}
    if len(vs) >= 2 and draw(st.booleans()):
        cut = draw(st.integers(1, len(vs) - 1))
        comb = draw(st.sampled_from(["product", "product", "append"]))
        a = draw(_leaf(vs[:cut], allow_data=(comb == "append")))
        b = draw(_leaf(vs[cut:]))
        if comb == "append":
            b["n"] = a["n"]
        spec.update(groups=[a, b], combine=comb)
        pb = [v for v in vs[cut:] if v[1] == 1]
        spec["dep"] = bool(comb == "product" and pb and vs[0][1] == 1 and a["type"] != "data"
                           and draw(st.sampled_from([False, False, True])))
    else:
        spec.update(groups=[draw(_leaf(vs, nmax=7))], combine="single", dep=False)
    return spec


@st.composite
def _signature(draw, rows, others, force_all=()):
    """rows: names that carry rows; others: parameters / broadcast names."""
    names = list(draw(st.permutations(list(rows) + list(others))))
    keep = [n for n in names if n in force_all or draw(st.booleans())]
    if not any(n in rows for n in keep):
        keep.append(draw(st.sampled_from(sorted(rows))))
    dflt = [n for n in keep if draw(st.sampled_from([False, False, False, True]))]
    spec = {"names": keep, "defaults": dflt,
            "extra": draw(st.sampled_from([False, False, True]))}
    return spec


@st.composite
def _datafns(draw, coord_names, kmax=3):
    k = draw(st.sampled_from([0, 0, 1, 1, 2, 3][:kmax + 3]))
    fns = []
    for i in range(k):
        args = list(draw(st.permutations(list(coord_names))))
        args = args[:draw(st.integers(1, len(args)))]
        fns.append({"name": f"f{i + 1}", "args": args, "dim": draw(st.sampled_from([1, 1, 2])),
                    "extra": draw(st.sampled_from([False, False, True]))})
    return fns


@st.composite
def _param(draw):
    c = draw(st.sampled_from(["none", "none", "none", "one", "one", "one", "one", "one", "one", "two"]))
    if c == "none":
        return None
    if c == "one":
        return [["D", draw(st.sampled_from([1, 1, 2]))]]
    return [["D", 1], ["E", draw(st.sampled_from([1, 2]))]]


def _pnames(param):
    return [n for n, _ in (param or [])]


@st.composite
def _its(draw):
    """iteration argument of the successive forward calls (used cyclically): the Solver's
    training numbering 0,1,2,.., the default None of every call (Solver.validation_step / manual
    evaluation), a non-decreasing numbering with repeats, or a free mixture of both."""
    mode = draw(st.sampled_from(["inc", "inc", "none", "repeat", "repeat", "free"]))
    if mode == "inc":
        return [0, 1, 2, 3]
    if mode == "none":
        return [None] * 4
    if mode == "repeat":
        out = [draw(st.integers(0, 3))]
        for _ in range(3):
            out.append(out[-1] + draw(st.sampled_from([0, 0, 1])))
        return out
    return [draw(st.sampled_from([None, None, 0, 1, 2, 7])) for _ in range(4)]


@st.composite
def _common(draw, kind):
    return {"kind": kind, "rng": draw(st.integers(0, 2 ** 31 - 1)),
            "m": draw(st.sampled_from([1, 1, 2, 3])),
            "weight": draw(st.sampled_from([1.0, 0.5, 2.0, 10.0])),
            "iters": draw(st.sampled_from([1, 2, 2, 3])),
            "its": draw(_its()),
            "nderiv": draw(st.integers(0, 2))}


@st.composite
def _errred(draw, optional=True, rowwise=False):
    errs = [e for e in ERRS if not (rowwise and e == "id")]
    e = draw(st.sampled_from((["default"] if optional else []) + errs))
    r = draw(st.sampled_from((["default"] if optional else []) + REDS))
    return e, r


@st.composite
def _sampler_case(draw, kind):
    spec = draw(_common(kind))
    vs = draw(_in_vars())
    spec["vars"] = vs
    spec["out"] = draw(_out_vars())
    spec["model"] = draw(_model(len(vs)))
    spec["sampler"] = draw(_sampler(vs, static=True if kind == "AdaptiveWeightsCondition" else None))
    if kind == "AdaptiveWeightsCondition":
        spec["sampler"]["resample"] = 0
    spec["param"] = draw(_param())
    coords = [v[0] for v in vs]
    spec["datafns"] = draw(_datafns(coords))
    hpm = kind == "HPM_EquationLoss_at_Sampler"
    outs = [] if hpm else [o[0] for o in spec["out"]]
    spec["sig"] = draw(_signature(coords + outs + [f["name"] for f in spec["datafns"]],
                                  _pnames(spec["param"]),
                                  force_all=coords if hpm and draw(st.booleans()) else ()))
    if kind == "SingleModuleCondition":
        spec["err"], spec["red"] = draw(_errred(optional=False))
    elif kind == "AdaptiveWeightsCondition":
        spec["err"], spec["red"] = draw(_errred(rowwise=True))[0], "default"
    elif hpm:
        spec["err"], spec["red"] = draw(_errred())
    return spec


@st.composite
def _periodic_case(draw):
    spec = draw(_common("PeriodicCondition"))
    rest = draw(_in_vars(0, 2))
    rest = [v for v in rest if v[0] != "x"]
    spec["vars"] = rest + [["x", 1]]          # x is appended by left_sampler * non_periodic
    spec["out"] = draw(_out_vars())
    spec["model"] = draw(_model(len(spec["vars"])))
    spec["sampler"] = draw(_sampler(rest)) if rest else None
    spec["interval"] = [draw(st.integers(-8, 4)) / 4.0, draw(st.integers(1, 8)) / 4.0]
    spec["param"] = draw(_param())
    coords = [v[0] for v in spec["vars"]]
    spec["datafns"] = draw(_datafns(coords))
    rows = [v[0] for v in rest] + ["x_left", "x_right"]
    for o in spec["out"]:
        rows += [o[0] + "_left", o[0] + "_right"]
    for f in spec["datafns"]:
        rows += [f["name"] + "_left", f["name"] + "_right"]
    spec["sig"] = draw(_signature(rows, _pnames(spec["param"])))
    spec["err"], spec["red"] = draw(_errred())
    return spec


@st.composite
def _integro_case(draw):
    spec = draw(_common("IntegroPINNCondition"))
    vs = draw(_in_vars())
    spec["vars"] = vs
    spec["out"] = draw(_out_vars())
    spec["model"] = draw(_model(len(vs)))
    spec["sampler"] = draw(_sampler(vs))
    iv = list(draw(st.permutations(vs)))[:draw(st.integers(1, max(1, len(vs) - 1)))]
    spec["ivars"] = [list(v) for v in iv]
    spec["isampler"] = draw(_sampler(spec["ivars"]))
    spec["isampler"]["dep"] = False
    spec["param"] = draw(_param())
    coords = [v[0] for v in vs]
    spec["datafns"] = draw(_datafns(coords, kmax=2))
    rows = coords + [o[0] for o in spec["out"]] + [f["name"] for f in spec["datafns"]]
    rows += [v[0] + "_integral" for v in iv] + [o[0] + "_integral" for o in spec["out"]]
    spec["sig"] = draw(_signature(rows, _pnames(spec["param"])))
    spec["err"], spec["red"] = draw(_errred())
    return spec


@st.composite
def _pideeponet_case(draw):
    spec = draw(_common("PIDeepONetCondition"))
    vs = [["t", 1]]
    if draw(st.booleans()):
        vs.append(["x", draw(st.sampled_from([1, 2]))])
        if draw(st.booleans()):
            vs.reverse()
    spec["vars"] = vs
    spec["out"] = draw(_out_vars())
    spec["model"] = draw(_model(len(vs)))
    spec["q"] = draw(st.integers(1, 3))
    spec["sampler"] = draw(_sampler(vs))
    spec["sampler"]["dep"] = False
    if draw(st.booleans()):
        # the input functions live on t: fresh random t rows in every call (a Grid/Data leaf
        # returns the same t rows each time, which hides stale function-set values)
        for g in spec["sampler"]["groups"]:
            if any(v[0] == "t" for v in g["vars"]):
                g["type"] = "random"
    spec["fout"] = [["f", draw(st.sampled_from([1, 1, 2]))]]
    if draw(st.sampled_from([False, False, True])):
        spec["fout"].append(["g", 1])
    spec["fparam"] = ["k", draw(st.sampled_from([1, 2]))]
    spec["fsets"] = [{"n": draw(st.integers(1, 3)), "type": draw(st.sampled_from(["data", "grid", "random"])),
                      "static": draw(st.booleans())}
                     for _ in range(draw(st.sampled_from([1, 1, 2])))]
    for fs in spec["fsets"]:
        if fs["type"] == "grid" and spec["fparam"][1] == 2:
            fs["type"] = "random"
    spec["ndisc"] = draw(st.integers(2, 4))
    spec["param"] = draw(_param())
    coords = [v[0] for v in vs]
    spec["datafns"] = draw(_datafns(coords, kmax=2))
    rows = coords + [o[0] for o in spec["out"]] + [f["name"] for f in spec["datafns"]]
    rows += [f[0] for f in spec["fout"]]
    spec["sig"] = draw(_signature(rows, _pnames(spec["param"]),
                                  force_all=[f[0] for f in spec["fout"]] if draw(st.booleans()) else ()))
    return spec


@st.composite
def _norm(draw):
    return {"norm": draw(st.sampled_from([1, 2, 2, 3, "inf"])),
            "root": draw(st.sampled_from([1.0, 1.0, 2.0, 3.0])),
            "full": draw(st.booleans())}


@st.composite
def _data_case(draw, kind):
    spec = draw(_common(kind))
    vs = draw(_in_vars())
    spec["vars"] = vs
    spec["out"] = draw(_out_vars())
    spec["model"] = draw(_model(len(vs)))
    spec["ndata"] = draw(st.integers(1, 9))
    spec["batch"] = draw(st.integers(1, spec["ndata"] + 1))
    spec["shuffle"] = draw(st.booleans())
    spec.update(draw(_norm()))
    coords = [v[0] for v in vs]
    if kind == "DataCondition":
        outs = [o[0] for o in spec["out"]]
        spec["sig"] = (draw(_signature(outs + coords, [], force_all=outs))
                       if draw(st.booleans()) else None)
        spec["param"] = None
    else:
        spec["param"] = draw(_param())
        spec["sig"] = draw(_signature(coords, _pnames(spec["param"]),
                                      force_all=coords if draw(st.booleans()) else ()))
        spec["err"], spec["red"] = draw(_errred(rowwise=True))
    spec["iters"] = draw(st.integers(1, 4))
    return spec


@st.composite
def _deeponet_data_case(draw):
    spec = draw(_common("DeepONetDataCondition"))
    vs = [["t", 1]]
    if draw(st.booleans()):
        vs.append(["x", draw(st.sampled_from([1, 2]))])
        if draw(st.booleans()):
            vs.reverse()
    spec["vars"] = vs
    spec["out"] = draw(_out_vars())
    spec["model"] = draw(_model(len(vs)))
    spec["q"] = draw(st.integers(1, 3))
    spec["fout"] = [["f", draw(st.sampled_from([1, 2]))]]
    spec["ndisc"] = draw(st.integers(2, 4))
    spec["nfun"] = draw(st.integers(1, 4))
    spec["ntrunk"] = draw(st.integers(1, 5))
    spec["unique"] = draw(st.booleans())
    spec["bbatch"] = draw(st.integers(1, spec["nfun"]))
    spec["tbatch"] = draw(st.integers(1, spec["ntrunk"]))
    spec["shuffle"] = [draw(st.booleans()), draw(st.booleans())]
    spec.update(draw(_norm()))
    outs = [o[0] for o in spec["out"]]
    spec["sig"] = (draw(_signature(outs + [v[0] for v in vs], [], force_all=outs))
                   if draw(st.booleans()) else None)
    spec["param"] = None
    spec["iters"] = draw(st.integers(1, 3))
    return spec


@st.composite
def _parameter_case(draw):
    spec = draw(_common("ParameterCondition"))
    spec["param"] = draw(_param().filter(lambda p: p is not None))
    spec["sig"] = draw(_signature(_pnames(spec["param"]), []))
    return spec


def _case(kind):
    if kind in SAMPLER_KINDS:
        return _sampler_case(kind)
    return {"PeriodicCondition": _periodic_case, "IntegroPINNCondition": _integro_case,
            "PIDeepONetCondition": _pideeponet_case,
            "DeepONetDataCondition": _deeponet_data_case,
            "ParameterCondition": _parameter_case}.get(kind, lambda: _data_case(kind))()


def _train_start(spec, cond, it):
    """what Solver.on_train_start does with every condition before the first training step (move
    pre-evaluated static data to the training device); done before the second forward call of
    every second case (pinned cases may say "train_start": true/false), so the first call checks
    the freshly built condition and the later ones the condition as it is during training"""
    do = spec.get("train_start")
    do = int(spec.get("rng", 0)) % 2 == 0 if do is None else bool(do)
    if it == 1 and do and hasattr(cond, "_move_static_data"):
        cond._move_static_data("cpu")


def _schedule(spec):
    """iteration argument of every forward call of the case; specs without "its" use the
    Solver's training numbering 0, 1, 2, ..."""
    n, its = int(spec["iters"]), spec.get("its")
    if not its:
        return list(range(n))
    return [its[i % len(its)] for i in range(n)]


def _forward(cond, itv):
    """Solver.training_step: cond(device=, iteration=n_training_step);
    Solver.validation_step / manual evaluation: cond(device=) (iteration stays None)"""
    if itv is None:
        return cond(device="cpu")
    return cond(device="cpu", iteration=int(itv))


def _sched_class(spec):
    sched = _schedule(spec)
    cl = []
    if any(v is None for v in sched):
        cl.append("iteration:default-None")
    if any(a == b for a, b in zip(sched, sched[1:])):
        cl.append("iteration:repeated")
    return cl or ["iteration:increasing"]


def strategy(tier):
    pool = []
    for k in KINDS:
        pool += [k] * KIND_WEIGHTS.get(k, 1)
    return st.sampled_from(pool).flatmap(_case)



def extra_cases(tier, seed):
    """One hand-written case per kind with a model input order different from the sampler's,
    defaults, data functions and a parameter - run on every invocation."""
    def grid(vs, n, static=False, resample=0):
        return {"static": static, "resample": resample, "combine": "single", "dep": False,
                "groups": [{"type": "grid", "vars": vs, "n": n, "dict": False}]}

    def prod(a, b, na, nb, static=False, comb="product", tb="data"):
        return {"static": static, "resample": 0, "combine": comb, "dep": False,
                "groups": [{"type": "random", "vars": a, "n": na, "dict": False},
                           {"type": tb, "vars": b, "n": nb, "dict": True}]}
    x2, t1, p1 = ["x", 2], ["t", 1], ["p", 1]
    fn = [{"name": "f1", "args": ["t", "x"], "dim": 2, "extra": True},
          {"name": "f2", "args": ["x"], "dim": 1, "extra": False}]
    base = {"m": 2, "weight": 2.0, "iters": 2, "nderiv": 2, "out": [["u", 2], ["v", 1]],
            "model": {"type": "analytic", "fix": True, "perm": [1, 0]}, "param": [["D", 2]]}
    cases = []
    for kind in SAMPLER_KINDS:
        hpm = kind.startswith("HPM")
        c = dict(base, kind=kind, vars=[x2, t1], sampler=prod([x2], [t1], 3, 2, static=kind.startswith("Adaptive")),
                 datafns=fn, sig={"names": (["t", "x", "f2", "D", "f1"] if hpm else ["v", "t", "f2", "u", "D", "x", "f1"]),
                                  "defaults": ["D", "f1"], "extra": True})
        if kind in ("SingleModuleCondition", "HPM_EquationLoss_at_Sampler"):
            c.update(err="abs", red="wsum")
        if kind.startswith("Adaptive"):
            c.update(err="p4", red="default")
        cases.append(c)
    cases.append(dict(base, kind="PINNCondition", vars=[t1, p1, x2], model={"type": "real", "fix": False, "perm": [2, 0, 1]},
                      sampler=prod([t1], [p1, x2], 2, 3), datafns=fn[:1],
                      sig={"names": ["x", "u", "p", "f1", "t"], "defaults": [], "extra": False}))
    cases.append(dict(base, kind="PeriodicCondition", vars=[t1, p1, ["x", 1]], model={"type": "analytic", "fix": True, "perm": [2, 0, 1]},
                      sampler=prod([t1], [p1], 2, 2, comb="append"), interval=[-0.5, 1.25],
                      datafns=[{"name": "f1", "args": ["x", "p"], "dim": 1, "extra": False}],
                      sig={"names": ["u_right", "t", "f1_left", "x_right", "v_left", "D", "x_left", "f1_right", "u_left"],
                           "defaults": ["D"], "extra": True}, err="default", red="default"))
    cases.append(dict(base, kind="IntegroPINNCondition", vars=[x2, t1], sampler=prod([x2], [t1], 2, 2, tb="grid"),
                      ivars=[t1], isampler=grid([t1], 3), datafns=fn[:1],
                      sig={"names": ["u_integral", "t", "u", "t_integral", "x", "f1", "v_integral", "D"],
                           "defaults": [], "extra": False}, err="default", red="default"))
    cases.append(dict(base, kind="PIDeepONetCondition", vars=[x2, t1], q=2, sampler=prod([x2], [t1], 2, 2, tb="grid"),
                      fout=[["f", 2], ["g", 1]], fparam=["k", 2], ndisc=3,
                      fsets=[{"n": 2, "type": "data", "static": False}, {"n": 1, "type": "random", "static": True}],
                      datafns=fn[:1], sig={"names": ["g", "u", "t", "f", "x", "f1", "v", "D"], "defaults": ["D"], "extra": True}))
    for full, norm, root in ((False, 3, 3.0), (True, "inf", 1.0), (True, 2, 2.0)):
        cases.append(dict(base, kind="DataCondition", vars=[x2, t1], ndata=5, batch=2, shuffle=True, norm=norm, root=root,
                          full=full, param=None, iters=4,
                          sig={"names": ["v", "t", "u"], "defaults": [], "extra": True} if norm != 2 else None))
        cases.append(dict(base, kind="HPM_EquationLoss_at_DataPoints", vars=[x2, t1], ndata=6, batch=3, shuffle=False,
                          norm=norm, root=root, full=full, iters=3, err="default", red="default",
                          sig={"names": ["t", "D", "x"], "defaults": ["D"], "extra": False}))
        cases.append(dict(base, kind="DeepONetDataCondition", vars=[x2, t1], q=2, fout=[["f", 2]], ndisc=3, nfun=3, ntrunk=4,
                          unique=full, bbatch=2, tbatch=2, shuffle=[True, True], norm=norm, root=root, full=full, param=None,
                          sig={"names": ["u", "x", "v"], "defaults": [], "extra": False} if norm != 2 else None))
    cases.append({"kind": "ParameterCondition", "m": 2, "weight": 0.5, "iters": 2, "nderiv": 0, "param": [["D", 2]],
                  "sig": {"names": ["D"], "defaults": ["D"], "extra": True}})
    # several forward calls with the SAME iteration argument (Solver.validation_step and manual
    # evaluation leave it at None; a numbering with repeats): every call has to work on the rows
    # sampled in that call.  PIDeepONet: non-static input sampler with a random t leaf (the input
    # functions live on t) and the function-set outputs in the residual.
    def rnd(vs, n, static=False, resample=0):
        return {"static": static, "resample": resample, "combine": "single", "dep": False,
                "groups": [{"type": "random", "vars": vs, "n": n, "dict": False}]}
    pid = dict(base, kind="PIDeepONetCondition", q=2, ndisc=3, fparam=["k", 1], datafns=[], iters=3)
    cases.append(dict(pid, vars=[t1], sampler=rnd([t1], 4), fout=[["f", 1]], out=[["u", 1]], m=1, nderiv=0,
                      model={"type": "real", "fix": False, "perm": [0]}, param=None, its=[None],
                      fsets=[{"n": 3, "type": "random", "static": False}],
                      sig={"names": ["u", "f"], "defaults": [], "extra": False}))
    cases.append(dict(pid, vars=[x2, t1], sampler=rnd([x2, t1], 3), fout=[["f", 2], ["g", 1]], fparam=["k", 2], its=[0, 0, 1],
                      fsets=[{"n": 2, "type": "data", "static": False}, {"n": 1, "type": "random", "static": True}],
                      datafns=fn[:1], sig={"names": ["g", "u", "t", "f", "x", "f1", "v", "D"], "defaults": ["D"], "extra": True}))
    cases.append(dict(pid, vars=[t1, x2], sampler=prod([t1], [x2], 2, 2), fout=[["f", 1]], its=[None, 5, 5, None], iters=4,
                      fsets=[{"n": 2, "type": "grid", "static": True}],
                      sig={"names": ["x", "f", "v", "t", "u"], "defaults": ["f"], "extra": False}))
    cases.append(dict(pid, vars=[t1], sampler=rnd([t1], 3, static=True, resample=2), fout=[["f", 1]], its=[3, 3, 3, 4], iters=4,
                      model={"type": "analytic", "fix": False, "perm": [0]},
                      fsets=[{"n": 2, "type": "random", "static": False}],
                      sig={"names": ["f", "u", "t"], "defaults": [], "extra": False}))
    for kind, its in (("PINNCondition", [None]), ("SingleModuleCondition", [2, 2, 3]), ("HPM_EquationLoss_at_Sampler", [None, 0, 0])):
        hpm = kind.startswith("HPM")
        c = dict(base, kind=kind, vars=[t1, x2], sampler=rnd([t1, x2], 3), datafns=fn, iters=3, its=its,
                 sig={"names": (["x", "f2", "t", "f1"] if hpm else ["u", "x", "f2", "t", "v", "f1"]), "defaults": [], "extra": False})
        if kind != "PINNCondition":
            c.update(err="sq", red="mean")
        cases.append(c)
    cases.append(dict(base, kind="PeriodicCondition", vars=[t1, ["x", 1]], model={"type": "analytic", "fix": False, "perm": [1, 0]},
                      sampler=rnd([t1], 3), interval=[0.25, 1.0], its=[None], iters=3,
                      datafns=[{"name": "f1", "args": ["t", "x"], "dim": 1, "extra": False}],
                      sig={"names": ["u_left", "t", "f1_right", "v_right", "f1_left"], "defaults": [], "extra": False},
                      err="default", red="default"))
    # static non-periodic sampler + data functions of the periodic variable, training started
    # between the first and the second call (Solver.on_train_start)
    cases.append(dict(base, kind="PeriodicCondition", vars=[t1, ["x", 1]], model={"type": "analytic", "fix": True, "perm": [1, 0]},
                      sampler=rnd([t1], 3, static=True), interval=[-0.5, 1.25], its=[0, 1, 1], iters=3, train_start=True,
                      datafns=[{"name": "f1", "args": ["x", "t"], "dim": 2, "extra": False},
                               {"name": "f2", "args": ["x"], "dim": 1, "extra": True}],
                      sig={"names": ["f2_right", "u_right", "f1_left", "t", "f1_right", "v_left", "f2_left"], "defaults": [], "extra": False},
                      err="default", red="default"))
    cases.append(dict(base, kind="IntegroPINNCondition", vars=[x2, t1], sampler=rnd([x2, t1], 2), its=[1, 1], iters=2,
                      ivars=[t1], isampler=rnd([t1], 3), datafns=fn[:1],
                      sig={"names": ["u_integral", "t_integral", "u", "x", "f1", "t"], "defaults": [], "extra": False},
                      err="default", red="default"))
    for i, c in enumerate(cases):
        c = dict(c)
        c["rng"] = (seed * 7919 + 31 * i) % (2 ** 31 - 1)
        yield c


# ====================================================================== harness objects
def _gen(spec, stream):
    return torch.Generator().manual_seed((int(spec["rng"]) * 131 + stream) % (2 ** 31 - 1))


def _coef(gen, shape, div=8, span=8):
    """float64 tensor of multiples of 1/div in [-span/div, span/div] (exact in float32)."""
    return torch.randint(-span, span + 1, tuple(shape), generator=gen).double() / div


def _formula(z, co):
    """a + B z + z^T C z + s sin(W z + phi), any batch shape, dtype of z."""
    a, B, C, s, W, phi = (c.to(z.dtype) for c in co)
    quad = torch.einsum("...i,kij,...j->...k", z, C, z)
    return a + z @ B.T + quad + s * torch.sin(z @ W.T + phi)


def _jacobian(z, co):
    """closed form d out_k / d z_i -> (..., K, D), float64."""
    a, B, C, s, W, phi = co
    lin = torch.einsum("kij,...j->...ki", C, z) + torch.einsum("kji,...j->...ki", C, z)
    return B + lin + (s * torch.cos(z @ W.T + phi)).unsqueeze(-1) * W


def _coefs(gen, K, D):
    return (_coef(gen, (K,)), _coef(gen, (K, D)), torch.triu(_coef(gen, (K, D, D), div=16)),
            _coef(gen, (K,)), _coef(gen, (K, D), div=4, span=6), _coef(gen, (K,), div=4))


class AnalyticModel(Model):
    """Model whose output and input derivatives are known in closed form."""

    def __init__(self, in_vars, out_vars, gen, fix):
        super().__init__(Space({n: d for n, d in in_vars}), Space({n: d for n, d in out_vars}))
        self.co = _coefs(gen, self.output_space.dim, self.input_space.dim)
        self.fix = fix
        self.gain = torch.nn.Parameter(torch.ones(()))     # something to train

    def forward(self, points):
        if self.fix:
            z = self._fix_points_order(points).as_tensor
        else:
            c = points.coordinates
            z = torch.cat([c[n] for n in self.input_space], dim=-1)
        return Points(self.gain * _formula(z, self.co), self.output_space)

    def ref(self, z64):
        return _formula(z64, self.co)

    def jac(self, z64):
        return _jacobian(z64, self.co)


def _seq_eval(seq, z):
    """nn.Sequential of Linear / TrunkLinear / activations evaluated with plain F.linear."""
    for layer in seq:
        if isinstance(layer, (torch.nn.Linear, TrunkLinear)):
            z = torch.nn.functional.linear(z, layer.weight, layer.bias)
        else:
            z = layer(z)
    return z


class _RealRef:
    """Reference for a real network: plain evaluation of its layers on harness-built input,
    Jacobian by autograd of that evaluation (float32; routing only)."""

    def __init__(self, seq):
        self.seq = seq

    def ref(self, z64):
        with torch.no_grad():
            return _seq_eval(self.seq, z64.float()).double()

    def jac(self, z64):
        z = z64.float().clone().requires_grad_(True)
        y = _seq_eval(self.seq, z)
        rows = [torch.autograd.grad(y[..., k].sum(), z, retain_graph=True)[0]
                for k in range(y.shape[-1])]
        return torch.stack(rows, dim=-2).double()


class ATrunk(TrunkNet):
    def __init__(self, in_vars, gen, copied, fix):
        super().__init__(Space({n: d for n, d in in_vars}), trunk_input_copied=copied)
        self._gen, self.fix, self.co = gen, fix, None

    def finalize(self, output_space, output_neurons):
        super().finalize(output_space, output_neurons)
        self.co = _coefs(self._gen, output_neurons, self.input_space.dim)
        self.K, self.Q = output_space.dim, output_neurons // output_space.dim
        self.gain = torch.nn.Parameter(torch.ones(()))

    def forward(self, points):
        if self.fix:
            z = self._fix_points_order(points).as_tensor
        else:
            c = points.coordinates
            z = torch.cat([c[n] for n in self.input_space], dim=-1)
        f = self.gain * _formula(z, self.co)
        return f.reshape(*z.shape[:-1], self.K, self.Q)

    def ref(self, z64):
        return _formula(z64, self.co).reshape(*z64.shape[:-1], self.K, self.Q)

    def jac(self, z64):          # (..., K, Q, D)
        return _jacobian(z64, self.co).reshape(*z64.shape[:-1], self.K, self.Q, z64.shape[-1])


class ABranch(BranchNet):
    def __init__(self, function_space, sampler, gen):
        super().__init__(function_space, sampler)
        self._gen = gen

    def finalize(self, output_space, output_neurons):
        super().finalize(output_space, output_neurons)
        self.W = _coef(self._gen, (output_neurons, self.input_dim), div=8, span=6)
        self.b = _coef(self._gen, (output_neurons,))
        self.K, self.Q = output_space.dim, output_neurons // output_space.dim

    def forward(self, discrete_function_batch, device="cpu"):
        t = discrete_function_batch.as_tensor.reshape(-1, self.input_dim)
        out = torch.tanh(0.25 * (t @ self.W.float().T)) + self.b.float()
        self.current_out = out.reshape(-1, self.K, self.Q)

    def ref(self, fb64):          # fb64 (F, nd, kf)
        t = fb64.reshape(fb64.shape[0], -1)
        return (torch.tanh(0.25 * (t @ self.W.T)) + self.b).reshape(-1, self.K, self.Q)


class _FCTrunkRef:
    def __init__(self, trunk, K, Q):
        self.r, self.K, self.Q = _RealRef(trunk.sequential), K, Q

    def ref(self, z64):
        return self.r.ref(z64).reshape(*z64.shape[:-1], self.K, self.Q)

    def jac(self, z64):
        return self.r.jac(z64).reshape(*z64.shape[:-1], self.K, self.Q, z64.shape[-1])


class _FCBranchRef:
    def __init__(self, branch, K, Q):
        self.b, self.K, self.Q = branch, K, Q

    def ref(self, fb64):
        with torch.no_grad():
            t = fb64.float().reshape(fb64.shape[0], -1)
            return _seq_eval(self.b.sequential, t).double().reshape(-1, self.K, self.Q)


class Recorder(PointSampler):
    """Delegates to a sampler and keeps a clone of everything it returned."""

    def __init__(self, inner):
        super().__init__()
        self.inner = inner
        self.records = []

    def __len__(self):
        return len(self.inner)

    def sample_points(self, params=Points.empty(), device="cpu", **kwargs):
        out = self.inner.sample_points(params, device=device, **kwargs)
        self.records.append((out.as_tensor.detach().clone(),
                             [(n, int(d)) for n, d in out.space.items()]))
        return out


def _clone_batch(batch):
    return tuple((p.as_tensor.detach().clone(), [(n, int(d)) for n, d in p.space.items()])
                 for p in batch)


class RecPointsLoader(PointsDataLoader):
    records = None

    def __iter__(self):
        for batch in super().__iter__():
            self.records.append(_clone_batch(batch))
            yield batch


class RecDeepONetLoader(DeepONetDataLoader):
    records = None

    def __iter__(self):
        for batch in super().__iter__():
            self.records.append(_clone_batch(batch))
            yield batch


def _make_fn(fname, names, defaults, impl):
    """def fname(<names>, <defaulted names>=...): return impl({name: value})"""
    plain = [n for n in names if n not in defaults]
    dflt = [n for n in names if n in defaults]
    params = plain + [f"{n}=_d_{n}" for n in dflt]
    body = ", ".join(f"{n}={n}" for n in plain + dflt)
    ns = {"_impl": impl}
    ns.update({f"_d_{n}": v for n, v in defaults.items()})
    exec(f"def {fname}({', '.join(params)}):\n    return _impl(dict({body}))", ns)  # noqa: S102
    return ns[fname]


def _cols(rec):
    """recorded (tensor, [(name, dim)]) -> {name: float64 columns}"""
    t, space = rec
    out, start = {}, 0
    for n, d in space:
        out[n] = t[..., start:start + d].double()
        start += d
    return out


class SmoothFn:
    """by-name function  a + sum_arg B_arg.arg + s sin(sum_arg W_arg.arg) (+ c0 default)."""

    def __init__(self, name, args, dims, out_dim, gen, extra):
        self.name, self.args, self.out_dim = name, list(args), out_dim
        self.a = _coef(gen, (out_dim,))
        self.B = {n: _coef(gen, (out_dim, dims[n])) for n in args}
        self.s = _coef(gen, (out_dim,))
        self.W = {n: _coef(gen, (out_dim, dims[n]), div=4, span=6) for n in args}
        self.extra = 0.625 if extra else None
        self.calls = 0
        order = list(args) + (["c0"] if extra else [])
        self.fn = _make_fn(name, order, {"c0": self.extra} if extra else {}, self._impl)

    def _eval(self, vals, dtype):
        lin, ph = self.a.to(dtype), 0.0
        for n in self.args:
            lin = lin + vals[n] @ self.B[n].to(dtype).T
            ph = ph + vals[n] @ self.W[n].to(dtype).T
        out = lin + self.s.to(dtype) * torch.sin(ph)
        if self.extra is not None:
            out = out + float(vals.get("c0", self.extra))
        return out

    def _impl(self, kw):
        self.calls += 1
        return self._eval(kw, torch.float32)

    def ref(self, cols64):
        return self._eval({n: cols64[n] for n in self.args}, torch.float64)


def _err64(kind, R):
    if kind in ("sq", "default"):
        return (R ** 2).sum(dim=1)
    if kind == "abs":
        return R.abs().sum(dim=1)
    if kind == "p4":
        return (R ** 4).sum(dim=1)
    return R


def _wsum_weights(E):
    w = torch.arange(1, E.shape[0] + 1, dtype=E.dtype) / E.shape[0]
    return w.reshape(-1, *([1] * (E.dim() - 1)))


def _red64(kind, E):
    if kind in ("mean", "default"):
        return E.mean()
    if kind == "sum":
        return E.sum()
    if kind == "max":
        return E.max()
    return (E * _wsum_weights(E)).sum()


def _err_fn(kind):
    return {"sq": SquaredError(), "abs": lambda r: r.abs().sum(dim=1),
            "p4": lambda r: (r ** 4).sum(dim=1), "id": torch.nn.Identity()}[kind]


def _red_fn(kind):
    return {"mean": torch.mean, "sum": torch.sum, "max": torch.max,
            "wsum": lambda e: (e * _wsum_weights(e)).sum()}[kind]


# ---------------------------------------------------------------------- samplers
def _domain(name, dim, upper=None):
    lo, hi = RANGES[name]
    sp = Space({name: dim})
    if dim == 1:
        return Interval(sp, lo, hi if upper is None else upper)
    return Parallelogram(sp, [lo, lo], [hi, lo], [lo, hi])


def _leaf_sampler(leaf, gen, upper=None):
    vs, n = leaf["vars"], int(leaf["n"])
    if leaf["type"] == "data":
        cols = {}
        for name, d in vs:
            lo, hi = RANGES[name]
            cols[name] = lo + (hi - lo) * torch.rand((n, d), generator=gen)
        if leaf.get("dict"):
            return DataSampler(dict(cols))
        return DataSampler(Points(torch.cat([cols[v[0]] for v in vs], dim=1),
                                  Space({v[0]: v[1] for v in vs})))
    dom = None
    for i, (name, d) in enumerate(vs):
        f = _domain(name, d, upper if i == 0 else None)
        dom = f if dom is None else dom * f
    if leaf["type"] == "grid":
        return GridSampler(dom, n_points=n)
    return RandomUniformSampler(dom, n_points=n)


def _build_sampler(sspec, gen):
    """-> (plain sampler, uses parameter variables from a product)"""
    groups = sspec["groups"]
    if sspec["combine"] == "single":
        return _leaf_sampler(groups[0], gen), False
    b = _leaf_sampler(groups[1], gen)
    upper = None
    if sspec.get("dep"):
        pname = next(v[0] for v in groups[1]["vars"] if v[1] == 1)
        lo = RANGES[groups[0]["vars"][0][0]][0]
        upper = _make_fn("upper", [pname], {}, lambda kw, lo=lo: lo + 1.0 + next(iter(kw.values())))
    a = _leaf_sampler(groups[0], gen, upper)
    if sspec["combine"] == "product":
        return a * b, True
    return a.append(b), False


def _usable(sampler):
    try:
        p = sampler.sample_points()
        return isinstance(p, Points) and len(p) > 0 and bool(torch.isfinite(p.as_tensor).all())
    except Exception:    # noqa: BLE001 - sampler defects belong to C01/C02
        return False


def _recorded(sspec, gen):
    """-> (sampler for the condition, recorder, product?) or None if the tree is unusable."""
    plain, prod = _build_sampler(sspec, gen)
    if not _usable(plain):
        return None
    rec = Recorder(plain)
    s = rec
    if sspec["static"]:
        s = rec.make_static(sspec["resample"]) if sspec.get("resample") else rec.make_static()
    return s, rec, prod


# ====================================================================== spy residual
class Spy:
    """The user function handed to the condition: records what it receives, differentiates
    outputs w.r.t. coordinates inside, returns a residual with m components."""

    def __init__(self, spec, dims, gen, layout="rows", pairs=(), fname="residual",
                 inner_model=None, out_order=()):
        sig = spec["sig"]
        self.out_order = list(out_order)
        self.names = list(sig["names"])
        self.defaults = {n: 0.375 + 0.125 * i for i, n in enumerate(sig["defaults"])}
        if sig.get("extra"):
            self.names.append(EXTRA)
            self.defaults[EXTRA] = 0.875
        self.m = 1 if layout == "constrain" else int(spec["m"])
        self.layout = layout
        self.w, self.c = {}, {}
        for n in self.names + [f"d:{o}:{c}" for o, c in pairs] + list((inner_model or {}).get("outs", [])):
            d = dims.get(n.split(":")[2], 1) if n.startswith("d:") else dims.get(n, 1)
            w, c = _coef(gen, (d,)), _coef(gen, (self.m,))
            self.w[n] = torch.where(w == 0, torch.ones_like(w), w).float()
            self.c[n] = torch.where(c == 0, torch.ones_like(c), c).float()
        self.pairs = list(pairs)
        self.inner_model = inner_model
        self.calls, self.rets, self.derivs, self.inner = [], [], [], []
        self.fn = _make_fn(fname, self.names, self.defaults, self._impl)

    def _term(self, key, T, integral):
        if not isinstance(T, torch.Tensor):
            T = torch.tensor([[float(T)]])
        if T.dim() < 2:
            T = T.reshape(1, -1)
        contrib = (T * self.w[key]).sum(-1, keepdim=True)
        if integral and contrib.dim() == 3:
            contrib = contrib.mean(dim=1, keepdim=True)
        return contrib * self.c[key]

    def _impl(self, kw):
        self.calls.append(dict(kw))
        vals = dict(kw)
        total = 0.0
        for n in self.names:
            if self.layout == "constrain" and n in self.out_order:
                continue
            total = total + self._term(n, kw[n], self.layout == "integro" and n.endswith("_integral"))
        if self.layout == "constrain":
            self.derivs.append({})
            total = torch.cat([kw[o] for o in self.out_order], dim=-1) * (1.0 + 0.25 * total)
            self.rets.append(total)
            return total
        if self.inner_model is not None:
            mod, need = self.inner_model["model"], self.inner_model["inputs"]
            if all(n in kw for n in need):
                y = mod(Points.from_coordinates({n: kw[n] for n in need}))
                yc = y.coordinates
                self.inner.append({n: yc[n] for n in yc})
                for n in yc:
                    vals[n] = yc[n]
                    total = total + self._term(n, yc[n], False)
            else:
                self.inner.append(None)
        got = {}
        for o, c in self.pairs:
            if o not in vals or c not in vals:
                continue
            O, C = vals[o], vals[c]
            rows = [torch.autograd.grad(O[..., j].sum(), C, create_graph=True)[0]
                    for j in range(O.shape[-1])]
            G = torch.stack(rows, dim=-2)
            got[(o, c)] = G
            total = total + self._term(f"d:{o}:{c}", G.sum(dim=-2),
                                       self.layout == "integro" and c.endswith("_integral"))
        self.derivs.append(got)
        if self.layout == "integro":
            total = total.reshape(-1, self.m)
        if self.layout == "penalty":
            total = total.sum()
        self.rets.append(total)
        return total


def _pick_pairs(spec, outs, coords, ok=None):
    """first nderiv (output, coordinate) pairs whose names are both in the signature."""
    names = spec["sig"]["names"]
    cand = [(o, c) for o in names if o in outs for c in names if c in coords
            and (ok is None or ok(o, c))]
    return cand[:int(spec.get("nderiv", 0))]


# ====================================================================== comparison
class _Report:
    """one violation per signature and case, with an occurrence count"""

    def __init__(self, ctx):
        self.ctx, self.first, self.count = ctx, {}, {}

    def __call__(self, kind, feat, detail):
        key = (kind, feat)
        self.count[key] = self.count.get(key, 0) + 1
        self.first.setdefault(key, detail)

    def flush(self):
        for (kind, feat), detail in self.first.items():
            n = self.count[(kind, feat)]
            self.ctx.violation(kind, feat, detail + (f" [{n} occurrences]" if n > 1 else ""))
        self.first, self.count = {}, {}


def _cmp(got, exp, bitwise, rtol=RTOL):
    """None or a description of the disagreement between a library tensor and its float64
    expectation (shape included)."""
    if not isinstance(got, torch.Tensor):
        if exp.numel() == 1 and isinstance(got, (int, float)):
            return None if float(got) == float(exp) else f"got {got!r}, expected {float(exp)}"
        return f"got {type(got).__name__}, expected tensor of shape {tuple(exp.shape)}"
    if tuple(got.shape) != tuple(exp.shape):
        return f"shape {tuple(got.shape)}, expected {tuple(exp.shape)}"
    g = got.detach().double()
    if bitwise:
        if torch.equal(g, exp):
            return None
        return f"not bitwise equal: max|diff|={float((g - exp).abs().max()):.3e}"
    if exp.numel() == 0:
        return None
    scale = max(1.0, float(exp.abs().max()))
    tol = rtol * torch.maximum(exp.abs(), g.abs()) + (rtol / 10) * scale
    bad = ~((g - exp).abs() <= tol)
    if bool(bad.any()):
        return (f"max|diff|={float(torch.nan_to_num((g - exp).abs(), nan=float('inf')).max()):.3e} "
                f"(scale {scale:.2e}, {int(bad.sum())} of {bad.numel()} entries)")
    return None


def _scalar_check(report, feat, got, exp, scale, what=""):
    if not isinstance(got, torch.Tensor) or got.numel() != 1:
        report("loss-value", feat, f"forward returned {type(got).__name__} "
                                   f"{tuple(getattr(got, 'shape', ()))}, expected a scalar")
        return False
    g, e = float(got.detach().double().reshape(())), float(exp)
    scale = max(abs(e), float(scale))
    if not (math.isfinite(g) and abs(g - e) <= RTOL * scale + 1e-12):
        report("loss-value", feat, f"forward()={g:.9g}, documented reduction of the residual on "
                                   f"the recorded points {what}= {e:.9g} (scale {scale:.3g})")
        return False
    return True


def _split(t, var_list):
    out, start = {}, 0
    for n, d in var_list:
        out[n] = t[..., start:start + d]
        start += d
    return out


class _Net:
    """model + reference (values and Jacobian in model input order)"""

    def __init__(self, spec, gen, in_vars=None):
        vs = in_vars or spec["vars"]
        perm = [int(i) % len(vs) for i in spec["model"]["perm"]]
        if sorted(perm) != list(range(len(vs))):
            perm = list(range(len(vs)))
        self.in_vars = [vs[i] for i in perm]
        self.out_vars = [list(o) for o in spec["out"]]
        self.permuted = [v[0] for v in self.in_vars] != [v[0] for v in vs]
        self.real = spec["model"]["type"] == "real"
        if self.real:
            self.model = FCN(Space({n: d for n, d in self.in_vars}),
                             Space({n: d for n, d in self.out_vars}), hidden=(5, 4))
            self.reference = _RealRef(self.model.sequential)
        else:
            self.model = AnalyticModel(self.in_vars, self.out_vars, gen, spec["model"]["fix"])
            self.reference = self.model
        self.D = sum(d for _, d in self.in_vars)
        self.K = sum(d for _, d in self.out_vars)

    def z(self, cols):
        return torch.cat([cols[n] for n, _ in self.in_vars], dim=-1)

    def outputs(self, cols):
        return _split(self.reference.ref(self.z(cols)), self.out_vars)

    def jac(self, cols, o, c):
        """d o / d c at the rows of cols -> (..., dim o, dim c)"""
        J = self.reference.jac(self.z(cols))
        ro = _split(torch.arange(self.K), self.out_vars)[o]
        rc = _split(torch.arange(self.D), self.in_vars)[c]
        return J[..., ro[0]:ro[-1] + 1, rc[0]:rc[-1] + 1]


def _parameter(spec, gen):
    """-> (Parameter|None, {name: float64 (1,d)}, joined?)"""
    ps = spec.get("param")
    if not ps:
        return None, {}, False
    vals = {n: _coef(gen, (1, d)) for n, d in ps}
    objs = [Parameter(vals[n].reshape(-1).tolist(), Space({n: d})) for n, d in ps]
    p = objs[0]
    for o in objs[1:]:
        p = p.join(o)
    return p, vals, len(objs) > 1


def _build_datafns(spec, dims, gen):
    return [SmoothFn(f["name"], f["args"], dims, f["dim"], gen, f.get("extra"))
            for f in spec.get("datafns", [])]


def _dims(spec):
    d = {}
    for key in ("vars", "out", "param", "fout"):
        for n, k in (spec.get(key) or []):
            d[n] = k
    for f in spec.get("datafns", []):
        d[f["name"]] = f["dim"]
    for n in list(d):
        for suf in ("_left", "_right", "_integral"):
            d[n + suf] = d[n]
    d[EXTRA] = 1
    return d


def _check_args(report, spy, call, expected, kind, qual=None):
    """expected: {name: (category, float64 tensor, bitwise)} for every available name"""
    qual = qual or {}
    got = spy.calls[call]
    for n in spy.names:
        if n == EXTRA:
            if not (isinstance(got[n], float) and got[n] == spy.defaults[n]):
                report("routing", f"default|{kind}", f"argument '{n}' is not supplied by the "
                       f"condition, its default {spy.defaults[n]} must be used, got {got[n]!r}")
            continue
        cat, exp, bitwise = expected[n]
        bad = _cmp(got[n], exp, bitwise)
        if bad:
            report("routing", f"{cat}|{qual[cat]}" if qual.get(cat) else f"{cat}|{kind}",
                   f"argument '{n}' of the {spy.fn.__name__} function"
                   + (" (has a default that must be overridden)" if n in spy.defaults else "")
                   + f": {bad}")


def _check_derivs(report, spy, call, jexp, kind):
    for (o, c), G in spy.derivs[call].items():
        exp = jexp(o, c)
        bad = _cmp(G, exp, False, rtol=DTOL)
        if bad:
            report("derivative", kind, f"autograd d {o}/d {c} inside the residual vs closed form: {bad}")


def _new_records(report, rec, before, static, kind, what="sampler"):
    n = len(rec.records) - before
    if (static and n > 1) or (not static and n != 1):
        report("sampler-calls", kind, f"{what} was sampled {n} times during one forward call"
                                      + (" (static)" if static else ""))
    return len(rec.records) > 0


def _nontrivial(spec, net, prod, kind):
    return bool((net is not None and net.permuted) or len(spec.get("datafns", [])) >= 2
                or spec.get("m", 1) >= 2 or prod or kind != "PINNCondition")


def _classes(spec, net, prod, extra=()):
    cl = ["kind:" + spec["kind"], f"m{spec['m']}", f"datafns{len(spec.get('datafns', []))}"]
    if net is not None:
        cl.append("model:" + ("real" if net.real else "analytic-fix" if spec["model"]["fix"] else "analytic"))
        if net.permuted:
            cl.append("model-order-differs")
    if spec.get("param"):
        cl.append("param-joined" if len(spec["param"]) > 1 else "param")
    s = spec.get("sampler")
    if s:
        cl.append("sampler:" + s["combine"])
        cl += ["static"] if s["static"] else []
        cl += ["static-resample"] if s["static"] and s.get("resample") else []
        cl += ["dependent-domain"] if s.get("dep") else []
        cl += sorted({"leaf:" + g["type"] for g in s["groups"]})
    if prod:
        cl.append("product-params")
    sig = spec.get("sig")
    if sig:
        cl += ["sig-defaults"] if sig["defaults"] else []
        cl += ["sig-extra"] if sig.get("extra") else []
    return cl + _sched_class(spec) + list(extra)


# ====================================================================== sampler kinds
def _run_sampler_kind(spec, ctx):
    kind = spec["kind"]
    report = _Report(ctx)
    gen = _gen(spec, 1)
    dims = _dims(spec)
    net = _Net(spec, gen)
    param, pvals, joined = _parameter(spec, gen)
    fns = _build_datafns(spec, dims, gen)
    built = _recorded(spec["sampler"], gen)
    if built is None:
        ctx.event("sampler-unusable")
        return {"nontrivial": False, "classes": ["sampler-unusable"], "summary": {}}
    sampler, rec, prod = built
    static = spec["sampler"]["static"]
    resample = static and bool(spec["sampler"].get("resample"))
    hpm = kind == "HPM_EquationLoss_at_Sampler"
    outs = [o[0] for o in net.out_vars]
    coords = [v[0] for v in spec["vars"]]
    inner = {"model": net.model, "inputs": [v[0] for v in net.in_vars], "outs": outs} if hpm else None
    pairs = _pick_pairs(spec, outs, coords) if not hpm else \
        [(o, c) for o in outs for c in spec["sig"]["names"] if c in coords][:int(spec["nderiv"])]
    spy = Spy(spec, dims, gen, pairs=pairs, inner_model=inner)
    kw = {"data_functions": {f.name: f.fn for f in fns}, "weight": spec["weight"]}
    if param is not None:
        kw["parameter"] = param
    err, red = spec.get("err", "default"), spec.get("red", "default")
    if kind == "SingleModuleCondition":
        kw.update(error_fn=_err_fn(err), reduce_fn=_red_fn(red))
    else:
        if err != "default":
            kw["error_fn"] = _err_fn(err)
        if red != "default":
            kw["reduce_fn"] = _red_fn(red)
    cfeat = "joined-parameter" if joined else kind
    with ctx.lib("construct", feature=cfeat):
        cond = getattr(tpc, kind)(net.model, sampler, spy.fn, **kw)
    if cond.weight != spec["weight"]:
        report("weight", kind, f"cond.weight={cond.weight!r}, given {spec['weight']!r}")
    aw = None
    if kind == "AdaptiveWeightsCondition":
        lw = cond.adaptive_layer.weight
        aw = (torch.randint(1, 17, tuple(lw.shape), generator=gen).double() / 8)
        with torch.no_grad():
            lw.copy_(aw.float())
    ffeat = kind + ("|static-data-functions" if static and fns else "") \
        + ("|joined-parameter" if joined else "")
    worst = 0.0
    for it, itv in enumerate(_schedule(spec)):
        before, calls = len(rec.records), len(spy.calls)
        with ctx.lib("forward", feature=ffeat):
            _train_start(spec, cond, it)
            loss = _forward(cond, itv)
        if not _new_records(report, rec, before, static, kind):
            report("sampler-calls", kind, "the condition never sampled its sampler")
            break
        if len(spy.calls) - calls != 1:
            report("residual-calls", kind, f"residual called {len(spy.calls) - calls} times in one forward")
            if len(spy.calls) == calls:
                break
        cols = _cols(rec.records[-1])
        N = rec.records[-1][0].shape[0]
        if set(cols) != set(coords):
            report("routing", f"coordinate|{kind}", f"sampler returned variables {sorted(cols)}, "
                                                    f"expected {sorted(coords)}")
            break
        expected = {n: ("coordinate", cols[n], True) for n in coords}
        if not hpm:
            for n, v in net.outputs(cols).items():
                expected[n] = ("model-output", v, False)
        for n, v in pvals.items():
            expected[n] = ("parameter", v, True)
        for f in fns:
            expected[f.name] = ("data-function", f.ref(cols), False)
        _check_args(report, spy, -1, expected, kind,
                    {"data-function": "static-resample" if resample else ""})
        _check_derivs(report, spy, -1, lambda o, c: net.jac(cols, o, c), kind)
        R = spy.rets[-1].detach().double()
        if R.dim() != 2 or R.shape[0] not in (N, 1):
            if report.first:        # explained by the routing violations of this call
                break
            raise AssertionError(f"harness: residual shape {tuple(R.shape)} for {N} rows")
        if kind in ("MeanCondition", "DeepRitzCondition"):
            exp, scale = R.mean(), R.abs().mean()
        elif kind == "AdaptiveWeightsCondition":
            E = _err64(err, R)
            if E.shape != aw.shape:
                report("loss-value", kind + "|weights-length", f"{tuple(aw.shape)} adaptive "
                       f"weights for {tuple(E.shape)} per-point errors (len(sampler) wrong)")
                break
            exp, scale = (aw * E).mean(), (aw * E.abs()).mean()
        else:
            E = _err64(err, R)
            exp, scale = _red64(red, E), _red64(red, E.abs())
        _scalar_check(report, kind, loss, exp, scale)
        worst = max(worst, abs(float(loss.detach().double().sum()) - float(exp)) / max(float(scale), 1e-30)
                    if isinstance(loss, torch.Tensor) and loss.numel() == 1 else 0.0)
    report.flush()
    return {"nontrivial": _nontrivial(spec, net, prod, kind),
            "classes": _classes(spec, net, prod, [f"err:{err}", f"red:{red}"] if err + red != "defaultdefault" else []),
            "summary": {"rows": int(rec.records[-1][0].shape[0]) if rec.records else 0,
                        "derivs": len(pairs), "rel_loss_err": worst}}



def _cond_kwargs(spec, fns, param):
    kw = {"data_functions": {f.name: f.fn for f in fns}, "weight": spec["weight"]}
    if param is not None:
        kw["parameter"] = param
    err, red = spec.get("err", "default"), spec.get("red", "default")
    if err != "default":
        kw["error_fn"] = _err_fn(err)
    if red != "default":
        kw["reduce_fn"] = _red_fn(red)
    return kw, err, red


# ====================================================================== periodic
def _run_periodic(spec, ctx):
    kind = "PeriodicCondition"
    report = _Report(ctx)
    gen = _gen(spec, 1)
    dims = _dims(spec)
    net = _Net(spec, gen)
    param, pvals, joined = _parameter(spec, gen)
    fns = _build_datafns(spec, dims, gen)
    rest = [v[0] for v in spec["vars"][:-1]]
    sampler = rec = None
    prod = static = False
    if spec["sampler"]:
        built = _recorded(spec["sampler"], gen)
        if built is None:
            ctx.event("sampler-unusable")
            return {"nontrivial": False, "classes": ["sampler-unusable"], "summary": {}}
        sampler, rec, prod = built
        static = spec["sampler"]["static"]
    a = float(spec["interval"][0])
    b = a + float(spec["interval"][1])
    interval = Interval(Space({"x": 1}), a, b)
    outs = [o[0] for o in net.out_vars]

    def side(name):
        for suf in ("_left", "_right"):
            if name.endswith(suf):
                return name[:-len(suf)], suf
        return name, ""

    def ok(o, c):
        so, sc = side(o)[1], side(c)[1]
        return sc in ("", so)
    pairs = _pick_pairs(spec, [o + s_ for o in outs for s_ in ("_left", "_right")],
                        rest + ["x_left", "x_right"], ok)
    spy = Spy(spec, dims, gen, pairs=pairs)
    kw, err, red = _cond_kwargs(spec, fns, param)
    if sampler is not None:
        kw["non_periodic_sampler"] = sampler
    with ctx.lib("construct", feature="joined-parameter" if joined else kind):
        cond = tpc.PeriodicCondition(net.model, interval, spy.fn, **kw)
    if cond.weight != spec["weight"]:
        report("weight", kind, f"cond.weight={cond.weight!r}, given {spec['weight']!r}")
    ffeat = kind + ("|static-data-functions" if static and fns else "")
    resample = static and bool(spec["sampler"].get("resample"))
    N = 1
    for it, itv in enumerate(_schedule(spec)):
        before, calls = (len(rec.records) if rec else 0), len(spy.calls)
        with ctx.lib("forward", feature=ffeat):
            _train_start(spec, cond, it)
            loss = _forward(cond, itv)
        if rec is not None and not _new_records(report, rec, before, static, kind,
                                                "non_periodic_sampler"):
            report("sampler-calls", kind, "the condition never sampled its sampler")
            break
        if len(spy.calls) - calls != 1:
            report("residual-calls", kind, f"residual called {len(spy.calls) - calls} times in one forward")
            if len(spy.calls) == calls:
                break
        cols = _cols(rec.records[-1]) if rec is not None else {}
        N = rec.records[-1][0].shape[0] if rec is not None else 1
        if set(cols) != set(rest):
            report("routing", f"coordinate|{kind}", f"sampler returned variables {sorted(cols)}, "
                                                    f"expected {sorted(rest)}")
            break
        sides = {"_left": {**cols, "x": torch.full((N, 1), a, dtype=torch.float64)},
                 "_right": {**cols, "x": torch.full((N, 1), b, dtype=torch.float64)}}
        expected = {n: ("coordinate", cols[n], True) for n in rest}
        for suf, sc in sides.items():
            expected["x" + suf] = ("coordinate", sc["x"], True)
            for n, v in net.outputs(sc).items():
                expected[n + suf] = ("model-output", v, False)
            for f in fns:
                expected[f.name + suf] = ("data-function", f.ref(sc), False)
        for n, v in pvals.items():
            expected[n] = ("parameter", v, True)
        _check_args(report, spy, -1, expected, kind,
                    {"data-function": "static-resample" if resample else ""})
        _check_derivs(report, spy, -1,
                      lambda o, c: net.jac(sides[side(o)[1]], side(o)[0], side(c)[0]), kind)
        R = spy.rets[-1].detach().double()
        E = _err64(err, R)
        _scalar_check(report, kind, loss, _red64(red, E), _red64(red, E.abs()))
    report.flush()
    return {"nontrivial": True,
            "classes": _classes(spec, net, prod, ["periodic-empty-sampler"] if rec is None else []),
            "summary": {"rows": int(N), "derivs": len(pairs)}}


# ====================================================================== integro
def _run_integro(spec, ctx):
    kind = "IntegroPINNCondition"
    report = _Report(ctx)
    gen = _gen(spec, 1)
    dims = _dims(spec)
    net = _Net(spec, gen)
    param, pvals, joined = _parameter(spec, gen)
    fns = _build_datafns(spec, dims, gen)
    built, ibuilt = _recorded(spec["sampler"], gen), _recorded(spec["isampler"], gen)
    if built is None or ibuilt is None:
        ctx.event("sampler-unusable")
        return {"nontrivial": False, "classes": ["sampler-unusable"], "summary": {}}
    sampler, rec, prod = built
    isampler, irec, _ = ibuilt
    static, istatic = spec["sampler"]["static"], spec["isampler"]["static"]
    coords = [v[0] for v in spec["vars"]]
    ivars = [v[0] for v in spec["ivars"]]
    outs = [o[0] for o in net.out_vars]

    def ok(o, c):
        oi, ci = o.endswith("_integral"), c.endswith("_integral")
        if oi and not ci:
            return c not in ivars
        return oi == ci
    pairs = _pick_pairs(spec, outs + [o + "_integral" for o in outs],
                        coords + [v + "_integral" for v in ivars], ok)
    spy = Spy(spec, dims, gen, layout="integro", pairs=pairs)
    kw, err, red = _cond_kwargs(spec, fns, param)
    with ctx.lib("construct", feature="joined-parameter" if joined else kind):
        cond = tpc.IntegroPINNCondition(net.model, sampler, spy.fn, isampler, **kw)
    if cond.weight != spec["weight"]:
        report("weight", kind, f"cond.weight={cond.weight!r}, given {spec['weight']!r}")
    ffeat = kind + ("|static-data-functions" if static and fns else "")
    resample = static and bool(spec["sampler"].get("resample"))
    N = M = 0
    for it, itv in enumerate(_schedule(spec)):
        before, ibefore, calls = len(rec.records), len(irec.records), len(spy.calls)
        with ctx.lib("forward", feature=ffeat):
            _train_start(spec, cond, it)
            loss = _forward(cond, itv)
        ok1 = _new_records(report, rec, before, static, kind)
        ok2 = _new_records(report, irec, ibefore, istatic, kind, "integral_sampler")
        if not (ok1 and ok2):
            report("sampler-calls", kind, "the condition never sampled one of its samplers")
            break
        if len(spy.calls) - calls != 1:
            report("residual-calls", kind, f"residual called {len(spy.calls) - calls} times in one forward")
            if len(spy.calls) == calls:
                break
        cols, icols = _cols(rec.records[-1]), _cols(irec.records[-1])
        N, M = rec.records[-1][0].shape[0], irec.records[-1][0].shape[0]
        if set(cols) != set(coords) or set(icols) != set(ivars):
            report("routing", f"coordinate|{kind}", f"samplers returned {sorted(cols)} / {sorted(icols)}")
            break
        mesh = {}
        for n in coords:
            src = icols[n].reshape(1, M, -1) if n in ivars else cols[n].reshape(N, 1, -1)
            mesh[n] = src.expand(N, M, src.shape[-1])
        expected = {n: ("coordinate", cols[n].reshape(N, 1, -1), True) for n in coords}
        for n in ivars:
            expected[n + "_integral"] = ("coordinate", icols[n].reshape(1, M, -1), True)
        for n, v in net.outputs(cols).items():
            expected[n] = ("model-output", v.reshape(N, 1, -1), False)
        for n, v in net.outputs(mesh).items():
            expected[n + "_integral"] = ("model-output", v, False)
        for f in fns:
            expected[f.name] = ("data-function", f.ref(cols).reshape(N, 1, -1), False)
        for n, v in pvals.items():
            expected[n] = ("parameter", v, True)
        _check_args(report, spy, -1, expected, kind,
                    {"data-function": "static-resample" if resample
                     else "IntegroPINNCondition-static" if static else ""})

        def jexp(o, c):
            oi, ci = o.endswith("_integral"), c.endswith("_integral")
            ob, cb = o.replace("_integral", ""), c.replace("_integral", "")
            if not oi:
                return net.jac(cols, ob, cb).reshape(N, 1, dims[ob], dims[cb])
            J = net.jac(mesh, ob, cb)
            return J.sum(dim=0, keepdim=True) if ci else J.sum(dim=1, keepdim=True)
        _check_derivs(report, spy, -1, jexp, kind)
        R = spy.rets[-1].detach().double()
        E = _err64(err, R)
        _scalar_check(report, kind, loss, _red64(red, E), _red64(red, E.abs()))
    report.flush()
    return {"nontrivial": True,
            "classes": _classes(spec, net, prod, [f"integral-vars{len(ivars)}"]
                                + (["integral-static"] if istatic else [])),
            "summary": {"rows": int(N), "integral_rows": int(M), "derivs": len(pairs)}}



# ====================================================================== DeepONet kinds
class _ONet:
    """DeepONet (analytic or FC) + references for trunk and branch"""

    def __init__(self, spec, gen, fspace, disc_sampler, copied=True):
        vs = spec["vars"]
        perm = [int(i) % len(vs) for i in spec["model"]["perm"]]
        if sorted(perm) != list(range(len(vs))):
            perm = list(range(len(vs)))
        self.in_vars = [vs[i] for i in perm]
        self.out_vars = [list(o) for o in spec["out"]]
        self.permuted = [v[0] for v in self.in_vars] != [v[0] for v in vs]
        self.real = spec["model"]["type"] == "real"
        self.K = sum(d for _, d in self.out_vars)
        self.Q = int(spec["q"])
        self.D = sum(d for _, d in self.in_vars)
        isp = Space({n: d for n, d in self.in_vars})
        osp = Space({n: d for n, d in self.out_vars})
        if self.real:
            trunk = FCTrunkNet(isp, hidden=(4, 3), trunk_input_copied=copied)
            branch = FCBranchNet(fspace, disc_sampler, hidden=(4,))
        else:
            trunk = ATrunk(self.in_vars, gen, copied, spec["model"]["fix"])
            branch = ABranch(fspace, disc_sampler, gen)
        self.model = DeepONet(trunk, branch, osp, output_neurons=self.K * self.Q)
        if self.real:
            self.tref, self.bref = _FCTrunkRef(trunk, self.K, self.Q), _FCBranchRef(branch, self.K, self.Q)
        else:
            self.tref, self.bref = trunk, branch

    def z(self, cols):
        return torch.cat([cols[n] for n, _ in self.in_vars], dim=-1)

    def outputs(self, cols, fb, shared=True):
        """cols rows (N,.) shared by all functions, or (F,N,.) per function"""
        T, Bv = self.tref.ref(self.z(cols)), self.bref.ref(fb)
        u = torch.einsum("nkq,fkq->fnk", T, Bv) if shared else torch.einsum("fnkq,fkq->fnk", T, Bv)
        return _split(u, self.out_vars)

    def jac(self, cols, fb, o, c):
        J = torch.einsum("nkqd,fkq->fnkd", self.tref.jac(self.z(cols)), self.bref.ref(fb))
        ro = _split(torch.arange(self.K), self.out_vars)[o]
        rc = _split(torch.arange(self.D), self.in_vars)[c]
        return J[..., ro[0]:ro[-1] + 1, rc[0]:rc[-1] + 1]


def _run_pideeponet(spec, ctx):
    kind = "PIDeepONetCondition"
    report = _Report(ctx)
    gen = _gen(spec, 1)
    dims = _dims(spec)
    dims["k"] = spec["fparam"][1]
    coords = [v[0] for v in spec["vars"]]
    kf = sum(d for _, d in spec["fout"])
    fspace = FunctionSpace(_domain("t", 1), Space({n: d for n, d in spec["fout"]}))
    drec = Recorder(GridSampler(_domain("t", 1), n_points=int(spec["ndisc"])))
    net = _ONet(spec, gen, fspace, drec.make_static())
    param, pvals, joined = _parameter(spec, gen)
    fns = _build_datafns(spec, dims, gen)
    sets = []
    fset = None
    for i, fs in enumerate(spec["fsets"]):
        leaf = {"type": fs["type"], "vars": [list(spec["fparam"])], "n": fs["n"], "dict": False}
        prec = Recorder(_leaf_sampler(leaf, gen))
        fn = SmoothFn(f"fun{i}", ["k", "t"], dims, kf, gen, False)
        one = CustomFunctionSet(fspace, prec.make_static() if fs["static"] else prec, fn.fn)
        sets.append((prec, fn, fs["static"]))
        fset = one if fset is None else fset + one
    built = _recorded(spec["sampler"], gen)
    if built is None:
        ctx.event("sampler-unusable")
        return {"nontrivial": False, "classes": ["sampler-unusable"], "summary": {}}
    sampler, rec, prod = built
    static = spec["sampler"]["static"]
    resample = static and bool(spec["sampler"].get("resample"))
    outs = [o[0] for o in net.out_vars]
    pairs = _pick_pairs(spec, outs, coords)
    spy = Spy(spec, dims, gen, layout="deeponet", pairs=pairs)
    kw = {"data_functions": {f.name: f.fn for f in fns}, "weight": spec["weight"]}
    if param is not None:
        kw["parameter"] = param
    with ctx.lib("construct", feature="joined-parameter" if joined else kind):
        cond = tpc.PIDeepONetCondition(net.model, fset, sampler, spy.fn, **kw)
    if cond.weight != spec["weight"]:
        report("weight", kind, f"cond.weight={cond.weight!r}, given {spec['weight']!r}")
    ffeat = kind + ("|static-data-functions" if static and fns else "")
    N = F = 0
    prev = object()
    stale_risk = False
    for it, itv in enumerate(_schedule(spec)):
        # DeepONet._forward_branch draws new function parameters once per iteration NUMBER: a
        # call with the iteration value of the previous call (validation: always None) may keep
        # the function batch; every other call has to draw exactly one new batch
        same, prev = it > 0 and itv == prev, itv
        stale_risk = stale_risk or same
        before, calls = len(rec.records), len(spy.calls)
        pbefore = [len(p.records) for p, _, _ in sets]
        with ctx.lib("forward", feature=ffeat):
            _train_start(spec, cond, it)
            loss = _forward(cond, itv)
        if not _new_records(report, rec, before, static, kind, "input_sampler"):
            report("sampler-calls", kind, "the condition never sampled its input sampler")
            break
        fine = True
        for (p, _, pst), b0 in zip(sets, pbefore):
            if same and not pst and len(p.records) == b0 and p.records:
                continue
            fine = _new_records(report, p, b0, pst, kind, "function-set parameter sampler") and fine
        if not fine or not drec.records:
            report("sampler-calls", kind, "function parameters / discretisation points never sampled")
            break
        if len(spy.calls) - calls != 1:
            report("residual-calls", kind, f"residual called {len(spy.calls) - calls} times in one forward")
            if len(spy.calls) == calls:
                break
        cols = _cols(rec.records[-1])
        N = rec.records[-1][0].shape[0]
        if set(cols) != set(coords):
            report("routing", f"coordinate|{kind}", f"sampler returned variables {sorted(cols)}")
            break
        tdisc = _cols(drec.records[-1])["t"]                       # (nd, 1)
        nd = tdisc.shape[0]
        fb, fx = [], []
        for p, fn, _ in sets:
            kv = _cols(p.records[-1])["k"]                         # (Fs, dk)
            Fs = kv.shape[0]
            fb.append(fn.ref({"k": kv.reshape(Fs, 1, -1).expand(Fs, nd, kv.shape[-1]),
                              "t": tdisc.reshape(1, nd, 1).expand(Fs, nd, 1)}))
            fx.append(fn.ref({"k": kv.reshape(Fs, 1, -1).expand(Fs, N, kv.shape[-1]),
                              "t": cols["t"].reshape(1, N, 1).expand(Fs, N, 1)}))
        fb, fx = torch.cat(fb, dim=0), torch.cat(fx, dim=0)
        F = fb.shape[0]
        rep = {n: cols[n].reshape(1, N, -1).expand(F, N, cols[n].shape[-1]) for n in coords}
        expected = {n: ("coordinate", rep[n], True) for n in coords}
        for n, v in net.outputs(cols, fb).items():
            expected[n] = ("model-output", v, False)
        for n, v in _split(fx, spec["fout"]).items():
            expected[n] = ("function-set", v, False)
        for f in fns:
            # a static sampler's data functions are evaluated once on the (N,d) points: the
            # (N,k) result broadcasts against (F,N,.) and is accepted in that shape
            got = spy.calls[-1].get(f.name)
            pre = static and isinstance(got, torch.Tensor) and got.dim() == 2
            expected[f.name] = ("data-function", f.ref(cols) if pre else f.ref(rep), False)
        for n, v in pvals.items():
            expected[n] = ("parameter", v, True)
        _check_args(report, spy, -1, expected, kind,
                    {"data-function": "static-resample" if resample else ""})
        _check_derivs(report, spy, -1, lambda o, c: net.jac(cols, fb, o, c), kind)
        R = spy.rets[-1].detach().double()
        sq = R ** 2
        prop = sq.sum(dim=-1).mean()
        lib = sq.sum(dim=1).mean()
        got_ok = isinstance(loss, torch.Tensor) and loss.numel() == 1
        g = float(loss.detach().double().reshape(())) if got_ok else float("nan")
        close = lambda e: abs(g - float(e)) <= RTOL * abs(float(e)) + 1e-12   # noqa: E731
        if got_ok and not close(prop) and R.dim() == 3 and close(lib):
            report("loss-value", kind + "|sum-over-points",
                   f"forward()={g:.9g} = mean over functions and components of the SUM over the "
                   f"{R.shape[1]} points; mean over points and functions of the per-row sum of "
                   f"squares = {float(prop):.9g}")
        else:
            _scalar_check(report, kind, loss, prop, prop)
    report.flush()
    fin = any(f[0] in spec["sig"]["names"] for f in spec["fout"])
    fresh_t = not static and any(g["type"] == "random" and any(v[0] == "t" for v in g["vars"])
                                 for g in spec["sampler"]["groups"])
    return {"nontrivial": True,
            "classes": _classes(spec, net, prod, [f"fsets{len(sets)}"]
                                + (["fset-in-residual"] if fin else [])
                                + (["fset-in-residual+repeated-iteration+fresh-t-rows"]
                                   if fin and stale_risk and fresh_t else [])),
            "summary": {"rows": int(N), "functions": int(F), "derivs": len(pairs)}}



# ====================================================================== data kinds
def _norm_of(per_batch, norm, full):
    """per_batch: list of float64 tensors |model-target| (or scalars a_b for HPM); the value
    BEFORE the root is taken."""
    if full:
        if norm == "inf":
            return torch.stack([a.max() for a in per_batch]).max().clamp(min=0.0)
        return torch.stack([(a ** norm).mean() for a in per_batch]).sum() / len(per_batch)
    a = per_batch[-1]
    return a.max() if norm == "inf" else (a ** norm).mean()


def _norm_check(report, kind, loss, per_batch, mags, norm, root, full):
    """forward() against the stated norm.  Compared before the root (loss**root against the
    mean / max), with the float32 error budget tied to the magnitude of model output and target
    (mags), not to their possibly tiny difference."""
    what = f"(norm {norm}, root {root}, {'full data set' if full else 'one batch'}) "
    if not isinstance(loss, torch.Tensor) or loss.numel() != 1:
        return _scalar_check(report, kind, loss, 0.0, 1.0, what)
    exp, scale = _norm_of(per_batch, norm, full), _norm_of(mags, norm, full)
    g = loss.detach().double().reshape(())
    if root != 1.0:
        g = g ** root
    if not _scalar_check(_Quiet(), kind, g, exp, scale):
        e = float(exp) ** (1.0 / root) if root != 1.0 else float(exp)
        report("loss-value", kind, f"forward()={float(loss.detach().double().reshape(())):.9g}, stated norm of "
                                   f"model-minus-target on the recorded batches {what}= {e:.9g}")
        return False
    return True


class _Quiet:
    def __call__(self, *a):
        pass


def _random_data(gen, n, var_list):
    cols = []
    for name, d in var_list:
        lo, hi = RANGES[name]
        cols.append(lo + (hi - lo) * torch.rand((*n, d), generator=gen))
    return torch.cat(cols, dim=-1)


def _run_data(spec, ctx):
    kind = spec["kind"]
    hpm = kind == "HPM_EquationLoss_at_DataPoints"
    report = _Report(ctx)
    gen = _gen(spec, 1)
    dims = _dims(spec)
    net = _Net(spec, gen)
    param, pvals, joined = _parameter(spec, gen)
    coords = [v[0] for v in spec["vars"]]
    outs = [o[0] for o in net.out_vars]
    n, bs = int(spec["ndata"]), int(spec["batch"])
    X = _random_data(gen, (n,), spec["vars"])
    Y = torch.randint(-16, 17, (n, net.K), generator=gen).float() / 8
    with ctx.lib("loader", feature="PointsDataLoader"):
        loader = RecPointsLoader((Points(X, Space({a: d for a, d in spec["vars"]})),
                                  Points(Y, Space({a: d for a, d in net.out_vars}))),
                                 batch_size=bs, shuffle=bool(spec["shuffle"]))
    loader.records = []
    norm, root, full = spec["norm"], float(spec["root"]), bool(spec["full"])
    spy = None
    if hpm:
        inner = {"model": net.model, "inputs": [v[0] for v in net.in_vars], "outs": outs}
        pairs = [(o, c) for o in outs for c in spec["sig"]["names"] if c in coords][:int(spec["nderiv"])]
        spy = Spy(spec, dims, gen, pairs=pairs, inner_model=inner)
        kw = {"norm": norm, "root": root, "use_full_dataset": full, "weight": spec["weight"]}
        if param is not None:
            kw["parameter"] = param
        err, red = spec.get("err", "default"), spec.get("red", "default")
        if err != "default":
            kw["error_fn"] = _err_fn(err)
        if red != "default":
            kw["reduce_fn"] = _red_fn(red)
        with ctx.lib("construct", feature="joined-parameter" if joined else kind):
            cond = tpc.HPM_EquationLoss_at_DataPoints(net.model, loader, residual_fn=spy.fn, **kw)
    else:
        kw = {"norm": norm, "root": root, "use_full_dataset": full, "weight": spec["weight"]}
        if spec["sig"]:
            spy = Spy(spec, dims, gen, layout="constrain", fname="constrain", out_order=outs)
            kw["constrain_fn"] = spy.fn
        with ctx.lib("construct", feature=kind):
            cond = tpc.DataCondition(net.model, loader, **kw)
    if cond.weight != spec["weight"]:
        report("weight", kind, f"cond.weight={cond.weight!r}, given {spec['weight']!r}")
    ragged = n % bs != 0 and n > bs
    for it, itv in enumerate(_schedule(spec)):
        before = len(loader.records)
        calls = len(spy.calls) if spy else 0
        with ctx.lib("forward", feature=kind + ("|full" if full else "")):
            _train_start(spec, cond, it)
            loss = _forward(cond, itv)
        new = loader.records[before:]
        if (not full and len(new) != 1) or (full and len(new) < 1):
            report("sampler-calls", kind, f"{len(new)} batches drawn from the loader in one "
                                          f"{'full-data-set' if full else 'single-batch'} forward")
            break
        if spy and len(spy.calls) - calls != len(new):
            report("residual-calls", kind, f"{spy.fn.__name__} called {len(spy.calls) - calls} times for {len(new)} batches")
            break
        per_batch, mags = [], []
        for j, (xb, yb) in enumerate(new):
            cols, y = _cols(xb), yb[0].double()
            ci = calls + j
            if set(cols) != set(coords):
                report("routing", f"coordinate|{kind}", f"batch has variables {sorted(cols)}")
                break
            expected = {a: ("coordinate", cols[a], True) for a in coords}
            for a, v in pvals.items():
                expected[a] = ("parameter", v, True)
            if hpm:
                _check_args(report, spy, ci, expected, kind)
                _check_derivs(report, spy, ci, lambda o, c, cols=cols: net.jac(cols, o, c), kind)
                R = spy.rets[ci].detach().double()
                a_b = _red64(red, _err64(err, R)).reshape(())
                per_batch.append(a_b)
                mags.append(a_b.abs())
            else:
                mo = net.outputs(cols)
                for a, v in mo.items():
                    expected[a] = ("model-output", v, False)
                if spy:
                    _check_args(report, spy, ci, expected, kind)
                    out = spy.rets[ci].detach().double()
                else:
                    out = torch.cat([mo[a] for a in outs], dim=-1)
                if out.shape != y.shape:
                    raise AssertionError(f"harness: output {tuple(out.shape)} vs target {tuple(y.shape)}")
                per_batch.append((out - y).abs())
                mags.append(out.abs() + y.abs())
        else:
            _norm_check(report, kind, loss, per_batch, mags, norm, root, full)
            continue
        break
    report.flush()
    cl = _classes(spec, net, False, [f"norm:{norm}", f"root:{root}", "full" if full else "per-batch"])
    if full and ragged:
        cl.append("full-dataset-ragged")
    if spy is not None and not hpm:
        cl.append("constrain_fn")
    return {"nontrivial": True, "classes": cl, "summary": {"ndata": n, "batch": bs}}


def _run_deeponet_data(spec, ctx):
    kind = "DeepONetDataCondition"
    report = _Report(ctx)
    gen = _gen(spec, 1)
    dims = _dims(spec)
    coords = [v[0] for v in spec["vars"]]
    kf = sum(d for _, d in spec["fout"])
    nd, nf, nt, unique = int(spec["ndisc"]), int(spec["nfun"]), int(spec["ntrunk"]), bool(spec["unique"])
    fspace = FunctionSpace(_domain("t", 1), Space({a: d for a, d in spec["fout"]}))
    disc = GridSampler(_domain("t", 1), n_points=nd).make_static()
    net = _ONet(spec, gen, fspace, disc, copied=not unique)
    outs = [o[0] for o in net.out_vars]
    Bd = torch.randint(-8, 9, (nf, nd, kf), generator=gen).float() / 8
    Td = _random_data(gen, (nf, nt) if unique else (nt,), spec["vars"])
    Od = torch.randint(-16, 17, (nf, nt, net.K), generator=gen).float() / 8
    with ctx.lib("loader", feature="DeepONetDataLoader"):
        loader = RecDeepONetLoader(Bd, Td, Od, Space({a: d for a, d in spec["fout"]}),
                                   Space({a: d for a, d in spec["vars"]}),
                                   Space({a: d for a, d in net.out_vars}),
                                   branch_batch_size=int(spec["bbatch"]),
                                   trunk_batch_size=int(spec["tbatch"]),
                                   shuffle_branch=bool(spec["shuffle"][0]),
                                   shuffle_trunk=bool(spec["shuffle"][1]))
    loader.records = []
    norm, root, full = spec["norm"], float(spec["root"]), bool(spec["full"])
    kw = {"norm": norm, "root": root, "use_full_dataset": full, "weight": spec["weight"]}
    spy = None
    if spec["sig"]:
        spy = Spy(spec, dims, gen, layout="constrain", fname="constrain", out_order=outs)
        kw["constrain_fn"] = spy.fn
    with ctx.lib("construct", feature=kind):
        cond = tpc.DeepONetDataCondition(net.model, loader, **kw)
    if cond.weight != spec["weight"]:
        report("weight", kind, f"cond.weight={cond.weight!r}, given {spec['weight']!r}")
    for it, itv in enumerate(_schedule(spec)):
        before = len(loader.records)
        calls = len(spy.calls) if spy else 0
        with ctx.lib("forward", feature=kind + ("|full" if full else "")):
            _train_start(spec, cond, it)
            loss = _forward(cond, itv)
        new = loader.records[before:]
        if (not full and len(new) != 1) or (full and len(new) < 1):
            report("sampler-calls", kind, f"{len(new)} batches drawn from the loader in one forward")
            break
        if spy and len(spy.calls) - calls != len(new):
            report("residual-calls", kind, f"constrain_fn called {len(spy.calls) - calls} times for {len(new)} batches")
            break
        per_batch, mags = [], []
        for j, (bb, tb, ob) in enumerate(new):
            cols, fb, y = _cols(tb), bb[0].double(), ob[0].double()
            mo = net.outputs(cols, fb, shared=tb[0].dim() == 2)
            if spy:
                expected = {a: ("coordinate", cols[a], True) for a in coords}
                for a, v in mo.items():
                    expected[a] = ("model-output", v, False)
                _check_args(report, spy, calls + j, expected, kind)
                out = spy.rets[calls + j].detach().double()
            else:
                out = torch.cat([mo[a] for a in outs], dim=-1)
            if out.shape != y.shape:
                raise AssertionError(f"harness: output {tuple(out.shape)} vs target {tuple(y.shape)}")
            per_batch.append((out - y).abs())
            mags.append(out.abs() + y.abs())
        _norm_check(report, kind, loss, per_batch, mags, norm, root, full)
    report.flush()
    cl = _classes(spec, net, False, [f"norm:{norm}", f"root:{root}", "full" if full else "per-batch",
                                     "trunk:unique" if unique else "trunk:shared"])
    if spy is not None:
        cl.append("constrain_fn")
    return {"nontrivial": True, "classes": cl, "summary": {"functions": nf, "trunk_points": nt}}


def _run_parameter(spec, ctx):
    kind = "ParameterCondition"
    report = _Report(ctx)
    gen = _gen(spec, 1)
    param, pvals, joined = _parameter(spec, gen)
    spy = Spy(spec, _dims(spec), gen, layout="penalty", fname="penalty")
    with ctx.lib("construct", feature="joined-parameter" if joined else kind):
        cond = tpc.ParameterCondition(param, spy.fn, spec["weight"])
    if cond.weight != spec["weight"]:
        report("weight", kind, f"cond.weight={cond.weight!r}, given {spec['weight']!r}")
    for it, itv in enumerate(_schedule(spec)):
        calls = len(spy.calls)
        with ctx.lib("forward", feature=kind):
            _train_start(spec, cond, it)
            loss = _forward(cond, itv)
        if len(spy.calls) - calls != 1:
            report("residual-calls", kind, f"penalty called {len(spy.calls) - calls} times")
            break
        _check_args(report, spy, -1, {a: ("parameter", v, True) for a, v in pvals.items()}, kind)
        exp = spy.rets[-1].detach().double()
        _scalar_check(report, kind, loss, exp, exp.abs())
    report.flush()
    return {"nontrivial": True, "classes": _classes(spec, None, False), "summary": {}}


def run_case(spec, ctx):
    kind = spec["kind"]
    if kind in SAMPLER_KINDS:
        return _run_sampler_kind(spec, ctx)
    return {"PeriodicCondition": _run_periodic, "IntegroPINNCondition": _run_integro,
            "PIDeepONetCondition": _run_pideeponet, "DeepONetDataCondition": _run_deeponet_data,
            "ParameterCondition": _run_parameter}.get(kind, _run_data)(spec, ctx)
