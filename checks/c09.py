"""C09 - DeepONet output is the branch-trunk inner product; the fast trunk path is equivalent.

One case = one DeepONet configuration (trunk/branch architecture, output dimension, neurons,
random float64 weights), one batch of input functions and one batch of trunk locations.

Oracles
  (a) reference: out[i, j, c] = sum_m branch[i, c, m] * trunk[(i,) j, c, m] with the two feature
      tensors recomputed by the harness in plain torch (x @ W.T + b, own activation functions)
      from the nets' weights; invariance of row (i, j) under permutation / removal of the other
      functions and locations; every documented way of handing the same functions to the branch
      (tensor, Points, callable, CustomFunctionSet, sum of function sets, the two call sequences
      the DeepONet conditions use) gives the same output; a history of training calls on the one
      model (2-3 function sets with their own functions handed over by _forward_branch(set, iteration)
      + forward, or through a real PIDeepONetCondition, interleaved with fix_branch_input / tensor
      forwards): after every call the output is the contraction for the functions of the set named
      in that call (reference = harness contraction); the function-set OBJECTS of the history are
      re-used the way users do: shared with a second DeepONet whose branch net discretises at other
      points (same or other number of points, or the same sampler), handed over as
      model(points, function_set), sums of two function sets, and evaluated by the user at points
      of his own (FunctionSet.create_function_batch, whose result is compared with the functions
      at exactly these points) before / between the model calls; every call on either model must
      give the contraction for the named functions discretised at THAT model's branch points;
  (b) differential (shared trunk input = TrunkLinear fast path): a twin DeepONet with
      trunk_input_copied=False (torch.nn.Linear) and copied weights must give the same output,
      first and second derivatives w.r.t. the trunk inputs (torch.autograd.grad(create_graph=True)
      and torchphysics.utils.grad / laplacian) and the same gradient of a loss containing all
      three w.r.t. every parameter. Per-function trunk input (no fast path): the same comparison
      is made against the harness reference built on the net's own parameter tensors.
      (b') the comparison of (b) is repeated with an asymmetric requires_grad configuration: trunk
      locations that are plain data (no coordinate tracking: output + parameter gradients only)
      and/or groups of frozen parameters (first trunk weight/bias, all trunk weights/biases, last
      trunk layer, whole trunk, normalisation layer, branch); gradients are compared for every
      input/parameter that still requires grad.
"""
import numpy as np
import torch
from hypothesis import strategies as st

from torchphysics.models.deeponet.branchnets import ConvBranchNet1D, FCBranchNet
from torchphysics.models.deeponet.deeponet import DeepONet
from torchphysics.models.deeponet.trunknets import FCTrunkNet
from torchphysics.models.model import NormalizationLayer, Sequential
from torchphysics.problem.conditions import PIDeepONetCondition
from torchphysics.problem.domains import CustomFunctionSet, Interval, Parallelogram
from torchphysics.problem.samplers import DataSampler, GridSampler
from torchphysics.problem.spaces import FunctionSpace, Points, Space
from torchphysics.utils import grad as tp_grad
from torchphysics.utils import laplacian as tp_laplacian

PROPERTY = "C09"
RULE = ("Hypothesis draws a DeepONet: trunk FCTrunkNet (1-3 hidden layers of 1-6 neurons, smooth "
        "activations per layer, optionally behind Sequential(NormalizationLayer(domain), trunk)) "
        "over 1-2 input variables (total dim 1-3); branch FCBranchNet or ConvBranchNet1D (Conv1d + "
        "activation) on functions R^{1,2}->R^{1,2} discretised by a static GridSampler or a "
        "DataSampler (2-8 points); output dim 1-3, 1-6 neurons per component (about 8% of the "
        "multi-component cases ask for a neuron count that is not a multiple of the output dim); "
        "float64 weights drawn from a torch.Generator seeded by spec.rng; 1-5 functions "
        "f(a[,b];s) with drawn parameters, 1-7 locations; trunk input form 'repeat' (Points "
        "repeated along axis 0 + track_coord_gradients, as PIDeepONetCondition does), 'rank2' "
        "((N,d) Points as DeepONetDataLoader/examples pass), 'single' ((1,N,d)) - all three with "
        "trunk_input_copied=True - or 'perfn' ((B,N,d) different per function, "
        "trunk_input_copied=False). Every case also carries (i) a history of 2-7 calls "
        "on the one model over 2-3 function sets (length = the base batch or 1-4; perfn: always the "
        "base length): fb(set, iteration in {None,0,1,2}, via _forward_branch+forward or "
        "PIDeepONetCondition [repeat form]), fix (fix_branch_input with other functions), tensor "
        "(forward with the set's functions as tensor), fwd (model(points, set)), eval (the user calls "
        "set.create_function_batch at own points: as many as the discretisation has (1/2), one "
        "more/less, the discretisation points of either model); every op but eval carries net in "
        "{0 (3/5), 1}: net 1 is a second DeepONet of the same architecture with own weights whose "
        "branch discretises at other points (same number 3/5, one more 1/5, or the shared sampler "
        "1/5) and which is handed the SAME function-set objects; a third of the sets of length >= 2 "
        "are sums of two CustomFunctionSets; in every case a fresh function set that the user "
        "evaluated once at n_disc other points (a third of the cases also: n_disc+1 points) is "
        "handed to the model and compared with the tensor supply - calls whose iteration number equals "
        "the set's current one although the called model was handed something else since (or never this "
        "set) are judged as well (the former finding D-C14-1, fixed in dfb039a); (ii) a "
        "second differential run with asym_track in {False (2/3), True} and 0-2 frozen parameter "
        "groups (skipped when it would equal the first run or nothing requires grad). Non-trivial: (output dim >= 2 or (>= 2 functions and >= 2 "
        "locations)) and the second derivatives were compared (differentiation order 2 reached); "
        "distinct = spec hash without the rng seed.")
ASSUMPTIONS = [
    "float64 through torch.set_default_dtype(torch.float64) for the duration of a case (so that "
    "GridSampler points and operator accumulators are float64); tolerance 1e-9 relative to "
    "max(1, max|value|)",
    "trunk_input_copied=True is only exercised with trunk inputs that are identical along axis 0 "
    "(the docstring excludes anything else)",
    "the layout of the feature vector (which neurons belong to which output component) is not "
    "documented: the reference accepts the contiguous-block and the interleaved layout, as long as "
    "branch and trunk use the same one",
    "the flattening order of a discretised function (points x function components) into the branch "
    "input is the library's choice; only its consistency over all ways of supplying the function is "
    "checked",
    "torch.autograd, torch.nn.Linear, torch.nn.functional.conv1d are trusted",
    "the history model: _forward_branch(set, it) re-samples and re-discretises the set unless "
    "it == set.current_iteration_num (what DeepONetSingleModuleCondition relies on), and evaluates the "
    "branch again when the model holds other branch features (fixed finding D-C14-1); every call must "
    "therefore yield the contraction for its own set, also when two sets are used within one iteration number",
    "function-set parameters come from a DataSampler (deterministic), so re-sampling a set gives "
    "the same functions and the expected output of a set does not depend on the iteration",
    "a FunctionSet object may be used by several consumers (two DeepONets / conditions, the user "
    "evaluating it at points of his own through the public create_function_batch after "
    "sample_params): create_function_batch(points) is documented to return the functions at the "
    "points it is given, so every consumer must get the functions at ITS points whatever the set "
    "was evaluated at before; current_iteration_num is an attribute of the set shared by all "
    "models",
    "the feature layout (block / interleaved) found for the first model is also the one of the "
    "second DeepONet (same classes, same library)",
    "frozen parameters / untracked locations: only gradients w.r.t. tensors that require grad are "
    "compared (None from autograd counts as zero); torch.nn.Linear is the reference for which "
    "gradients exist",
    "library grad/laplacian are called with one variable at a time and compared fast path against "
    "twin (their own correctness is C03)",
]
BUDGET = {"quick": {"examples": 180, "workers": 4},
          "thorough": {"examples": 1500, "workers": 14}}

TOL = 1e-9
SMOOTH = ["tanh", "sin", "sigmoid", "softplus", "gelu"]
BRANCH_ACTS = SMOOTH + ["relu"]
FORMS = ["repeat", "rank2", "single", "perfn"]
FROZEN = ["trunk-first-weight", "trunk-first-weight", "trunk-first-bias", "trunk-weights",
          "trunk-biases", "trunk-last", "trunk-all", "norm", "norm", "branch"]
EVAL_PTS = ["same-count", "same-count", "same-count", "other-count", "disc", "disc-net2"]
NET2_DISC = ["same-count", "same-count", "same-count", "other-count", "shared-sampler"]
IN_VARS = [[["x", 1]], [["x", 2]], [["x", 1], ["t", 1]], [["x", 2], ["t", 1]], [["t", 1], ["x", 2]],
           [["x", 3]]]


class _Sin(torch.nn.Module):
    def forward(self, x):
        return torch.sin(x)


def _act_module(name):
    return {"tanh": torch.nn.Tanh, "sin": _Sin, "sigmoid": torch.nn.Sigmoid,
            "softplus": torch.nn.Softplus, "gelu": torch.nn.GELU, "relu": torch.nn.ReLU}[name]()


def _act_fn(name):
    # the harness' own activation functions (plain formulas where there is one)
    return {"tanh": torch.tanh, "sin": torch.sin,
            "sigmoid": lambda z: 1.0 / (1.0 + torch.exp(-z)),
            "softplus": torch.nn.functional.softplus,
            "gelu": lambda z: 0.5 * z * (1.0 + torch.erf(z / np.sqrt(2.0))),
            "relu": lambda z: torch.clamp(z, min=0.0)}[name]


# ------------------------------------------------------------------------------------ strategy
@st.composite
def _case(draw, tier):
    big = tier == "thorough"
    in_vars = draw(st.sampled_from(IN_VARS))
    out_dim = draw(st.sampled_from([1, 2, 2, 3]))
    per = draw(st.integers(1, 8 if big else 6))
    extra = 0
    if out_dim > 1 and draw(st.integers(0, 11)) == 0:
        extra = draw(st.integers(1, out_dim - 1))
    nl_t = draw(st.integers(1, 3))
    nl_b = draw(st.integers(1, 3))
    hmax = 10 if big else 6
    branch = draw(st.sampled_from(["fc", "fc", "conv"]))
    fin_dim = draw(st.sampled_from([1, 1, 2]))
    spec = {
        "in_vars": in_vars,
        "norm": draw(st.booleans()),
        "norm_box": [draw(st.sampled_from([[0.0, 1.0], [-1.0, 1.0], [-0.5, 0.25], [0.25, 2.0]]))
                     for _ in range(sum(d for _, d in in_vars))],
        "trunk_hidden": [draw(st.integers(1, hmax)) for _ in range(nl_t)],
        "trunk_acts": [draw(st.sampled_from(SMOOTH)) for _ in range(nl_t)],
        "acts_as_list": draw(st.booleans()),
        "branch": branch,
        "branch_hidden": [draw(st.integers(1, hmax)) for _ in range(nl_b)],
        "branch_acts": [draw(st.sampled_from(BRANCH_ACTS)) for _ in range(nl_b)],
        "conv_kernel": draw(st.sampled_from([1, 3, 5])),
        "conv_act": draw(st.sampled_from(SMOOTH)),
        "out_dim": out_dim,
        "per": per,
        "extra": extra,
        "n_fn": draw(st.integers(1, 5)),
        "n_loc": draw(st.integers(1, 7)),
        "form": draw(st.sampled_from(["repeat", "repeat", "rank2", "single", "perfn"])),
        "fdim": draw(st.sampled_from([1, 1, 2])),
        "fin_dim": fin_dim,
        "n_disc": draw(st.integers(2, 8)),
        "disc": "data" if fin_dim == 2 else draw(st.sampled_from(["grid", "data"])),
        "n_par": draw(st.integers(1, 2)),
        "fn_kind": draw(st.integers(0, 2)),
        "rng": draw(st.integers(0, 2 ** 31 - 1)),
    }
    # training-call history: 2-3 function sets (length 0 = "as many functions as the base batch")
    # used on the ONE model through DeepONet._forward_branch / PIDeepONetCondition
    n_sets = draw(st.integers(2, 3))
    spec["fb_lens"] = [draw(st.sampled_from([0, 0, 0, 0, 0, 1, 2, 3, 4])) for _ in range(n_sets)]
    spec["fb_ops"] = draw(st.lists(_fb_op(), min_size=2, max_size=7))
    # a function set may be a sum of two function sets; the second DeepONet (ops with net=1)
    # discretises the functions at other points (mostly the same number of them)
    spec["fb_sum"] = [draw(st.sampled_from([False, False, True])) for _ in range(n_sets)]
    spec["net2_disc"] = draw(st.sampled_from(NET2_DISC))
    # second differential run with asymmetric requires_grad flags
    spec["asym_track"] = draw(st.sampled_from([False, False, True]))
    spec["asym_frozen"] = draw(st.lists(st.sampled_from(FROZEN), max_size=2, unique=True))
    return spec


@st.composite
def _fb_op(draw):
    kind = draw(st.sampled_from(["fb", "fb", "fb", "fb", "fb", "fix", "tensor", "eval", "eval", "fwd"]))
    net = draw(st.sampled_from([0, 0, 0, 1, 1]))
    if kind == "fb":
        return {"op": "fb", "set": draw(st.integers(0, 2)),
                "it": draw(st.sampled_from([None, 0, 0, 1, 1, 2])),
                "via": draw(st.sampled_from(["direct", "cond"])), "net": net}
    if kind == "tensor":
        return {"op": "tensor", "set": draw(st.integers(0, 2)), "net": net}
    if kind == "fwd":       # model(points, function_set)
        return {"op": "fwd", "set": draw(st.integers(0, 2)), "net": net}
    if kind == "eval":      # the user evaluates the function set somewhere (plot / own loss term)
        return {"op": "eval", "set": draw(st.integers(0, 2)),
                "pts": draw(st.sampled_from(EVAL_PTS))}
    return {"op": "fix", "net": net}


def strategy(tier):
    return _case(tier)


def extra_cases(tier, seed):
    """Small deterministic grid: every trunk form x branch kind x output dim, multi-row batches."""
    k = 0
    for form in FORMS:
        for branch in ("fc", "conv"):
            for out_dim in (1, 2, 3):
                k += 1
                iv = IN_VARS[(k + out_dim) % len(IN_VARS)]
                it = [0, None, 3][k % 3] if k % 2 else [0, 2, None][k % 3]
                via = ["cond", "direct"][(k // 2) % 2]
                yield {
                    "in_vars": iv, "norm": bool(k % 2),
                    "norm_box": [[-0.5, 0.25]] * sum(d for _, d in iv),
                    "trunk_hidden": [3, 4][: 1 + k % 2], "trunk_acts": ["tanh", "sin"][: 1 + k % 2],
                    "acts_as_list": bool(k % 3), "branch": branch,
                    "branch_hidden": [4, 3][: 1 + (k + 1) % 2],
                    "branch_acts": ["softplus", "tanh"][: 1 + (k + 1) % 2],
                    "conv_kernel": 3, "conv_act": "tanh", "out_dim": out_dim,
                    "per": out_dim if k % 2 else 3, "extra": 0,
                    "n_fn": 2 + k % 3, "n_loc": 2 + (k + out_dim) % 4, "form": form,
                    "fdim": 1 + k % 2, "fin_dim": 1, "n_disc": 4 + k % 3,
                    "disc": ["grid", "data"][k % 2], "n_par": 1 + k % 2, "fn_kind": k % 3,
                    "rng": (seed * 7919 + 104729 * k) % (2 ** 31 - 1),
                    # two conditions with different function sets of equal length on one model,
                    # two training iterations (every second case with the default iteration=None)
                    "fb_lens": [0, 0, 0 if k % 4 else 1],
                    "fb_ops": [{"op": "fb", "set": 0, "it": it, "via": via},
                               {"op": "fb", "set": 1, "it": it, "via": via},
                               {"op": "fb", "set": 2, "it": it, "via": "direct"}]
                    + ([] if it is None else
                       [{"op": "fb", "set": 1, "it": it + 1, "via": via},
                        {"op": "fb", "set": 0, "it": it + 1, "via": "direct"},
                        {"op": "tensor", "set": 1},
                        {"op": "fb", "set": 0, "it": it + 2, "via": via}]),
                    # data-driven training (locations are plain data) / partly frozen networks
                    "asym_track": [False, True, False, False, True, False][k % 6],
                    "asym_frozen": [[], ["trunk-first-weight"], ["norm"], ["trunk-first-bias", "norm"],
                                    ["trunk-weights"], ["branch"]][k % 6],
                }
    # two conditions with different function sets of equal length sharing one DeepONet over three
    # training iterations / purely data-driven parameter-gradient comparison, plain trunk
    base = {"in_vars": [["x", 2]], "norm": False, "norm_box": [[0.0, 1.0]] * 2,
            "trunk_hidden": [5, 4], "trunk_acts": ["tanh", "tanh"], "acts_as_list": False,
            "branch": "fc", "branch_hidden": [4, 4], "branch_acts": ["tanh", "tanh"],
            "conv_kernel": 3, "conv_act": "tanh", "out_dim": 2, "per": 4, "extra": 0, "n_fn": 3,
            "n_loc": 5, "fdim": 1, "fin_dim": 1, "n_disc": 6, "disc": "grid", "n_par": 1,
            "fn_kind": 1, "fb_lens": [0, 0]}
    for j, form in enumerate(["repeat", "rank2", "single"]):
        for i, its in enumerate([[0, 1, 2], [None, None]]):
            yield dict(base, form=form, rng=(seed * 31 + 1000003 * (2 * j + i + 1)) % (2 ** 31 - 1),
                       fb_ops=[{"op": "fb", "set": s_, "it": it, "via": ["cond", "direct"][i]}
                               for it in its for s_ in ((0, 1) if it != 1 else (1, 0))][: 6 if i == 0 else 2],
                       asym_track=bool(i), asym_frozen=["trunk-first-weight"] if i else [])
    # ONE function-set object used twice at different points: shared by two DeepONets whose branch
    # nets discretise at different points (equal / different number of them), evaluated by the user
    # at his own points before / between the training calls, sums of function sets
    reuse = [
        # two DeepONets (two conditions) share the function sets, every iteration
        [{"op": "fb", "set": 0, "it": 0, "via": "cond", "net": 0},
         {"op": "fb", "set": 0, "it": 1, "via": "cond", "net": 1},
         {"op": "fb", "set": 1, "it": 1, "via": "direct", "net": 1},
         {"op": "fb", "set": 1, "it": 2, "via": "direct", "net": 0},
         {"op": "fb", "set": 0, "it": 2, "via": "cond", "net": 0}],
        # model(points, function_set) on two models, then training calls
        [{"op": "fwd", "set": 0, "net": 0}, {"op": "fwd", "set": 0, "net": 1},
         {"op": "fwd", "set": 0, "net": 0}, {"op": "fb", "set": 0, "it": 0, "via": "direct", "net": 1},
         {"op": "tensor", "set": 0, "net": 1}, {"op": "fb", "set": 0, "it": None, "via": "cond", "net": 0}],
        # the user looks at the functions at his own points first / in between
        [{"op": "eval", "set": 0, "pts": "same-count"}, {"op": "fb", "set": 0, "it": 0, "via": "cond", "net": 0},
         {"op": "eval", "set": 1, "pts": "other-count"}, {"op": "fwd", "set": 1, "net": 0},
         {"op": "eval", "set": 1, "pts": "same-count"}, {"op": "fb", "set": 1, "it": 1, "via": "direct", "net": 0},
         {"op": "eval", "set": 1, "pts": "disc"}],
        [{"op": "fb", "set": 1, "it": None, "via": "direct", "net": 0},
         {"op": "eval", "set": 1, "pts": "disc-net2"}, {"op": "eval", "set": 0, "pts": "disc-net2"},
         {"op": "fix", "net": 0}, {"op": "fb", "set": 0, "it": 3, "via": "cond", "net": 0},
         {"op": "fb", "set": 1, "it": 3, "via": "cond", "net": 0},
         {"op": "fwd", "set": 1, "net": 1}],
    ]
    k = 0
    for form in FORMS:
        for h, ops in enumerate(reuse):
            k += 1
            two_d = k % 4 == 0
            yield dict(base, form=form, branch=["fc", "conv"][k % 2], fdim=1 + k % 2,
                       fin_dim=2 if two_d else 1, disc="data" if (two_d or k % 3 == 0) else "grid",
                       n_par=1 + (k // 2) % 2, fn_kind=k % 3, out_dim=1 + k % 3, per=3, n_fn=2 + k % 3,
                       n_disc=3 + k % 4, rng=(seed * 131 + 15485863 * k) % (2 ** 31 - 1),
                       fb_lens=[0, 0 if k % 2 else 2], fb_ops=ops,
                       fb_sum=[bool(k % 3 == 1), bool(k % 2)],
                       net2_disc=NET2_DISC[k % 5], asym_track=True, asym_frozen=[])


# ------------------------------------------------------------------------------------ building
def _function(spec):
    """Input functions f(a[, b]; s) -> R^fdim; written so that they broadcast over leading axes
    (the function set hands (B, P, .) meshgrids, fix_input(callable) hands (P, .))."""
    fdim, kind = spec["fdim"], spec["fn_kind"]

    def core(a, b, s):
        S = s.sum(dim=-1, keepdim=True)
        cols = []
        for c in range(fdim):
            if kind == 0:
                cols.append(torch.sin((c + 1.0) * a * S) + b * S ** 2)
            elif kind == 1:
                cols.append(a * S + b * torch.cos((c + 2.0) * S) + 0.3 * c)
            else:
                cols.append(a * torch.exp(-S * (c + 1.0)) + b * b * S)
        return torch.cat(cols, dim=-1)

    if spec["n_par"] == 1:
        def fn(a, s):
            return core(a, 0.5 * a, s)
    else:
        def fn(a, b, s):
            return core(a, b, s)
    return fn


def _single_function(fn, k_row):
    def f(s):
        return fn(*[k_row[k] for k in range(len(k_row))], s)
    return f


def _spaces(spec):
    in_space = Space({n: d for n, d in spec["in_vars"]})
    out_space = Space({"u": spec["out_dim"]})
    f_in = Space({"s": spec["fin_dim"]})
    f_out = Space({"f": spec["fdim"]})
    if spec["fin_dim"] == 1:
        f_dom = Interval(f_in, 0.0, 1.0)
    else:
        f_dom = Parallelogram(f_in, [0.0, 0.0], [1.0, 0.0], [0.0, 1.0])
    return in_space, out_space, f_dom, f_out


def _norm_domain(spec):
    dom, k = None, 0
    for n, d in spec["in_vars"]:
        sp = Space({n: d})
        box = spec["norm_box"][k:k + d]
        k += d
        if d == 1:
            part = Interval(sp, box[0][0], box[0][1])
        elif d == 2:
            o = [box[0][0], box[1][0]]
            part = Parallelogram(sp, o, [box[0][1], box[1][0]], [box[0][0], box[1][1]])
        else:
            return None     # no normalisation layer offered for a single 3-D variable
        dom = part if dom is None else dom * part
    return dom


def _build(spec, copied, disc_sampler, f_space, in_space, out_space):
    acts = [_act_module(a) for a in spec["trunk_acts"]]
    if not spec["acts_as_list"] and len(set(spec["trunk_acts"])) == 1:
        acts = acts[0]          # documented alternative: one module for all layers
    trunk = FCTrunkNet(in_space, hidden=tuple(spec["trunk_hidden"]), activations=acts,
                       trunk_input_copied=copied)
    dom = _norm_domain(spec) if spec["norm"] else None
    trunk_model = Sequential(NormalizationLayer(dom), trunk) if dom is not None else trunk
    bacts = [_act_module(a) for a in spec["branch_acts"]]
    if spec["branch"] == "fc":
        branch = FCBranchNet(f_space, disc_sampler, hidden=tuple(spec["branch_hidden"]),
                             activations=bacts)
    else:
        k = spec["conv_kernel"]
        conv = torch.nn.Sequential(torch.nn.Conv1d(spec["fdim"], spec["fdim"], k, padding=k // 2),
                                   _act_module(spec["conv_act"]))
        branch = ConvBranchNet1D(f_space, disc_sampler, conv, hidden=tuple(spec["branch_hidden"]),
                                 activations=bacts)
    neurons = spec["per"] * spec["out_dim"] + spec["extra"]
    net = DeepONet(trunk_model, branch, out_space, neurons)
    return net.to(torch.float64), trunk, dom is not None


def _randomise(net, gen):
    with torch.no_grad():
        for name, p in net.named_parameters():
            if ".normalize." in name:
                continue        # keep the scaling the layer computed from its domain
            if p.dim() >= 2:
                fan_in = int(np.prod(p.shape[1:]))
                p.copy_(torch.randn(p.shape, generator=gen, dtype=torch.float64)
                        * (1.6 / np.sqrt(fan_in)))
            else:
                p.copy_(torch.randn(p.shape, generator=gen, dtype=torch.float64) * 0.5)


def _linears(seq):
    return [(m.weight, m.bias) for m in seq if hasattr(m, "weight")]


def _mlp(z, linears, act_names):
    for k, (w, b) in enumerate(linears):
        z = z.matmul(w.transpose(0, 1)) + b
        if k < len(linears) - 1:
            z = _act_fn(act_names[k])(z)
    return z


class _Reference:
    """Plain-torch re-implementation on the net's own parameter tensors."""

    def __init__(self, spec, net, trunk, has_norm):
        self.spec, self.net = spec, net
        self.trunk_lin = _linears(trunk.sequential)
        self.branch_lin = _linears(net.branch.sequential)
        self.norm = net.trunk.models[0].normalize if has_norm else None
        self.conv = net.branch.conv_net[0] if spec["branch"] == "conv" else None

    def branch_flat(self, disc):
        B = disc.shape[0]
        if self.conv is None:
            z = disc.reshape(B, -1)
        else:
            k = self.spec["conv_kernel"]
            z = torch.nn.functional.conv1d(disc.permute(0, 2, 1), self.conv.weight, self.conv.bias,
                                           padding=k // 2)
            z = _act_fn(self.spec["conv_act"])(z).permute(0, 2, 1).reshape(B, -1)
        return _mlp(z, self.branch_lin, self.spec["branch_acts"])

    def trunk_flat(self, x):
        if self.norm is not None:
            x = x.matmul(self.norm.weight.transpose(0, 1)) + self.norm.bias
        return _mlp(x, self.trunk_lin, self.spec["trunk_acts"])

    def outputs(self, x, disc):
        """x: (N,d) shared or (B,N,d); returns the outputs under the two consistent layouts, each
        (B, N, dim), or None when the feature width is not a multiple of the output dim."""
        dim = self.spec["out_dim"]
        bf, tf = self.branch_flat(disc), self.trunk_flat(x)
        width = bf.shape[-1]
        if width % dim or tf.shape[-1] != width:
            return None
        M = width // dim
        res = []
        for layout in ("block", "interleaved"):
            if layout == "block":
                b3, t3 = bf.reshape(-1, dim, M), tf.reshape(*tf.shape[:-1], dim, M)
            else:
                b3 = bf.reshape(-1, M, dim).transpose(-1, -2)
                t3 = tf.reshape(*tf.shape[:-1], M, dim).transpose(-1, -2)
            if t3.dim() == 3:
                res.append(torch.einsum("icm,jcm->ijc", b3, t3))
            else:
                res.append(torch.einsum("icm,ijcm->ijc", b3, t3))
        return res


# ------------------------------------------------------------------------------------ helpers
def _err(a, b):
    a, b = a.detach(), b.detach()
    scale = max(1.0, float(a.abs().max()) if a.numel() else 0.0,
                float(b.abs().max()) if b.numel() else 0.0)
    err = float((a - b).abs().max()) if a.numel() else 0.0
    return err, scale, bool(np.isfinite(err) and err <= TOL * scale)


def _trunk_points(spec, x, in_space, n_fn, track=False):
    """The Points handed to DeepONet.forward for a trunk tensor x ((N,d) shared or (B,N,d))."""
    form = spec["form"]
    if form == "perfn":
        p = Points(x.clone(), in_space)
    elif form == "rank2":
        p = Points(x.clone(), in_space)
    elif form == "single":
        p = Points(x.clone(), in_space).unsqueeze(0)
    else:   # exactly what DeepONetSingleModuleCondition.forward does
        p = Points(x.clone(), in_space).unsqueeze(0).repeat(n_fn, 1, 1)
    if track:
        return p.track_coord_gradients()
    return None, p


class _Compare:
    def __init__(self, ctx, spec):
        self.ctx, self.spec, self.worst = ctx, spec, {}

    def check(self, kind, feature, got, want, what, shape=None):
        if not isinstance(got, torch.Tensor) or (shape is not None and tuple(got.shape) != tuple(shape)) \
                or tuple(got.shape) != tuple(want.shape):
            self.ctx.violation("shape", feature,
                               f"{what}: got {tuple(got.shape) if isinstance(got, torch.Tensor) else type(got)}"
                               f" expected {tuple(want.shape)}")
            return False
        err, scale, ok = _err(got, want)
        self.worst[kind] = max(self.worst.get(kind, 0.0), err / scale if np.isfinite(err) else 1.0)
        if not ok:
            self.ctx.violation(kind, feature, f"{what}: max|diff|={err:.3e} (scale {scale:.2e})")
        return True     # the comparison was made (whatever its outcome)


def _derivatives(y, coords, var_names, w0):
    """First derivatives and full Hessians of every output component w.r.t. all trunk variables,
    with create_graph=True. y: (.., N, dim); returns g (dim, .., d) and H (dim, .., d, d)."""
    xs = [coords[v] for v in var_names]
    gs, Hs = [], []
    for c in range(y.shape[-1]):
        g = torch.autograd.grad((y[..., c] * w0[..., c]).sum(), xs, create_graph=True,
                                allow_unused=True)
        g = torch.cat([gi if gi is not None else torch.zeros_like(xi) for gi, xi in zip(g, xs)], dim=-1)
        rows = []
        for a in range(g.shape[-1]):
            if g.grad_fn is None:
                rows.append(torch.zeros_like(g))
                continue
            h = torch.autograd.grad(g[..., a].sum(), xs, create_graph=True, allow_unused=True)
            rows.append(torch.cat([hi if hi is not None else torch.zeros_like(xi)
                                   for hi, xi in zip(h, xs)], dim=-1))
        gs.append(g)
        Hs.append(torch.stack(rows, dim=-2))
    return torch.stack(gs), torch.stack(Hs)


def _loss0(y, lw):
    return (y ** 2).mean() + (y * lw[0]).sum()


def _frozen_names(names, groups):
    """Parameter names selected by the group labels of spec['asym_frozen']."""
    trunk = [n for n in names if n.startswith("trunk") and ".normalize." not in n]
    idx = sorted({int(n.split(".")[-2]) for n in trunk})
    first = [n for n in trunk if int(n.split(".")[-2]) == idx[0]]
    last = [n for n in trunk if int(n.split(".")[-2]) == idx[-1]]
    sel = {"trunk-first-weight": [n for n in first if n.endswith(".weight")],
           "trunk-first-bias": [n for n in first if n.endswith(".bias")],
           "trunk-weights": [n for n in trunk if n.endswith(".weight")],
           "trunk-biases": [n for n in trunk if n.endswith(".bias")],
           "trunk-last": last, "trunk-all": trunk,
           "norm": [n for n in names if ".normalize." in n],
           "branch": [n for n in names if n.startswith("branch")]}
    return frozenset(n for g in groups for n in sel[g])


def _loss(y, g, H, lw):
    return ((y ** 2).mean() + (g ** 2).mean() + (H ** 2).mean()
            + (y * lw[0]).sum() + (g * lw[1]).sum() + (H * lw[2]).sum())


def _eval_function_set(ctx, cmp, fs, fn, kv, pts, f_in, f_out_dim, feat, what, sample):
    """The user evaluates a function set at points of his own: FunctionSet.create_function_batch
    is documented to return the functions at exactly these points, shape (len(set), len(points),
    output dim).  Returns True when the comparison was made."""
    with torch.no_grad():
        want = fn(*[kv[:, k:k + 1].unsqueeze(1) for k in range(kv.shape[1])],
                  pts.unsqueeze(0).expand(kv.shape[0], -1, -1)).clone()
    with ctx.lib("FunctionSet.create_function_batch", feature=feat):
        if sample:
            fs.sample_params()
        got = fs.create_function_batch(Points(pts.clone(), f_in))
    if not isinstance(got, Points):
        ctx.violation("shape", feat, f"{what}: create_function_batch returned {type(got).__name__}")
        return False
    return cmp.check("function-batch", feat, got.as_tensor.detach(), want,
                     what + " vs the functions of the set at these points",
                     shape=(kv.shape[0], pts.shape[0], f_out_dim))


def _history(spec, ctx, cmp, net, ref, best, fn, f_space, in_space, disc_pts, x, poison, gen,
             second_net, gen2):
    """Training-call history on ONE model (and a second DeepONet sharing the function sets): 2-3
    function sets (own drawn parameters) are handed to the model the way
    DeepONetSingleModuleCondition.forward does (_forward_branch(set, iteration) followed by a
    forward without branch input; 'cond' = through a real PIDeepONetCondition), interleaved with
    other ways of fixing the branch, with uses of the same function-set objects by a second DeepONet
    whose branch discretises at other points, and with the user evaluating a function set at points
    of his own (create_function_batch).  After every call the output must be the contraction for
    the functions of the set that was named in THIS call, discretised at the points of the branch
    net of the model that was called.

    The history is interpreted against a model of the documented caching rule (a function set is
    re-sampled and re-discretised once per iteration number).  Calls for which the clean library is
    used to leave another set's branch features in the model (set.current_iteration_num ==
    iteration although this model was handed something else in between / never this set; finding
    D-C14-1 of C14, fixed in dfb039a) are part of the history and judged like every other call."""
    ops = spec.get("fb_ops") or []
    if not ops:
        return []
    form, B, n_par = spec["form"], spec["n_fn"], spec["n_par"]
    feat = "forward-branch-history"
    f_in = Space({"s": spec["fin_dim"]})
    lens = [B if (form == "perfn" or not L) else int(L) for L in (spec.get("fb_lens") or [0, 0])]
    sums = list(spec.get("fb_sum") or [])
    # the models: [0] the model of the case, [1] built on first use
    models = [{"net": net, "ref": ref, "pts": disc_pts, "holder": None}]

    def model(m):
        if m and len(models) == 1:
            net2, ref2, pts2 = second_net()
            models.append({"net": net2, "ref": ref2, "pts": pts2, "holder": None})
        return models[1 if m else 0]

    def par_sampler(kv):
        return DataSampler({n: kv[:, k:k + 1].clone() for k, n in enumerate(["a", "b"][:n_par])})

    sets = []
    for j, L in enumerate(lens):
        kv = torch.randn((L, n_par), generator=gen, dtype=torch.float64)
        summed = bool(L >= 2 and j < len(sums) and sums[j])
        with ctx.lib("construct function set", feature=feat):
            if summed:      # documented: the batch of a sum = the batches of the operands
                h = L // 2
                fs = CustomFunctionSet(f_space, par_sampler(kv[:h]), fn) \
                    + CustomFunctionSet(f_space, par_sampler(kv[h:]), fn)
            else:
                fs = CustomFunctionSet(f_space, par_sampler(kv), fn)
        sets.append({"fs": fs, "kv": kv, "disc": {}, "want": {}, "cur": -1, "cond": {}, "len": L,
                     "seen": {}, "sampled": False, "summed": summed, "last_pts": None})

    def expected(S, m):
        """(functions of the set at the branch points of model m, contraction for them)"""
        if m not in S["want"]:
            M = model(m)
            with torch.no_grad():
                S["disc"][m] = fn(*[S["kv"][:, k:k + 1].unsqueeze(1) for k in range(n_par)],
                                  M["pts"].unsqueeze(0).expand(S["len"], -1, -1)).clone()
                S["want"][m] = M["ref"].outputs(x, S["disc"][m])[best]
        return S["disc"][m], S["want"][m]

    def evaluates_at(S, pts):
        """bookkeeping for the class histogram: the function-set OBJECT is evaluated at pts"""
        last = S["last_pts"]
        if last is not None and not (last.shape == pts.shape and torch.equal(last, pts)):
            labels.add("history-set-reused-at-other-points"
                       + ("-same-count" if last.shape == pts.shape else ""))
        S["last_pts"] = pts

    labels, prev_fb = set(), None
    for k, op in enumerate(ops):
        m = 1 if int(op.get("net") or 0) else 0
        if op["op"] == "fix":
            M = model(m)
            with ctx.lib("fix_branch_input", feature=feat):
                n_in = M["pts"].shape[0]
                M["net"].fix_branch_input(poison.clone() if n_in == poison.shape[1] else
                                          poison[:, :1].expand(-1, n_in, -1).clone())
            M["holder"] = None
            continue
        s = int(op["set"]) % len(sets)
        S = sets[s]
        if op["op"] == "eval":
            kind_p = op.get("pts") or "same-count"
            n_d = disc_pts.shape[0]
            if kind_p == "disc":
                pts = disc_pts.clone()
            elif kind_p == "disc-net2":
                pts = model(1)["pts"].clone()
            else:
                n_p = n_d if kind_p == "same-count" else (n_d + 1 if k % 2 else max(1, n_d - 1))
                pts = torch.rand((n_p, spec["fin_dim"]), generator=gen2, dtype=torch.float64)
            if _eval_function_set(ctx, cmp, S["fs"], fn, S["kv"], pts, f_in, spec["fdim"], feat,
                                  f"op {k}: function set {s} evaluated at {pts.shape[0]} points of "
                                  f"the user ({kind_p})", sample=not S["sampled"]):
                labels.add("history-set-evaluated-by-user")
            S["sampled"] = True
            evaluates_at(S, pts)
            continue
        M = model(m)
        S_disc, S_want = expected(S, m)
        if op["op"] == "tensor":
            with ctx.lib("forward/history tensor", feature=feat):
                _, p = _trunk_points(spec, x, in_space, S["len"])
                out = M["net"](p, S_disc.clone())
            M["holder"] = None
            kind, what = "supply-mismatch", f"op {k}: functions of set {s} as tensor (net {m})"
        elif op["op"] == "fwd":
            with ctx.lib("forward/history function set", feature=feat):
                _, p = _trunk_points(spec, x, in_space, S["len"])
                out = M["net"](p, S["fs"])
            M["holder"], S["sampled"] = s, True
            evaluates_at(S, M["pts"])
            kind, what = "supply-mismatch", f"op {k}: model(points, function set {s}) (net {m})"
        else:
            it = op["it"]
            cached = it == S["cur"]
            if cached and M["holder"] != s:
                # same iteration number although this model was handed something else in between (or never
                # this set): the branch has to be evaluated again for THIS set (was finding D-C14-1, fixed)
                labels.add("history-other-holder-same-iteration")
            via = op["via"] if form == "repeat" else "direct"
            if via == "cond":
                if m not in S["cond"]:
                    def residual(u, _seen=S["seen"]):
                        _seen["u"] = u
                        return u
                    with ctx.lib("construct PIDeepONetCondition", feature=feat):
                        S["cond"][m] = PIDeepONetCondition(M["net"], S["fs"],
                                                           DataSampler(Points(x.clone(), in_space)),
                                                           residual, name=f"set{s}net{m}")
                S["seen"].clear()
                with ctx.lib("PIDeepONetCondition.forward", feature=feat):
                    S["cond"][m](iteration=it)
                out = S["seen"].get("u")
            else:
                with ctx.lib("_forward_branch + forward", feature=feat):
                    M["net"]._forward_branch(S["fs"], iteration_num=it)
                    _, p = _trunk_points(spec, x, in_space, S["len"])
                    out = M["net"](p)
            if prev_fb is not None and prev_fb[0] != s and prev_fb[1] == it and prev_fb[2] == m:
                labels.add("history-two-sets-one-iteration"
                           + ("-equal-length" if sets[prev_fb[0]]["len"] == S["len"] else ""))
            if cached:
                labels.add("history-cached-call")
            else:
                evaluates_at(S, M["pts"])
            S["cur"], M["holder"], prev_fb, S["sampled"] = it, s, (s, it, m), True
            kind = "stale-branch"
            what = (f"op {k}: function set {s} (length {S['len']}) at iteration {it} via {via}"
                    f"{' (cached)' if cached else ''} (net {m})")
        if isinstance(out, Points):
            out = out.as_tensor
        if not isinstance(out, torch.Tensor):
            ctx.violation("shape", feat, f"{what}: model output is {type(out).__name__}")
            continue
        cmp.check(kind, feat, out.detach(), S_want,
                  what + " vs sum_m branch[i,c,m]*trunk[j,c,m] for the functions of that set")
        labels.add("history-checked")
        if op["op"] != "tensor":
            if S["summed"]:
                labels.add("history-summed-set")
            if m:
                labels.add("history-second-net")
    return sorted(labels)


# ------------------------------------------------------------------------------------ the case
def run_case(spec, ctx):
    old = torch.get_default_dtype()
    torch.set_default_dtype(torch.float64)
    try:
        return _run(spec, ctx)
    finally:
        torch.set_default_dtype(old)


def _run(spec, ctx):
    gen = torch.Generator().manual_seed(int(spec["rng"]))
    # second, independent stream for the function-set re-use configurations (keeps the values of
    # all other draws of a spec unchanged)
    gen2 = torch.Generator().manual_seed((int(spec["rng"]) * 48271 + 11) % (2 ** 31 - 1))
    form, dim = spec["form"], spec["out_dim"]
    B, N = spec["n_fn"], spec["n_loc"]
    d_in = sum(d for _, d in spec["in_vars"])
    var_names = [n for n, _ in spec["in_vars"]]
    copied = form != "perfn"
    indivisible = spec["extra"] > 0
    feat = "neurons-indivisible" if indivisible else form
    cmp = _Compare(ctx, spec)

    def rnd(*shape):
        return torch.rand(shape, generator=gen, dtype=torch.float64)

    # ---- objects -----------------------------------------------------------------------
    with ctx.lib("construct", feature="setup"):
        in_space, out_space, f_dom, f_out = _spaces(spec)
        f_space = FunctionSpace(f_dom, f_out)
        if spec["disc"] == "grid":
            disc_sampler = GridSampler(f_dom, spec["n_disc"]).make_static()
        else:
            disc_sampler = DataSampler({"s": rnd(spec["n_disc"], spec["fin_dim"])})
        disc_pts = disc_sampler.sample_points().as_tensor
    if tuple(disc_pts.shape) != (spec["n_disc"], spec["fin_dim"]) or disc_pts.dtype != torch.float64:
        ctx.inconclusive_case("discretisation-sampler")     # C02's business, not this property
        return {"nontrivial": False, "classes": ["disc-sampler-off"], "summary": {}}
    with ctx.lib("construct", feature="deeponet"):
        net, trunk, has_norm = _build(spec, copied, disc_sampler, f_space, in_space, out_space)
    _randomise(net, gen)
    ref = _Reference(spec, net, trunk, has_norm)

    # ---- data --------------------------------------------------------------------------
    kv = torch.randn((B, spec["n_par"]), generator=gen, dtype=torch.float64)
    fn = _function(spec)
    par_names = ["a", "b"][: spec["n_par"]]

    def pars(rows):
        return {n: kv[rows, k:k + 1] for k, n in enumerate(par_names)}

    with torch.no_grad():
        disc = fn(*[kv[:, k:k + 1].unsqueeze(1) for k in range(spec["n_par"])],
                  disc_pts.unsqueeze(0).expand(B, -1, -1)).clone()      # (B, P, fdim)
    box = torch.tensor(spec["norm_box"], dtype=torch.float64)
    lo, hi = box[:, 0], box[:, 1]
    x = lo + (hi - lo) * rnd(*((B, N, d_in) if form == "perfn" else (N, d_in)))
    x0, disc0 = x.clone(), disc.clone()

    def x_rows(rows):       # trunk tensor for a sub-batch of functions
        return x[rows] if form == "perfn" else x

    def forward(model, xt, branch_in, n_fn, label, fix=None):
        """One forward through the public call; returns the output tensor (detached)."""
        with ctx.lib(label, feature=feat):
            _, p = _trunk_points(spec, xt, in_space, n_fn)
            if fix is not None:
                fix(model)
                out = model(p)
            else:
                out = model(p, branch_in)
        if not isinstance(out, Points):
            ctx.violation("shape", feat, f"{label}: forward returned {type(out).__name__}")
            return None
        return out.as_tensor.detach()

    # ---- (a) reference contraction -------------------------------------------------------
    out_base = forward(net, x, disc, B, "forward")
    if out_base is None:
        return None
    with torch.no_grad():
        refs = ref.outputs(x, disc)
    classes = [form, spec["branch"], f"dim{dim}", f"vars{len(var_names)}",
               "norm" if has_norm else "plain-trunk", f"disc-{spec['disc']}",
               "B1" if B == 1 else "B>1", "N1" if N == 1 else "N>1"]
    if refs is None:
        ctx.violation("shape", feat, "forward returned although the sub-nets' feature width is not "
                                     f"a multiple of the output dim: {tuple(out_base.shape)}")
        return {"nontrivial": False, "classes": classes + ["indivisible"], "summary": {}}
    if indivisible:
        classes.append("indivisible")
    if tuple(out_base.shape) != (B, N, dim):
        ctx.violation("shape", feat, f"output {tuple(out_base.shape)} for {B} functions, {N} "
                                     f"locations, output dim {dim}")
        return {"nontrivial": False, "classes": classes, "summary": {}}
    errs = [_err(out_base, r) for r in refs]
    best = min(range(2), key=lambda k: errs[k][0] if np.isfinite(errs[k][0]) else np.inf)
    cmp.worst["contraction"] = errs[best][0] / errs[best][1] if np.isfinite(errs[best][0]) else 1.0
    if not errs[best][2]:
        ctx.violation("contraction", feat,
                      f"output differs from sum_m branch[i,c,m]*trunk[j,c,m]: max|diff|="
                      f"{errs[0][0]:.3e} (block layout) / {errs[1][0]:.3e} (interleaved layout), "
                      f"scale {errs[best][1]:.2e}")
    if dim > 1 and spec["per"] > 1:
        classes.append("layout-" + ("block" if best == 0 else "interleaved"))

    # ---- (a) every way of supplying the same functions ------------------------------------
    def fset(rows):
        return CustomFunctionSet(f_space, DataSampler(pars(rows)), fn)

    allr = list(range(B))
    variants = [("points-rank3", lambda: Points(disc.clone(), f_out), None),
                ("functionset", lambda: fset(allr), None),
                ("branch-call", None, lambda m: m.branch(Points(disc.clone(), f_out))),
                ("forward-branch", None, lambda m: m._forward_branch(fset(allr), iteration_num=0)),
                ("fix-branch-input", None, lambda m: m.fix_branch_input(disc.clone()))]
    if B >= 2:
        s = B // 2
        variants.append(("functionset-sum", lambda: fset(allr[:s]) + fset(allr[s:]), None))
    poison = disc + 1.0 + rnd(B, 1, 1)       # other functions: what must NOT be used afterwards

    def forget():
        with ctx.lib("fix_branch_input", feature=feat):
            net.fix_branch_input(poison.clone())

    # a function-set OBJECT that has been used before: evaluated by the user at points of his own
    # (as many as the branch discretisation has / one more), or discretised by another branch net
    f_in = Space({"s": spec["fin_dim"]})

    def reused_set(how):
        def make():
            fs = fset(allr)
            n_p = spec["n_disc"] + (how == "other-count")
            pts = torch.rand((n_p, spec["fin_dim"]), generator=gen2, dtype=torch.float64)
            _eval_function_set(ctx, cmp, fs, fn, kv, pts, f_in, spec["fdim"],
                               "functionset-reused-" + how,
                               f"fresh function set evaluated at {n_p} points of the user", sample=True)
            return fs
        return make

    variants.append(("functionset-reused-same-count", reused_set("same-count"), None))
    if spec["rng"] % 3 == 0:
        variants.append(("functionset-reused-other-count", reused_set("other-count"), None))

    for name, make, fix in variants:
        forget()
        with ctx.lib("build branch input " + name, feature=name):
            bi = make() if make is not None else None
        o = forward(net, x, bi, B, "forward/" + name, fix=fix)
        if o is not None:
            cmp.check("supply-mismatch", name, o, out_base, f"branch input as {name} vs tensor")
    # single-function forms, one function at a time
    i_single = [0] if B == 1 else [0, B - 1]
    for i in i_single:
        f_i = _single_function(fn, kv[i])
        singles = [("callable", lambda: f_i), ("tensor-rank2", lambda: disc[i].clone()),
                   ("points-rank2", lambda: Points(disc[i].clone(), f_out))]
        for name, make in singles:
            forget()
            o = forward(net, x_rows([i]), make(), 1, "forward/" + name)
            if o is not None:
                cmp.check("supply-mismatch", name, o, out_base[i:i + 1],
                          f"function {i} alone as {name} vs row {i} of the batch")

    # ---- (a) independence of batch composition --------------------------------------------
    pf = torch.randperm(B, generator=gen).tolist()
    pl = torch.randperm(N, generator=gen).tolist()
    keep_f = sorted(pf[: max(1, B - 1 - int(rnd(1).item() * max(0, B - 2)))]) if B > 1 else [0]
    keep_l = sorted(pl[: max(1, N - 1 - int(rnd(1).item() * max(0, N - 2)))]) if N > 1 else [0]
    for what, rows, cols in (("permute", pf, pl), ("subset", keep_f, keep_l)):
        if rows == list(range(B)) and cols == list(range(N)):
            continue
        xs = x[rows][:, cols] if form == "perfn" else x[cols]
        o = forward(net, xs, disc[rows].clone(), len(rows), "forward/" + what)
        if o is not None:
            cmp.check("batch-dependence", f"{what}-{form}", o, out_base[rows][:, cols],
                      f"rows of the output after {what} of functions {rows} and locations {cols}")
    # the cached branch features must be the ones of the last supplied batch
    o = forward(net, x, disc.clone(), B, "forward/again")
    if o is not None:
        cmp.check("stale-branch", form, o, out_base, "same call repeated after other branch inputs")

    if not torch.equal(x, x0) or not torch.equal(disc, disc0):
        ctx.violation("input-modified", form, "forward changed the caller's input tensor")

    # ---- (a) training-call histories: several function sets on the one model ----------------
    if errs[best][2]:       # (a wrong contraction would only be reported a second time)
        def second_net():
            """A second DeepONet of the same architecture (own weights) whose branch discretises
            the functions at other points; it is handed the SAME function-set objects."""
            how = spec.get("net2_disc") or "same-count"
            if how == "shared-sampler":
                sampler2 = disc_sampler
            else:
                n2 = spec["n_disc"] + (how == "other-count")
                sampler2 = DataSampler({"s": torch.rand((n2, spec["fin_dim"]), generator=gen2,
                                                       dtype=torch.float64)})
            with ctx.lib("construct second DeepONet", feature="deeponet"):
                net2, trunk2, has_norm2 = _build(spec, copied, sampler2, f_space, in_space, out_space)
                pts2 = sampler2.sample_points().as_tensor
            _randomise(net2, gen2)
            return net2, _Reference(spec, net2, trunk2, has_norm2), pts2

        classes += _history(spec, ctx, cmp, net, ref, best, fn, f_space, in_space, disc_pts, x,
                            poison, gen, second_net, gen2)

    # ---- (b) differential: fast path vs plain network, derivatives, parameter gradients ----
    w0 = 0.5 + rnd(*((B, N, dim)))
    g_shape = (dim, B, N, d_in) if form in ("repeat", "perfn") else \
        ((dim, N, d_in) if form == "rank2" else (dim, 1, N, d_in))
    lw = [0.1 * (rnd(B, N, dim) - 0.5), 0.1 * (rnd(*g_shape) - 0.5), 0.1 * (rnd(*g_shape, d_in) - 0.5)]

    def param_grads(model, loss):
        """d loss / d every parameter that requires grad (None -> zeros), by parameter name."""
        named = [(n, p_) for n, p_ in model.named_parameters() if p_.requires_grad]
        if not named or not loss.requires_grad:
            return {}
        pg = torch.autograd.grad(loss, [p_ for _, p_ in named], allow_unused=True)
        return {n: (q if q is not None else torch.zeros_like(p_)) for (n, p_), q in zip(named, pg)}

    def run_model(model, label, lib_ops, track):
        with ctx.lib(label, feature=feat):
            coords, p = _trunk_points(spec, x, in_space, B, track=track)
            model.fix_branch_input(disc.clone())
            y = model(p).as_tensor
        if tuple(y.shape) != (B, N, dim):
            ctx.violation("shape", feat, f"{label}: output {tuple(y.shape)}")
            return None
        if not track:       # locations are plain data: output and parameter gradients only
            with ctx.lib(label + " parameter gradients", feature=feat):
                pg = param_grads(model, _loss0(y, lw))
            return {"y": y, "g": None, "H": None, "ops": {}, "pg": pg}
        with ctx.lib(label + " autograd", feature=feat):
            g, H = _derivatives(y, coords, var_names, w0)
        ops = {}
        if lib_ops and y.requires_grad:
            with ctx.lib(label + " utils.grad/laplacian", feature=feat):
                for c in range(dim):
                    for v in var_names:
                        u = y[..., c:c + 1]
                        ops[f"grad-u{c}-{v}"] = tp_grad(u, coords[v])
                        ops[f"laplacian-u{c}-{v}"] = tp_laplacian(u, coords[v])
        if tuple(g.shape) != g_shape:
            ctx.violation("shape", feat, f"{label}: d out/d trunk input has shape {tuple(g.shape)}")
            return None
        with ctx.lib(label + " parameter gradients", feature=feat):
            pg = param_grads(model, _loss(y, g, H, lw))
        return {"y": y, "g": g, "H": H, "ops": ops, "pg": pg}

    def reference_run(track):
        # no fast path: the harness reference on the same parameter tensors
        dims = [d for _, d in spec["in_vars"]]
        xs = [x[..., k:k + d].clone().requires_grad_(track)
              for k, d in zip(np.cumsum([0] + dims[:-1]).tolist(), dims)]
        y = ref.outputs(torch.cat(xs, dim=-1), disc)[best]
        if not track:
            return {"y": y, "g": None, "H": None, "ops": {}, "pg": param_grads(net, _loss0(y, lw))}
        g, H = _derivatives(y, dict(zip(var_names, xs)), var_names, w0)
        return {"y": y, "g": g, "H": H, "ops": {}, "pg": param_grads(net, _loss(y, g, H, lw))}

    twin_box = []

    def differential(track, frozen, suffix):
        """Runs the model and its counterpart with the given requires_grad configuration and
        compares level by level; returns (result of the model, second derivatives compared)."""
        models = [net]
        if copied:
            if not twin_box:
                with ctx.lib("construct twin", feature="deeponet"):
                    twin, _, _ = _build(spec, False, disc_sampler, f_space, in_space, out_space)
                    twin.load_state_dict(net.state_dict())
                twin_box.append(twin)
            models.append(twin_box[0])
        for m in models:
            for n, p_ in m.named_parameters():
                p_.requires_grad_(n not in frozen)
        try:
            fast = run_model(net, ("fast path" if copied else "model") + suffix, lib_ops=copied,
                             track=track)
            if fast is None:
                return None, False
            if copied:
                other = run_model(twin_box[0], "twin (torch.nn.Linear)" + suffix, lib_ops=True,
                                  track=track)
                tag, oname = "fastpath", "twin with torch.nn.Linear"
            else:
                other = reference_run(track)
                tag, oname = "reference", "harness reference"
        finally:
            for m in models:
                for p_ in m.parameters():
                    p_.requires_grad_(True)
        if other is None:
            return fast, False
        # A fault in one level determines the levels derived from it: report the first failing
        # level only (one root cause -> one signature), but measure all of them.
        n_before = len(ctx.case_violations)
        fsuf = form + suffix

        def level(kind, feature, got, want, what):
            mark = len(ctx.case_violations)
            done = cmp.check(kind, feature, got, want, what + suffix)
            if mark > n_before:                 # an earlier level already failed
                del ctx.case_violations[mark:]
            return done

        order2 = False
        level(f"{tag}-output", fsuf, fast["y"], other["y"], f"output vs {oname}")
        if track:
            level(f"{tag}-grad1", fsuf, fast["g"], other["g"], f"first derivatives vs {oname}")
            order2 = level(f"{tag}-grad2", fsuf, fast["H"], other["H"],
                           f"second derivatives vs {oname}")
        for k in sorted(fast["ops"]):
            if k not in other["ops"]:
                continue
            kind = "libgrad" if k.startswith("grad") else "liblaplacian"
            level(f"{tag}-{kind}", fsuf, fast["ops"][k], other["ops"][k],
                  f"torchphysics.utils {k} vs {oname}")
        for n in sorted(set(fast["pg"]) | set(other["pg"])):
            part = "norm" if ".normalize." in n else ("trunk" if n.startswith("trunk") else "branch")
            if n not in other["pg"] or n not in fast["pg"]:
                ctx.violation("shape", feat, f"parameter gradient of {n} only on one side ({oname})")
                continue
            level(f"{tag}-paramgrad", f"{form}-{part}{suffix}", fast["pg"][n], other["pg"][n],
                  f"d loss/d {n} vs {oname}")
        return fast, order2

    n_viol = len(ctx.case_violations)
    fast, order2 = differential(True, frozenset(), "")
    if fast is None:
        return {"nontrivial": False, "classes": classes, "summary": cmp.worst}

    # ---- (b') the same with asymmetric requires_grad: locations that are plain data (data-driven
    # training: nothing in front of the first trunk layer requires grad) and/or frozen parameters
    names = [n for n, _ in net.named_parameters()]
    frozen = _frozen_names(names, spec.get("asym_frozen") or [])
    a_track = bool(spec.get("asym_track", True))
    if "asym_track" in spec and (frozen or not a_track) and (a_track or len(frozen) < len(names)) \
            and len(ctx.case_violations) == n_viol:     # (a fault of (b) would only be repeated)
        suffix = "|" + ("track" if a_track else "notrack") + ("-frozen" if frozen else "")
        differential(a_track, frozen, suffix)
        first_in_grad = a_track or any(".normalize." in n and n not in frozen for n in names)
        first_w = _frozen_names(names, ["trunk-first-weight"])
        classes.append("asym-" + ("input-grad" if first_in_grad else "input-plain") + "/"
                       + ("first-weight-frozen" if first_w <= frozen else "first-weight-trained"))
    h_mag = float(fast["H"].detach().abs().max())
    if h_mag > 1e-6:
        classes.append("hessian-nonzero")
    nontrivial = (dim >= 2 or (B >= 2 and N >= 2)) and order2 and h_mag > 1e-6
    summary = {k: float(f"{v:.3e}") for k, v in cmp.worst.items()}
    summary["max_abs_out"] = float(out_base.abs().max())
    summary["max_abs_hessian"] = h_mag
    return {"nontrivial": nontrivial, "classes": classes, "summary": summary}
