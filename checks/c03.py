"""C03 - differential operators equal the analytic derivatives, row by row."""
import numpy as np
import sympy as sp
import torch
from hypothesis import strategies as st

from torchphysics.utils import differentialoperators as dop
from vf import exprs as ex
from vf.core import HarnessError

PROPERTY = "C03"
RULE = ("Hypothesis draws a *program*: 1-4 named input variables of dimension 1-3, an operator "
        "(grad, laplacian, div, jac, rot, partial, normal_derivative, convective, sym_grad, "
        "matrix_div), an ordered list of derivative variables (any subset, any order; for "
        "partial a sequence of 1-D variables with repetition, order <= 4), one expression tree "
        "per output component over {component, dyadic constant, +, -, *, integer power 2-4, "
        "sin, cos, exp, tanh} (random tree of depth <= 3 quick / 4 thorough plus the role terms "
        "below; power-of-two scale constants keep every sub-term bounded), a batch shape (N,d) "
        "or - for grad, laplacian, div, partial, normal_derivative - (B,N,d) with N 1-9, B 1-3, "
        "float32 or float64, points in [-2,2] (optionally on a 0.5-lattice). Each derivative "
        "variable gets a role: nonlinear anchor (z^2, z^3, sin, exp, tanh, mixed sin(z*w), "
        "z^2*w), free (whatever the random tree does), linear with constant coefficient, linear "
        "with a coefficient depending on another tracked variable, or unused; modes: dense "
        "(all anchored), free, special (>= 1 linear/unused role), baseline (separable "
        "quadratic, the suite's class). The tree is rendered to torch (leaf tensors with "
        "requires_grad) and, independently, to sympy; oracle = sympy.diff assembled into the "
        "operator's definition, lambdified to float64, compared per row and entry with "
        "|err| <= rtol*|ref| + atol*M (M = sum of |terms| of the fully expanded chain rule, "
        "from absolute Taylor jets of the tree; float32 2e-5/5e-6, float64 1e-9/1e-12, plus an "
        "underflow floor 1e-30/1e-280); result shape as documented; result dtype = input "
        "dtype; metamorphic row independence (row i alone, permuted batch). laplacian is called "
        "without grad= or (half of the cases, for ANY number of derivative variables) with the "
        "precomputed gradient w.r.t. exactly the passed variables in the passed order, taken "
        "either from the library's own grad(u, *vars) or assembled with torch.autograd (zeros "
        "for a variable u does not depend on); the documented result is the same Laplacian. "
        "Non-trivial = the case reached the value comparison and (a product/function couples "
        ">= 2 components, or the function depends on a tracked variable that is not "
        "differentiated / a derivative variable is linear or unused, or >= 2 derivative "
        "variables, or a rank-3 batch, or float64). Distinct = spec hash without rng.")
ASSUMPTIONS = [
    "sympy.diff / sympy.lambdify and numpy float64 are the trusted reference",
    "argument shapes restricted to those documented or used by tests/examples: scalar (.,1) "
    "outputs for grad/laplacian/partial/normal_derivative, rank-2 batches only for jac, rot, "
    "convective, sym_grad, matrix_div, 1-D variables for partial, div with as many output "
    "components as derivative-variable components in the passed order",
    "model_out is always the result of at least one tensor operation (never a leaf itself)",
    "expressions are bounded on the box by construction (explicit power-of-two scale constants)",
    "laplacian's grad= argument ('the gradient has already been computed somewhere else') is "
    "only ever given the true gradient of model_out w.r.t. the passed derivative variables, "
    "concatenated along the last axis in the passed order (what grad(u, *vars) returns); a "
    "gradient w.r.t. other variables / another order is outside the documented use",
    "CPU tensors only",
]
BUDGET = {"quick": {"examples": 375, "workers": 4},
          "thorough": {"examples": 8000, "workers": 14}}

OPS = ["grad", "laplacian", "div", "jac", "rot", "partial", "normal_derivative", "convective",
       "sym_grad", "matrix_div"]
OP_WEIGHTED = OPS + ["grad", "laplacian", "laplacian", "div", "partial"]
RANK3_OPS = {"grad", "laplacian", "div", "partial", "normal_derivative"}
SCALAR_OPS = {"grad", "laplacian", "partial", "normal_derivative"}
LAYOUTS = [[1], [2], [3], [1, 1], [2, 1], [1, 2], [1, 1, 1], [3, 1], [1, 3], [2, 2], [2, 1, 1],
           [1, 1, 2]]
SMALL_LAYOUTS = [[1], [2], [3], [1, 1], [2, 1], [1, 2], [1, 1, 1]]
ROT_LAYOUTS = [[3], [2, 1], [1, 2], [1, 1, 1]]
ANCHORS = ["sq", "cube", "sin", "exp", "tanh", "mixsin", "mixsq"]
COEF_FORMS = ["id", "sin", "sq", "exp", "shift"]
TOL = {"float32": (2e-5, 5e-6), "float64": (1e-9, 1e-12)}
# absolute floor far below any representable-accuracy concern: results whose analytic value
# underflows the precision (products of tiny factors) legitimately come out as 0
FLOOR = {"float32": 1e-30, "float64": 1e-280}
DT = {"float32": torch.float32, "float64": torch.float64}


# ======================================================================== generator
def _add(a, b):
    return ["+", a, b]


def _anchor(kind, z, w, c):
    if kind == "sq":
        t = ["pow", z, 2]
    elif kind == "cube":
        t = ["pow", z, 3]
    elif kind == "sin":
        t = ["sin", ["*", ["c", 1.5], z]]
    elif kind == "exp":
        t = ["exp", ["*", ["c", 0.5], z]]
    elif kind == "tanh":
        t = ["tanh", z]
    elif kind == "mixsin":
        t = ["sin", ["*", z, w]]
    else:
        t = ["*", ["pow", z, 2], w]
    return ["*", ["c", c], t]


def _coef(form, w, c):
    if form == "id":
        return w
    if form == "sin":
        return ["sin", w]
    if form == "sq":
        return ["pow", w, 2]
    if form == "exp":
        return ["exp", ["*", ["c", 0.5], w]]
    return ["+", w, ["c", c]]


@st.composite
def _case(draw, tier):
    op = draw(st.sampled_from(OP_WEIGHTED))
    dtype = draw(st.sampled_from(["float32", "float64"]))
    mode = draw(st.sampled_from(["dense"] * 6 + ["free"] + ["special"] * 4 + ["baseline"]))
    if op == "rot":
        ddims = list(draw(st.sampled_from(ROT_LAYOUTS)))
    elif op == "partial":
        ddims = [1] * draw(st.integers(1, 3))
    elif op in ("matrix_div", "sym_grad", "jac", "convective"):
        ddims = list(draw(st.sampled_from(SMALL_LAYOUTS)))
    else:
        ddims = list(draw(st.sampled_from(LAYOUTS)))
    n_extra = min(draw(st.sampled_from([0, 0, 1, 1, 2])), 3 - len(ddims))
    edims = [draw(st.sampled_from([1, 1, 2, 3])) for _ in range(n_extra)]
    n = len(ddims) + len(edims)
    perm = list(draw(st.permutations(list(range(n)))))
    dims = [0] * n
    for pos, d in zip(perm, ddims + edims):
        dims[pos] = d
    dv = perm[:len(ddims)]
    if op == "partial":
        max_order = 4 if tier == "thorough" else 3
        dvars = draw(st.lists(st.sampled_from(dv), min_size=1, max_size=max_order))
    else:
        dvars = list(dv)
    distinct = sorted(set(dvars))

    # ---- roles of the derivative variables
    roles = {}
    if mode in ("dense", "baseline"):
        roles = {v: "nl" for v in distinct}
    elif mode == "free":
        roles = {v: "free" for v in distinct}
    else:
        forced = draw(st.sampled_from(distinct))
        for v in distinct:
            pool = ["lin", "linvar", "linvar", "unused"] if v == forced else \
                ["nl", "nl", "nl", "free", "lin", "linvar", "unused"]
            roles[v] = draw(st.sampled_from(pool))
        if any(r == "linvar" for r in roles.values()) and len(dims) == 1:
            dims.append(1)          # the coefficient needs another tracked variable

    comps_all = [(v, j) for v in range(len(dims)) for j in range(dims[v])]
    excluded = {v for v, r in roles.items() if r in ("lin", "linvar", "unused")}
    if len(excluded) == len(dims):
        dims.append(1)              # keep the output a function of some tracked variable
        comps_all.append((len(dims) - 1, 0))
    allowed = [vc for vc in comps_all if vc[0] not in excluded]   # what random trees may use

    # ---- output components
    D = sum(dims[v] for v in dvars)
    if op in SCALAR_OPS:
        out_shape = [1]
    elif op in ("div", "sym_grad"):
        out_shape = [D]
    elif op == "rot":
        out_shape = [3]
    elif op in ("jac", "convective"):
        out_shape = [draw(st.integers(1, 3))]
    else:
        out_shape = [draw(st.integers(1, 3)), D]
    ncomp = int(np.prod(out_shape))

    max_depth = 4 if tier == "thorough" else 3
    if op == "partial" and len(dvars) >= 3:
        max_depth = 2
    if ncomp >= 6:
        max_depth = min(max_depth, 2)
    depth = draw(st.integers(0, max_depth))
    if mode == "baseline":
        trees = [["c", draw(st.sampled_from(ex.CONSTS))] for _ in range(ncomp)]
    else:
        base = ex.tree_strategy(allowed, depth)
        trees = [draw(base) for _ in range(ncomp)]
        if not any(ex.used_vars(t) for t in trees):
            # keep the output a function of some tracked variable (see _Untracked)
            vc = draw(st.sampled_from(allowed))
            trees[0] = ["*", trees[0], ["v", vc[0], vc[1]]]

    def var(vc):
        return ["v", vc[0], vc[1]]

    k_rr = 0
    for v in distinct:
        role = roles[v]
        others = [vc for vc in comps_all if vc[0] != v and roles.get(vc[0]) != "unused"]
        for j in range(dims[v]):
            z = var((v, j))
            if op in ("div", "sym_grad", "rot") or mode == "baseline":
                k = k_rr % ncomp
                k_rr += 1
            else:
                k = draw(st.integers(0, ncomp - 1))
            c = draw(st.sampled_from(ex.CONSTS))
            if role == "nl":
                kind = "sq" if mode == "baseline" else draw(st.sampled_from(ANCHORS))
                w = var(draw(st.sampled_from(allowed))) if kind.startswith("mix") else None
                trees[k] = _add(trees[k], _anchor(kind, z, w, c))
            elif role == "lin":
                trees[k] = _add(trees[k], ["*", ["c", c], z])
            elif role == "linvar":
                if not others:
                    trees[k] = _add(trees[k], ["*", ["c", c], z])
                else:
                    w = var(draw(st.sampled_from(others)))
                    g = _coef(draw(st.sampled_from(COEF_FORMS)), w, c)
                    trees[k] = _add(trees[k], ["*", z, g])

    rank = draw(st.sampled_from([2, 3])) if op in RANK3_OPS else 2
    batch = [draw(st.sampled_from([2, 1, 3, 4, 5, 6, 7, 8, 9] + ([12] if tier == "thorough" else [])))]
    if rank == 3:
        batch = [draw(st.integers(1, 3))] + batch
    spec = {"op": op, "dtype": dtype, "dims": dims, "dvars": dvars, "batch": batch,
            "out_shape": out_shape, "exprs": trees, "mode": mode,
            "roles": {str(v): r for v, r in sorted(roles.items())},
            "lattice": draw(st.sampled_from([False, False, True])),
            "row": draw(st.integers(0, 26)),
            "rng": draw(st.integers(0, 2 ** 31 - 1))}
    if op == "laplacian":
        # precomputed gradient for any number of derivative variables (single variable: the
        # gradient is used; several: the library has to recompute / select per variable)
        spec["use_grad"] = draw(st.booleans())
        spec["grad_src"] = draw(st.sampled_from(["autograd", "lib"]))
    if op == "convective":
        modes = ["random", "random", "vars"] + (["u"] if out_shape[0] == D else [])
        spec["vmode"] = draw(st.sampled_from(modes))
    return spec


def strategy(tier):
    return _case(tier)


# ---- always-run cases: every operator x dtype x accepted rank on a fixed mixed program and the
# ---- suite's separable baseline (the defect repros are pinned in the known-findings file)
def _v(v, j):
    return ["v", v, j]


def _fixed_program(op):
    """variables: 0 = x (dim 2), 1 = t (dim 1), 2 = y (dim 1, extra, tracked, not differentiated)"""
    x0, x1, t, y = _v(0, 0), _v(0, 1), _v(1, 0), _v(2, 0)
    f0 = ["+", ["sin", ["*", x0, t]], ["*", ["pow", x1, 3], ["+", y, x0]]]
    f1 = ["+", ["*", ["exp", ["*", ["c", 0.5], x1]], ["pow", t, 2]], ["*", x0, ["tanh", y]]]
    f2 = ["+", ["*", ["cos", ["+", x0, x1]], t], ["pow", ["*", x1, t], 2]]
    dims = [2, 1, 1]
    if op in SCALAR_OPS:
        return dims, ([1, 0] if op != "partial" else [1, 2, 1]), [1], [f0]
    if op in ("div", "rot", "sym_grad"):
        return dims, [1, 0], [3], [f0, f1, f2]
    if op in ("jac", "convective"):
        return dims, [1, 0], [2], [f1, f0]
    return dims, [1, 0], [2, 3], [f0, f1, f2, f2, f0, f1]


def extra_cases(tier, seed):
    i = 0
    for op in OPS:
        dims, dvars, out_shape, trees = _fixed_program(op)
        for dtype in ("float32", "float64"):
            for batch in ([5], [2, 3]):
                if len(batch) == 2 and op not in RANK3_OPS:
                    continue
                # rank-3 grad/normal_derivative with two variables is the known D18a region;
                # the single-variable form keeps the rank-3 path of these operators covered
                dv = dvars
                if len(batch) == 2 and op in ("grad", "normal_derivative"):
                    dv = [0]
                i += 1
                spec = {"op": op, "dtype": dtype, "dims": dims, "dvars": dv, "batch": batch,
                        "out_shape": out_shape, "exprs": trees, "mode": "fixed", "roles": {},
                        "lattice": False, "row": i, "rng": 1000 * seed + i}
                if op == "laplacian":
                    spec["use_grad"] = False
                if op == "convective":
                    spec["vmode"] = "random"
                yield spec
    # laplacian with a precomputed gradient AND several derivative variables (each feature
    # alone takes a different code path): both orders, three variables, both gradient sources,
    # both precisions, rank-2 and rank-3 batches; mixed program and a separable one (for which
    # every mixed second derivative vanishes while the pure ones do not)
    dims, _, out_shape, trees = _fixed_program("laplacian")
    x0, x1, t, y = _v(0, 0), _v(0, 1), _v(1, 0), _v(2, 0)
    sep = ["+", ["*", ["pow", x0, 2], ["pow", x1, 3]],
           ["+", ["sin", ["*", ["c", 2.0], t]], ["exp", ["*", ["c", 0.5], y]]]]
    pinned = [([1, 0], [5], "float32", "lib", trees), ([0, 1], [5], "float64", "autograd", trees),
              ([2, 0, 1], [4], "float64", "lib", trees), ([0, 1], [2, 3], "float32", "lib", trees),
              ([1, 2], [3], "float32", "autograd", trees),
              ([0, 1], [4], "float32", "lib", [sep]), ([1, 0], [4], "float64", "lib", [sep]),
              ([1, 0, 2], [2, 2], "float64", "autograd", [sep]),
              ([0], [5], "float32", "lib", trees), ([1], [2, 3], "float64", "autograd", [sep])]
    for dv, batch, dtype, src, tr in pinned:
        i += 1
        yield {"op": "laplacian", "dtype": dtype, "dims": dims, "dvars": dv, "batch": batch,
               "out_shape": out_shape, "exprs": tr, "mode": "fixed", "roles": {},
               "lattice": False, "row": i, "rng": 1000 * seed + i, "use_grad": True,
               "grad_src": src}
    # separable quadratic baseline (the class the unit tests use)
    sq = ["+", ["pow", _v(0, 0), 2], ["*", ["c", 2.0], ["pow", _v(0, 1), 2]]]
    for op in ("grad", "laplacian"):
        yield {"op": op, "dtype": "float32", "dims": [2], "dvars": [0], "batch": [4],
               "out_shape": [1], "exprs": [sq], "mode": "baseline", "roles": {"0": "nl"},
               "lattice": True, "row": 1, "rng": seed}


# ======================================================================== reference side
def _tags(spec, trees, F, Z_by_var):
    """Cheap classification used for crash signatures and the class histogram.
    unused-var: a derivative variable that no output component touches (autograd-graph level);
    vanishing-deriv (laplacian/partial): a first / intermediate derivative that is not
    identically zero but does not depend on the next derivative variable."""
    op = spec["op"]
    touched = set()
    for t in trees:
        touched |= ex.used_vars(t)
    tags = []
    unused = [v for v in Z_by_var if v not in touched]
    if unused:
        tags.append("unused-var")
    vanishing = False
    if op == "laplacian":
        for v, zs in Z_by_var.items():
            if v in unused:
                continue
            g = [sp.diff(F[0], z) for z in zs]
            if all(sp.diff(gi, z) == 0 for gi in g for z in zs):
                vanishing = True
    elif op == "partial":
        e = F[0]
        for v in spec["dvars"]:
            if e == 0:
                break
            e = sp.diff(e, ex.symbol(v, 0))
            if e == 0 and v not in unused:
                vanishing = True
    if vanishing:
        tags.append("vanishing-deriv")
    return tags


def _reference(spec, trees, F, data64, aux):
    """-> (expected, majorant) float64 arrays of shape (*batch, *result_shape).
    expected: sympy.diff -> lambdify; majorant: absolute Taylor jets of the tree (vf/exprs.py);
    the real jets must reproduce the sympy values (harness self-test)."""
    op = spec["op"]
    dims, dvars = spec["dims"], spec["dvars"]
    batch = tuple(spec["batch"])
    symbols = [ex.symbol(v, j) for v in range(len(dims)) for j in range(dims[v])]
    cols = [data64[v][..., j] for v in range(len(dims)) for j in range(dims[v])]
    values = {(v, j): data64[v][..., j] for v in range(len(dims)) for j in range(dims[v])}
    if op == "partial":
        active = [(v, 0) for v in sorted(set(dvars))]
        K = len(dvars)
    else:
        active = [(v, j) for v in dvars for j in range(dims[v])]
        K = 2 if op == "laplacian" else 1
    Z = [ex.symbol(v, j) for v, j in active]
    n = len(active)
    jet_cache = {}

    def unit(i, order=1):
        return tuple(order if j == i else 0 for j in range(n))

    def ev(requests):
        """requests: list of (component, multi-index) -> (values, majorants) (len, *batch)"""
        exprs, jv, jm = [], [], []
        for k, alpha in requests:
            e = F[k]
            for z, a in zip(Z, alpha):
                if a:
                    e = sp.diff(e, z, a)
            exprs.append(e)
            if k not in jet_cache:
                jet_cache[k] = ex.jets(trees[k], values, active, K)
            real, absj = jet_cache[k]
            jv.append(ex.jet_derivative(real, alpha, batch))
            jm.append(ex.jet_derivative(absj, alpha, batch))
        val = ex.lambdify_eval(exprs, symbols, cols)
        jv, jm = np.stack(jv), np.stack(jm)
        if np.all(np.isfinite(val)) and np.all(np.isfinite(jm)):
            bad = np.abs(val - jv) > 1e-10 * jm + 1e-280
            if np.any(bad):
                raise HarnessError(f"C03 reference evaluators disagree (sympy vs Taylor jets): "
                                   f"max |diff| {np.max(np.abs(val - jv)):.3e} for {spec['op']}")
        return val, jm

    if op in ("grad", "normal_derivative"):
        val, maj = ev([(0, unit(i)) for i in range(n)])
        val, maj = np.moveaxis(val, 0, -1), np.moveaxis(maj, 0, -1)
        if op == "grad":
            return val, maj
        nrm = aux["normals"]
        return (val * nrm).sum(-1, keepdims=True), (maj * np.abs(nrm)).sum(-1, keepdims=True)
    if op == "laplacian":
        val, maj = ev([(0, unit(i, 2)) for i in range(n)])
        return val.sum(0)[..., None], maj.sum(0)[..., None]
    if op == "div":
        val, maj = ev([(i, unit(i)) for i in range(n)])
        return val.sum(0)[..., None], maj.sum(0)[..., None]
    if op == "partial":
        idx = {vc[0]: i for i, vc in enumerate(active)}
        alpha = [0] * n
        for v in dvars:
            alpha[idx[v]] += 1
        val, maj = ev([(0, tuple(alpha))])
        return val[0][..., None], maj[0][..., None]
    if op == "matrix_div":
        m, D = spec["out_shape"]
        val, maj = ev([(i * D + j, unit(j)) for i in range(m) for j in range(D)])
        val = val.reshape(m, D, *batch).sum(1)
        maj = maj.reshape(m, D, *batch).sum(1)
        return np.moveaxis(val, 0, -1), np.moveaxis(maj, 0, -1)
    # Jacobian family
    m, D = len(F), n
    val, maj = ev([(i, unit(j)) for i in range(m) for j in range(D)])
    J = np.moveaxis(val.reshape(m, D, *batch), (0, 1), (-2, -1))
    JM = np.moveaxis(maj.reshape(m, D, *batch), (0, 1), (-2, -1))
    if op == "jac":
        return J, JM
    if op == "sym_grad":
        return 0.5 * (J + np.swapaxes(J, -1, -2)), 0.5 * (JM + np.swapaxes(JM, -1, -2))
    if op == "rot":
        pairs = [((2, 1), (1, 2)), ((0, 2), (2, 0)), ((1, 0), (0, 1))]
        val = np.stack([J[..., a[0], a[1]] - J[..., b[0], b[1]] for a, b in pairs], -1)
        maj = np.stack([JM[..., a[0], a[1]] + JM[..., b[0], b[1]] for a, b in pairs], -1)
        return val, maj
    # convective: (v . nabla) u ; v only enters by value
    if spec["vmode"] == "u":
        zero = (0,) * n
        v, vm = ev([(i, zero) for i in range(m)])
        v, vm = np.moveaxis(v, 0, -1), np.moveaxis(vm, 0, -1)
    else:
        v = aux["field"]
        vm = np.abs(v)
    val = (J * v[..., None, :]).sum(-1)
    maj = (JM * np.abs(v)[..., None, :] + np.abs(J) * vm[..., None, :]).sum(-1)
    return val, maj


# ======================================================================== torch side
def _render(trees, out_shape, leaves, batch, dtype):
    comps = []
    for t in trees:
        c = ex.to_torch(t, leaves)
        if not isinstance(c, torch.Tensor):
            c = torch.full((*batch, 1), float(c), dtype=dtype)
        elif tuple(c.shape) != (*batch, 1):
            c = c.expand(*batch, 1)
        comps.append(c)
    if len(out_shape) == 1:
        return comps[0] if len(comps) == 1 else torch.cat(comps, dim=-1)
    m, D = out_shape
    rows = [torch.cat(comps[i * D:(i + 1) * D], dim=-1) for i in range(m)]
    return torch.stack(rows, dim=-2)


class _Untracked(Exception):
    """the rendered output does not depend on any tracked input (no autograd graph at all)"""


def _apply(spec, trees, data, aux):
    """Build fresh leaf tensors from `data`, evaluate the program, call the operator."""
    op = spec["op"]
    dtype = DT[spec["dtype"]]
    batch = tuple(data[0].shape[:-1])
    leaves = [d.clone().requires_grad_(True) for d in data]
    u = _render(trees, spec["out_shape"], leaves, batch, dtype)
    if not u.requires_grad:
        raise _Untracked()
    dv = [leaves[v] for v in spec["dvars"]]
    fn = getattr(dop, op)
    if op == "normal_derivative":
        return fn(u, aux["normals"], *dv)
    if op == "convective":
        if spec["vmode"] == "u":
            field = u
        elif spec["vmode"] == "vars":
            field = torch.cat(dv, dim=-1)
        else:
            field = aux["field"]
        return fn(u, field, *dv)
    if op == "laplacian" and spec.get("use_grad"):
        return fn(u, *dv, grad=_precomputed_grad(spec, u, dv))
    return fn(u, *dv)


def _precomputed_grad(spec, u, dv):
    """The gradient of u w.r.t. the passed variables in the passed order (with graph), i.e.
    what a caller has at hand who "already computed the gradient somewhere else":
    grad_src 'lib' = the library's grad(u, *vars); 'autograd' = assembled here per variable
    (zeros for a variable u does not depend on, like grad does).
    Specs without grad_src (written before it existed, single variable) mean 'autograd'."""
    if spec.get("grad_src") == "lib":
        return dop.grad(u, *dv)
    parts = []
    for z in dv:
        g = torch.autograd.grad(u.sum(), z, create_graph=True, allow_unused=True)[0]
        parts.append(torch.zeros_like(z) if g is None else g)
    return parts[0] if len(parts) == 1 else torch.cat(parts, dim=-1)


def _result_shape(spec):
    op = spec["op"]
    D = sum(spec["dims"][v] for v in spec["dvars"])
    if op == "grad":
        return (D,)
    if op in ("laplacian", "div", "partial", "normal_derivative"):
        return (1,)
    if op == "jac":
        return (spec["out_shape"][0], D)
    if op == "rot":
        return (3,)
    if op == "convective":
        return (spec["out_shape"][0],)
    if op == "sym_grad":
        return (D, D)
    return (spec["out_shape"][0],)


def _couples(tree):
    """(components used, True if a product / power / function couples >= 2 components)"""
    if tree[0] == "c":
        return set(), False
    if tree[0] == "v":
        return {(tree[1], tree[2])}, False
    if tree[0] in ("+", "-", "*"):
        a, ma = _couples(tree[1])
        b, mb = _couples(tree[2])
        mixed = ma or mb or (tree[0] == "*" and a and b and len(a | b) >= 2)
        return a | b, mixed
    a, ma = _couples(tree[1])
    return a, ma or len(a) >= 2


def run_case(spec, ctx):
    op = spec["op"]
    dtype = DT[spec["dtype"]]
    dims, dvars = spec["dims"], spec["dvars"]
    batch = tuple(spec["batch"])
    rank = len(batch) + 1
    nrows = int(np.prod(batch))
    multi = len(set(dvars)) > 1
    trees = [ex.normalise(t)[0] for t in spec["exprs"]]
    F = [ex.to_sympy(t) for t in trees]
    Z_by_var = {v: [ex.symbol(v, j) for j in range(dims[v])] for v in sorted(set(dvars))}
    D = sum(dims[v] for v in dvars)

    # ---- evaluation points and per-row auxiliary data (all from the case's rng)
    gen = torch.Generator().manual_seed(int(spec["rng"]))
    data = []
    for d in dims:
        p = torch.rand((*batch, d), generator=gen, dtype=torch.float64) * 4.0 - 2.0
        if spec.get("lattice"):
            p = torch.round(p * 2.0) / 2.0
        data.append(p.to(dtype))
    aux = {}
    if op == "normal_derivative":
        nrm = torch.randn((*batch, D), generator=gen, dtype=torch.float64)
        nrm = nrm / nrm.norm(dim=-1, keepdim=True).clamp_min(1e-3)
        aux["normals"] = nrm.to(dtype)
    if op == "convective" and spec["vmode"] == "random":
        aux["field"] = (torch.rand((*batch, D), generator=gen, dtype=torch.float64) * 4 - 2).to(dtype)
    if op == "convective" and spec["vmode"] == "vars":
        aux["field"] = torch.cat([data[v] for v in dvars], dim=-1)

    # ---- signature features
    tags = _tags(spec, trees, F, Z_by_var)
    known_layout = op in ("grad", "normal_derivative") and rank == 3 and multi
    crash_feature = tags[0] if tags else ("rank3-multivar" if known_layout else "general")
    shape_feature = f"{op}-rank{rank}-{'multivar' if multi else 'onevar'}"

    # ---- the library call
    try:
        with ctx.lib(f"{op}(...)", feature=crash_feature, ok=(_Untracked,)):
            res = _apply(spec, trees, data, aux)
    except _Untracked:
        # a constant tensor without autograd graph is not "a function composed of tensor
        # operations of the input variables"; torch itself refuses it - not generated further
        return {"nontrivial": False, "classes": [op, "untracked-constant-output"], "summary": {}}

    classes = [op, spec["dtype"], f"rank{rank}", f"dvars{min(len(dvars), 3)}",
               "mode-" + spec.get("mode", "?")] + ["tag-" + t for t in tags]
    if nrows == 1:
        classes.append("single-row-batch")
    if spec.get("lattice"):
        classes.append("lattice")
    if spec.get("use_grad"):
        classes.append("laplacian-grad-arg")
        classes.append(f"laplacian-grad-arg-{'multivar' if multi else 'onevar'}-"
                       f"{spec.get('grad_src', 'autograd')}")

    if not isinstance(res, torch.Tensor):
        ctx.violation("type", op, f"result is {type(res).__name__}, not a tensor")
        return {"nontrivial": False, "classes": classes, "summary": {}}
    want_shape = (*batch, *_result_shape(spec))
    if res.dtype != dtype:
        ctx.violation("dtype", f"{op}-{spec['dtype']}",
                      f"inputs {spec['dtype']} but result dtype {res.dtype}")
    if tuple(res.shape) != want_shape:
        ctx.violation("shape", shape_feature,
                      f"result shape {tuple(res.shape)}, documented {want_shape} "
                      f"(batch {batch}, {len(dvars)} derivative variable(s))")
        return {"nontrivial": False, "classes": classes + ["shape-mismatch"], "summary": {}}

    # ---- reference
    data64 = [d.to(torch.float64).numpy() for d in data]
    aux64 = {k: a.to(torch.float64).numpy() for k, a in aux.items()}
    expected, maj = _reference(spec, trees, F, data64, aux64)
    if not (np.all(np.isfinite(expected)) and np.all(np.isfinite(maj))):
        ctx.inconclusive_case("reference-not-finite")
        return {"nontrivial": False, "classes": classes, "summary": {}}
    got = res.detach().to(torch.float64).numpy()
    # a float32 result for float64 inputs is reported above (dtype); its values are then held
    # to float32 accuracy so that the search continues behind that finding
    prec = spec["dtype"] if res.dtype == dtype else "float32"
    rtol, atol = TOL[prec]
    tol = rtol * np.abs(expected) + atol * maj + FLOOR[prec]
    err = np.abs(got - expected)
    ratio = float(np.max(np.where(np.isfinite(err), err, np.inf) / tol))
    zero_expected = bool(np.all(expected == 0.0))
    if not ratio <= 1.0:
        idx = np.unravel_index(int(np.argmax(np.where(np.isfinite(err), err, np.inf) / tol)),
                               err.shape)
        # the grad= code path of laplacian is a separate mechanism -> separate signature
        vfeature = "laplacian-grad-arg" if op == "laplacian" and spec.get("use_grad") else op
        ctx.violation("value", vfeature,
                      f"entry {tuple(int(i) for i in idx)}: got {got[idx]!r}, analytic "
                      f"{expected[idx]!r}, |err|={err[idx]:.3e} > tol {tol[idx]:.3e}; "
                      f"dvars={dvars} dims={dims} batch={batch}"
                      + (f" grad=<{spec.get('grad_src', 'autograd')} gradient>"
                         if spec.get("use_grad") else ""))

    # ---- metamorphic: row i alone, permuted batch
    def compare(label, other, ref_rows, tol_rows):
        if not isinstance(other, torch.Tensor) or tuple(other.shape) != tuple(ref_rows.shape):
            ctx.violation("row-dependence", f"{op}-{label}-shape",
                          f"{label}: result shape {getattr(other, 'shape', None)} "
                          f"instead of {tuple(ref_rows.shape)}")
            return 0.0
        d = np.abs(other.detach().to(torch.float64).numpy() - ref_rows)
        r = float(np.max(np.where(np.isfinite(d), d, np.inf) / (2.0 * tol_rows)))
        if not r <= 1.0:
            ctx.violation("row-dependence", f"{op}-{label}",
                          f"{label}: result of a row changes with the rest of the batch, "
                          f"max |diff|/tol = {r:.3e}; batch={batch}")
        return r

    flat = spec.get("row", 0) % nrows
    idx = np.unravel_index(flat, batch)
    sel = tuple(slice(int(i), int(i) + 1) for i in idx)
    data1 = [d[sel] for d in data]
    aux1 = {k: a[sel] for k, a in aux.items()}
    with ctx.lib(f"{op}(single row)", feature="single-row|" + crash_feature):
        res1 = _apply(spec, trees, data1, aux1)
    r1 = compare("single-row", res1, got[sel], tol[sel])

    perms = [torch.randperm(b, generator=gen) for b in batch]

    def permute(a):
        for axis, p in enumerate(perms):
            a = a.index_select(axis, p)
        return a
    data2 = [permute(d) for d in data]
    aux2 = {k: permute(a) for k, a in aux.items()}
    with ctx.lib(f"{op}(permuted batch)", feature="permuted|" + crash_feature):
        res2 = _apply(spec, trees, data2, aux2)
    got_p, tol_p = got, tol
    for axis, p in enumerate(perms):
        got_p = np.take(got_p, p.numpy(), axis=axis)
        tol_p = np.take(tol_p, p.numpy(), axis=axis)
    r2 = compare("permuted", res2, got_p, tol_p)

    # ---- non-triviality (stated rule)
    used, mixed = set(), False
    for t in trees:
        u_, m_ = _couples(t)
        used |= {v for v, _ in u_}
        mixed = mixed or m_
    partial_dep = bool(used - set(dvars)) or bool(tags) or \
        any(r in ("lin", "linvar", "unused") for r in spec.get("roles", {}).values())
    nontrivial = mixed or partial_dep or multi or rank == 3 or spec["dtype"] == "float64"
    if mixed:
        classes.append("coupled-term")
    if used - set(dvars):
        classes.append("depends-on-undifferentiated-var")
    if zero_expected:
        classes.append("all-zero-result")
    bucket = "0" if ratio == 0 else "<=1e-4" if ratio <= 1e-4 else "<=1e-3" if ratio <= 1e-3 \
        else "<=1e-2" if ratio <= 1e-2 else "<=1e-1" if ratio <= 1e-1 else "<=1" if ratio <= 1 \
        else ">1"
    ctx.event(f"err-over-tol:{prec}:{bucket}")
    return {"nontrivial": bool(nontrivial), "classes": classes,
            "summary": {"err_over_tol": ratio, "max_abs_expected": float(np.max(np.abs(expected))),
                        "single_row_over_tol": r1, "permuted_over_tol": r2}}
