"""C18 - the bounding box encloses the domain (and is tight for primitives)."""
import warnings

import numpy as np
import torch

from torchphysics.problem.spaces import Points

from vf import build, geo, refgeo as rg, specs

PROPERTY = "C18"
RULE = ("Hypothesis draws a domain expression (all leaves, nested + - &, Translate, Rotate at arbitrary "
        "angles / around moving points, independent and dependent products, boundaries) and 0-3 "
        "parameter rows. bounding_box(params) must be a flat [min,max,...] vector in space order or one "
        "such row per parameter row; enclosure: float64 reference samples of the denoted set (rejection "
        "sampling in the reference box, plus reference boundary points of every leaf that belong to the "
        "set) and the library's own random samples, each at its own parameter row, lie inside the "
        "returned intervals (tolerance 1e-4*scale); tightness: for a primitive of positive measure at a "
        "single parameter row the box equals the exact box; consequences: NormalizationLayer(domain) maps "
        "reference samples into [-1,1]^d (+1e-4) for parameter-free domains. Non-trivial: a rotation by "
        "a non-multiple of 90 degrees, or a Boolean/transform composition, or a parameter-dependent leaf "
        "with k>=2, and at least one reference point within 2% of the box size of some face; distinct = "
        "spec hash without rng.")
ASSUMPTIONS = ["reference geometry vf/refgeo.py", "tolerance tol_b = 1e-4*scale",
               "both documented return forms accepted: flat (2*dim,) hull over the rows, or one box per parameter row"]
BUDGET = {"quick": {"examples": 170, "workers": 4}, "thorough": {"examples": 2500, "workers": 14}}


def strategy(tier):
    return geo.case_strategy(tier, kinds=("interior", "interior", "interior", "boundary", "product", "depproduct"),
                             kmax=3)


def _ref_points(E, penv1, gen, n=120):
    """reference points of the denoted set at ONE parameter row: dict var -> (N,d)."""
    I = geo._strip_boundary(E)
    if I["t"] == "product":
        b = _ref_points(I["b"], penv1, gen, n)
        # first factor may depend on the second factor's variables: sample per b row
        pe = {k: np.repeat(v, len(next(iter(b.values()))), axis=0) for k, v in penv1.items()}
        pe.update(b)
        out = dict(b)
        avar, adim = rg.space_vars(geo._strip_boundary(I["a"]))[0]
        rows = []
        N = len(next(iter(b.values())))
        for i in range(N):
            pi = {k: v[i:i + 1] for k, v in pe.items()}
            rows.append(_single(geo._strip_boundary(I["a"]), pi, gen, 1)[0])
        out[avar] = np.stack(rows)
        return out
    var = rg.space_vars(I)[0][0]
    return {var: _single(I, penv1, gen, n)}


def _single(I, penv1, gen, n):
    """interior reference samples plus leaf boundary points that belong to the closed set."""
    pts = rg.sample_interior(I, penv1, n, gen)
    extra = []
    for leaf, chain in _leaves_with_motion(I):
        bp, _ = rg.leaf_boundary_points(leaf, penv1, 12)
        for node in chain:      # innermost motion first
            pe = {k: np.repeat(v, len(bp), axis=0) for k, v in penv1.items()}
            bp = rg.push_forward(node, pe, bp)
        env = {k: np.repeat(v, len(bp), axis=0) for k, v in penv1.items()}
        env[rg.space_vars(I)[0][0]] = bp
        # keep points that are in the set even after moving slightly inwards of the leaf: use
        # membership of the point itself and a margin-free test on a tiny perturbation grid
        keep = rg.contains(I, env)
        extra.append(bp[keep])
    if extra:
        pts = np.concatenate([pts] + extra, axis=0)
    return pts if n > 1 else pts[:1]


def _leaves_with_motion(I, chain=()):
    if I["t"] in rg.LEAVES:
        yield I, list(chain)
    elif I["t"] in ("translate", "rotate"):
        yield from _leaves_with_motion(I["a"], (I,) + tuple(chain))
    else:
        for c in rg.children(I):
            yield from _leaves_with_motion(c, chain)


def run_case(spec, ctx):
    E, prows = spec["dom"]["E"], spec["prows"]
    k = geo.nrows(prows)
    gen = np.random.default_rng(spec["rng"])
    penv = build.params_env(prows)
    classes = geo.case_classes(spec)
    I = geo._strip_boundary(E)
    top = geo.node_label(I)
    if spec["dom"]["kind"] == "depproduct":
        top = "depproduct"
    with ctx.lib("construct", feature=top):
        D = build.domain(E)
    params = build.params_points(prows)
    inner_transform = any(n["t"] in ("union", "cut", "isect", "product") and
                          rg.has(n, lambda m: m["t"] in ("translate", "rotate")) for n in rg.walk(I))
    bfeat = top + ("+transform" if inner_transform else "") + (f"|k{min(k, 2)}" if k else "")
    with ctx.lib("bounding_box", feature=bfeat):
        with warnings.catch_warnings():
            warnings.simplefilter("ignore")
            box = D.bounding_box(params)
    svars = rg.space_vars(I)
    dim = sum(d for _, d in svars)
    if isinstance(box, (list, tuple)):
        box = torch.as_tensor(box)
    if not isinstance(box, torch.Tensor):
        ctx.violation("box-form", top, f"bounding_box returned {type(box).__name__}")
        return None
    b = box.detach().double().numpy()
    if b.shape == (2 * dim,):
        per_row = False
    elif b.ndim == 2 and b.shape[1] == 2 * dim and b.shape[0] in (max(k, 1),):
        per_row = b.shape[0] > 1
        if not per_row:
            b = b[0]
    else:
        ctx.violation("box-form", bfeat, f"bounding_box has shape {b.shape} for dim={dim}, k={k}")
        return None
    if not np.all(np.isfinite(b)):
        ctx.violation("box-nonfinite", top, f"box {b.tolist()}")
        return None
    tol = geo.tolerances(E, penv)
    t = tol["tol_b"]
    near = 0
    worst = 0.0
    for i in range(max(k, 1)):
        pe1 = {kk: v[i:i + 1] for kk, v in penv.items()} if k else {}
        pts = _ref_points(E, pe1, gen, 120 if i == 0 else 60)
        X = np.concatenate([pts[v] for v, _ in svars], axis=1)
        bb = b[i] if per_row else b
        lo, hi = bb[0::2], bb[1::2]
        out_lo = lo[None, :] - X
        out_hi = X - hi[None, :]
        exc = np.maximum(out_lo, out_hi).max()
        worst = max(worst, float(exc))
        size = np.maximum(hi - lo, 1e-9)
        near += int((np.minimum(X - lo[None, :], hi[None, :] - X) < 0.02 * size[None, :]).any(axis=1).sum())
        if exc > t:
            j = np.unravel_index(np.argmax(np.maximum(out_lo, out_hi)), out_lo.shape)
            ctx.violation("enclosure", _blame(E, spec),
                          f"reference point {np.round(X[j[0]], 5).tolist()} of the domain (parameter row {i}) lies "
                          f"{exc:.4g} outside the box {np.round(bb, 5).tolist()} on axis {j[1]}")
            break
    # history: the SAME domain object is asked again, one parameter row at a time (last row first, then a
    # row it has not seen): every answer must enclose the domain at the row it was asked for
    if k and worst <= t and rg.free_vars(I):
        singles = [(i, {kk: v[i:i + 1] for kk, v in penv.items()}) for i in range(k - 1, -1, -1)]
        singles.append((-1, {kk: np.clip(1.0 - v[:1], 0.0, 1.0) for kk, v in penv.items()}))
        if not specs.ratio_ok_rows(I, {kk: v.tolist() for kk, v in singles[-1][1].items()}):
            singles.pop()          # the mirrored row would leave (nearly) nothing of a cut / intersection
        for i, pe1 in singles:
            p1 = build.params_points({kk: v.tolist() for kk, v in pe1.items()})
            with ctx.lib("bounding_box(second call, single row)", feature=bfeat):
                with warnings.catch_warnings():
                    warnings.simplefilter("ignore")
                    box1 = D.bounding_box(p1)
            b1 = torch.as_tensor(box1).detach().double().numpy().reshape(-1)
            if b1.shape != (2 * dim,) or not np.all(np.isfinite(b1)):
                ctx.violation("box-form", bfeat + "|second-call", f"bounding_box has shape {b1.shape} for one parameter row")
                break
            try:
                pts = _ref_points(E, pe1, gen, 40)
            except Exception:      # noqa: BLE001 - the mirrored row may denote an empty set
                continue
            X = np.concatenate([pts[v] for v, _ in svars], axis=1)
            exc = float(max((b1[0::2][None, :] - X).max(), (X - b1[1::2][None, :]).max()))
            if exc > t:
                ctx.violation("enclosure", _blame(E, spec) + "|second-call",
                              f"asked again for parameter row {'%d' % i if i >= 0 else 'new'} alone, the same domain object returns the box "
                              f"{np.round(b1, 5).tolist()}; a reference point of that row lies {exc:.4g} outside")
                break
        classes.append("box-history")
    # library's own samples
    if worst <= t and not rg.has(E, lambda n: n["t"] == "point"):
        from vf import core as _core
        sub = _core.Ctx(ctx.prop, ctx.tier, ctx.seed, known=_core._NoKnown())
        try:
            with warnings.catch_warnings():
                warnings.simplefilter("ignore")
                with sub.lib("sample"):
                    P = D.sample_random_uniform(n=32, params=params)
            if len(P) == 32 * max(k, 1):
                Xl = P[:, [v for v, _ in svars]].as_tensor.double().numpy().reshape(max(k, 1), 32, -1)
                for i in range(max(k, 1)):
                    bb = b[i] if per_row else b
                    exc = max((bb[0::2][None, :] - Xl[i]).max(), (Xl[i] - bb[1::2][None, :]).max())
                    if exc > t:
                        ctx.violation("enclosure", _blame(E, spec) + "|own-samples",
                                      f"own random sample lies {exc:.4g} outside the box {np.round(bb, 5).tolist()}")
                        break
        except (Exception, _core.CaseAborted):      # noqa: BLE001 - sampling problems are judged by C01
            ctx.event("own-sampling-failed(C01)")
    # tightness for primitives at a single parameter row
    if I["t"] in rg.LEAVES and I["t"] != "point" and k <= 1 and not per_row:
        exact = rg.ref_box(I, penv if k else {})[0]
        if np.max(np.abs(b - exact)) > 1e-5 * tol["scale"] + 1e-6:
            ctx.violation("tightness", geo.node_label(I), f"box {np.round(b, 6).tolist()} but the exact box is {np.round(exact, 6).tolist()}")
    # NormalizationLayer consequence
    if not k and not rg.free_vars(I) and worst <= t:
        from torchphysics.models import NormalizationLayer
        with ctx.lib("NormalizationLayer", feature=top):
            with warnings.catch_warnings():
                warnings.simplefilter("ignore")
                layer = NormalizationLayer(D)
        pts = _ref_points(E, {}, gen, 80)
        P = Points.from_coordinates({v: torch.tensor(pts[v], dtype=torch.float32) for v, _ in svars})
        with ctx.lib("NormalizationLayer.forward", feature=top):
            res = layer(P)
        out = res.as_tensor.detach().double().numpy()
        width = float(np.min(b[1::2] - b[0::2]))
        # float32 coordinates carry an error of eps*scale, magnified by 2/width
        if np.max(np.abs(out)) > 1 + 1e-4 + 1e-6 * tol["scale"] / max(width, 1e-9):
            ctx.violation("normalization", _blame(E, spec), f"NormalizationLayer maps a domain point to {np.max(np.abs(out)):.5f}")
        elif len(svars) > 1:
            # the same points with their variables listed in another order (what `sampler_b * sampler_a` returns)
            P2 = Points.from_coordinates({v: torch.tensor(pts[v], dtype=torch.float32) for v, _ in svars[::-1]})
            with ctx.lib("NormalizationLayer.forward(other variable order)", feature=top):
                res2 = layer(P2)
            c1, c2 = res.coordinates, res2.coordinates
            if set(c1) != set(c2) or any(c1[v].shape != c2[v].shape or
                                         float((c1[v] - c2[v]).abs().max()) > 1e-5 for v in c1):
                ctx.violation("normalization", "variable-order", "NormalizationLayer maps the same points differently when "
                              "their variables are listed in another order than domain.space")
            classes.append("norm-reordered")
    f = specs.features(E)
    rot_generic = False
    for n in rg.walk(E):
        if n["t"] == "rotate" and "euler" in n:
            rot_generic = True
        elif n["t"] == "rotate":
            a = n["angle"]
            if a["k"] != "const" or abs((a["v"][0] / (np.pi / 2)) - round(a["v"][0] / (np.pi / 2))) > 1e-3:
                rot_generic = True
    nontrivial = (rot_generic or rg.depth(I) >= 1 or ("dep" in f and k >= 2)) and near > 0
    return {"nontrivial": bool(nontrivial), "classes": classes + (["per-row-box"] if per_row else []),
            "summary": {"worst_excess": worst, "near_face": near, "per_row": per_row}}


def _blame(E, spec):
    if spec["dom"]["kind"] == "depproduct":
        return "depproduct"
    I = geo._strip_boundary(E)
    # innermost node whose own box already fails is expensive to find: label by top node and
    # whether transforms are involved
    f = specs.features(I)
    lab = geo.node_label(I)
    for tname in ("rotate", "translate"):
        if tname in f and I["t"] != tname:
            lab += "+" + tname
    return lab


def extra_cases(tier, seed):
    """independent products with an external shape parameter, asked for several rows and again row by row."""
    C = specs.const
    out = []
    grow = {"k": "affine", "var": "p", "v0": [0.4], "V1": [[2.0]]}
    move = {"k": "affine", "var": "p", "v0": [0.0, 1.0], "V1": [[3.0], [-2.0]]}
    T = {"t": "interval", "var": "t", "lo": C([0.0]), "hi": C([1.0])}
    for j, A in enumerate([{"t": "circle", "var": "x", "c": C([0.5, -0.5]), "r": grow},
                           {"t": "circle", "var": "x", "c": move, "r": C([0.7])},
                           {"t": "par", "var": "x", "o": move, "c1": dict(move, v0=[1.5, 1.0]), "c2": dict(move, v0=[0.0, 2.0])}]):
        for rows in ([[0.1], [0.9]], [[0.8]]):
            for E in ({"t": "product", "a": A, "b": T}, A):
                out.append({"dom": {"E": E, "kind": "product" if E is not A else "interior", "pvars": ["p"], "lattice": False, "far": False},
                            "prows": {"p": rows}, "rng": seed * 10 + j})
    # every parameter-dependent primitive growing with p, several rows in one call with the largest shape NOT in the
    # first row (and in the first row): the box of a batch must enclose the shapes of all its rows
    aff = lambda v0, V1: {"k": "affine", "var": "p", "v0": v0, "V1": [[v] for v in V1]}      # noqa: E731
    prims = [{"t": "interval", "var": "u", "lo": aff([-1.0], [-1.5]), "hi": aff([1.0], [2.5])},
             {"t": "circle", "var": "x", "c": C([0.5, -0.5]), "r": aff([0.4], [2.0])},
             {"t": "sphere", "var": "y", "c": C([0.5, -1.0, 2.0]), "r": aff([1.0], [3.0])},
             {"t": "par", "var": "x", "o": C([0.5, -1.0]), "c1": aff([1.5, -1.0], [2.0, 0.5]), "c2": aff([0.5, 0.0], [-0.5, 2.0])},
             {"t": "tri", "var": "x", "o": C([0.0, 0.0]), "c1": aff([1.0, 0.0], [2.0, 0.5]), "c2": aff([0.0, 1.0], [-0.5, 2.0])}]
    for j, A in enumerate(prims):
        for r, rows in enumerate(([[0.0], [1.0], [0.35]], [[1.0], [0.0]])):
            for E in (A, {"t": "boundary", "a": A}):
                out.append({"dom": {"E": E, "kind": "interior" if E is A else "boundary", "pvars": ["p"], "lattice": False, "far": False},
                            "prows": {"p": rows}, "rng": seed * 10 + 40 + 2 * j + r})
    return out
