"""C13 - user functions receive their arguments by name.

A case is one generated *signature* (realised by compiling generated source text that is part
of the spec) or one constant "function", wrapped in UserFunction / DomainUserFunction, plus a
*history*: a list of op dicts (call, partial, setdef, rmdef, deepcopy, rewrap) interpreted
against a model (ordered parameter list, defaults dict name -> value token) that lives entirely
in this file.  The generated function hands the (name, value) pairs it received to the harness
helper OUT, which records them and returns
    mode "pairs"  : the pairs themselves,
    mode "tensor" : torch.cat of the received tensors in declared order (what a domain
                    parameter function returns),
    mode "list"   : the same as a nested Python list (DomainUserFunction must tensor-ify it).
Values are *tokens* {"k": kind, "u": uid, ...} in the spec and distinguishable objects at run
time: tensors with unique contents, identity-tracked sentinels (uid + mutable payload), user
lists, floats - and the *falsy* values None / 0.0 / False / [] (token kinds none, zero, false,
empty), which a user legitimately declares as defaults ("t=None": optional time) and which must
be treated as any other stored value: whether a name has a default is a question of the name,
never of the value.  In the tensor modes OUT skips received None values (the `if t is None`
pattern), so None defaults / bindings occur there too.
"""
import copy
import inspect

import torch
from hypothesis import strategies as st

from torchphysics.problem.spaces import Points, R1, R2
from torchphysics.utils.user_fun import DomainUserFunction, UserFunction
from vf.core import HarnessError

PROPERTY = "C13"
RULE = ("Hypothesis draws a signature: 0-6 positional-or-keyword parameters (distinct names in "
        "random order from a pool of 8), a random suffix of 0..n of them with defaults, written as "
        "`def` or `lambda` source text that is stored in the spec and compiled in run_case (each "
        "function reports the (name, value) pairs it received), or a constant non-callable "
        "'function' (float / list / tensor / sentinel); wrapper class UserFunction or "
        "DomainUserFunction; then a history of 0-9 (thorough 0-14) ops interpreted against a "
        "model (ordered parameters, defaults dict): call (dict / Points / no argument, any "
        "superset of names in any order, one required name deliberately missing in ~1/8, "
        "vectorize=True in a share), partially_evaluate(subset or superset), set_default, "
        "remove_default (positional and keyword form), copy.deepcopy, re-wrap "
        "UserFunction(uf)/DomainUserFunction(uf). Values are unique tensors, uid-tracked "
        "sentinels with a mutable payload, user lists and floats, and - as declared defaults, "
        "set_default / partially_evaluate values and (pairs mode) call values - the falsy "
        "values None, 0.0, False and [] (in ~2/7 of the non-tensor draws; in the tensor/list "
        "modes None in ~1/5 of the default/set/bind draws, the generated function leaves a "
        "received None out of its torch.cat). In 2/3 of the cases three "
        "unrelated 'bystander' wrappers (a constant, a function without and one with a default) "
        "are created before or after the wrapper under test. 84 pinned cases (3 flavours x all 28 "
        "(n, number of defaults) pairs) call with all defaults omitted / everything given in "
        "reverse order plus an unknown name / the first or last required name missing / after a "
        "partial evaluation of every second parameter. 39 further pinned cases for the falsy values "
        "(None for all four flavours; 0.0, False, [] for the pairs flavour): the value declared "
        "as default (last / middle / all optional parameters), installed by set_default and "
        "removed again, bound by partially_evaluate - each followed by calls that omit / "
        "override the name, partial evaluations that must return the value resp. a wrapper, "
        "deepcopy and re-wrap; 2 pinned vectorised histories whose batch length comes from "
        "a default / optional name while the required names hold constant tensors. Oracles: observed names == "
        "declared parameters, each value is the object stored under that name (identity for "
        "dict calls, equality for Points columns and defaults), defaults for absent optional "
        "names, missing required name raises, return value passed through (DomainUserFunction: "
        "tensor with an extra axis), partially_evaluate returns the value iff all required "
        "names are bound else a new wrapper whose later calls equal one full evaluation, "
        "necessary_args/optional_args equal the model, and after every op every wrapper's "
        "args/defaults/fun, the user's function object (code, __defaults__, __dict__), every "
        "user object, the call mapping and the bystanders are unchanged (bystanders are called "
        "once at the end). Non-trivial: a signature with >= 3 parameters and a successful call "
        "that omits a name which has a default at that point of the history (declared, set or "
        "bound by partial evaluation), or a history with >= 2 partial evaluations that returned "
        "wrappers; distinct = spec hash without the rng seed.")
ASSUMPTIONS = [
    "only def/lambda functions with positional-or-keyword parameters (the property's quantifier); "
    "bound methods, functools.partial objects, keyword-only/positional-only parameters and the "
    "explicit defaults=/args= constructor arguments are not generated",
    "parameter names are ordinary variable names (a..d,t,x,y,u); names colliding with the "
    "wrapper's own keywords ('self', 'device') are not generated",
    "DomainUserFunction is only called with tensor values (it reads .device of the first value) and "
    "only wraps functions that return a tensor / nested list with a leading batch axis",
    "re-wrapping aliases the defaults dict of the source (unspecified): set_default/remove_default are "
    "applied only to wrappers that are not part of an alias pair; aliased wrappers are still called, "
    "partially evaluated and copied",
    "set_default is only given names of the signature, remove_default only names that currently have a "
    "default (KeyError otherwise is undocumented)",
    "vectorize=True only with >= 1 parameter and tensor values that all have the batch length or are "
    "shorter 'constant' tensors, as the apply_to_batch docstring assumes",
    "partially_evaluate of a DomainUserFunction with all required names bound returns the user's raw "
    "function value (the statement says 'the function value'), not the tensor-ified call result",
    "identity of default objects is tracked by uid + content, not by `is` (copying defaults is allowed)",
    "None / 0.0 / False / [] are ordinary values: a parameter declared `t=None`, given a None default by "
    "set_default(t=None) or bound by partially_evaluate(t=None) is optional and receives that value "
    "('declared defaults for absent optional ones'); falsy values are not distinguishable from each "
    "other by uid, only by type and content (and [] by identity in dict calls)",
    "falsy values other than None only in mode 'pairs' (the tensor modes concatenate what they receive); "
    "DomainUserFunction / Points / vectorised calls still get tensor values only, None reaches a "
    "DomainUserFunction only as a default or a partially_evaluate / set_default value; constant "
    "'functions' are not falsy values",
]
BUDGET = {"quick": {"examples": 1200, "workers": 4},
          "thorough": {"examples": 12000, "workers": 14}}

NAMES = ["a", "b", "c", "d", "t", "x", "y", "u"]
OPS = ["call", "partial", "setdef", "rmdef", "deepcopy", "rewrap"]


# ======================================================================================
# source text of the generated functions (part of the spec)
# ======================================================================================
def make_source(kind, params, ndef):
    n = len(params)
    sig = []
    for i, p in enumerate(params):
        j = i - (n - ndef)
        sig.append(p if j < 0 else f"{p}=D{j}")
    pairs = ", ".join(f"('{p}', {p})" for p in params) + ("," if len(params) == 1 else "")
    body = f"OUT(({pairs}))"
    if kind == "lambda":
        return f"f = lambda {', '.join(sig)}: {body}\n"
    return f"def f({', '.join(sig)}):\n    return {body}\n"


# ======================================================================================
# generator (model-aware on the level of names so that most ops are meaningful)
# ======================================================================================
class _Uid:
    def __init__(self):
        self.n = 0

    def __call__(self):
        self.n += 1
        return self.n


FALSY = ["none", "zero", "false", "empty"]


def _token(draw, uid, mode, tensor_only=False, const_rows=False, falsy=False):
    """falsy: the position may hold None / 0.0 / False / [] (defaults, bindings, pairs calls)."""
    if tensor_only:
        k = "tensor"
    elif mode != "pairs":
        k = "none" if (falsy and draw(st.integers(0, 4)) == 0) else "tensor"
    elif falsy:
        k = draw(st.sampled_from(["tensor", "sent", "sent", "list", "num", "none", "falsy"]))
        if k == "falsy":
            k = draw(st.sampled_from(FALSY))
    else:
        k = draw(st.sampled_from(["tensor", "sent", "sent", "list", "num"]))
    tok = {"k": k, "u": uid()}
    if k == "tensor":
        tok["d"] = draw(st.sampled_from([1, 1, 2]))
        tok["r"] = 1 if (const_rows and draw(st.booleans())) else "B"
    return tok


@st.composite
def _case(draw, tier):
    uid = _Uid()
    mode = draw(st.sampled_from(["pairs", "pairs", "pairs", "tensor", "tensor", "list"]))
    cls = "user" if mode == "pairs" else draw(st.sampled_from(["user", "domain", "domain"]))
    kind = draw(st.sampled_from(["def", "def", "def", "lambda", "lambda", "const"]))
    spec = {"mode": mode, "cls": cls, "kind": kind, "B": draw(st.integers(1, 3))}
    if kind == "const":
        ck = draw(st.sampled_from(["num", "list", "tensor", "sent"] if cls == "user"
                                  else ["num", "int", "list", "tensor"]))
        spec["const"] = {"k": ck, "u": uid()}
        if ck == "tensor":
            spec["const"].update({"d": 2, "r": "B"})
        params, ndef = [], 0
    else:
        n = draw(st.sampled_from([0, 1, 2, 2, 3, 3, 3, 4, 4, 5, 6]))
        params = list(draw(st.permutations(NAMES)))[:n]
        ndef = draw(st.integers(0, n))
        spec["src"] = make_source(kind, params, ndef)
        spec["defaults"] = [_token(draw, uid, mode, falsy=True) for _ in range(ndef)]
    spec["params"] = params
    spec["ndef"] = ndef

    # name-level simulation: pool of (defaults-set, aliased, const)
    pool = [{"defs": set(params[len(params) - ndef:]), "alias": False, "cls": cls}]
    max_ops = 9 if tier == "quick" else 14
    nops = draw(st.integers(0, max_ops))
    ops = []
    extras_pool = [nm for nm in NAMES if nm not in params]
    weights = (["call"] * 5 + ["partial"] * 4 + ["setdef"] * 2 + ["rmdef"] * 2 +
               ["deepcopy"] * 1 + ["rewrap"] * 1)
    for _ in range(nops):
        op = draw(st.sampled_from(weights))
        if kind == "const" and op in ("setdef", "rmdef"):
            op = "call"
        w = draw(st.integers(0, len(pool) - 1))
        m = pool[w]
        if op in ("setdef", "rmdef") and m["alias"]:
            free = [i for i, q in enumerate(pool) if not q["alias"]]
            if not free:
                op = "deepcopy"
            else:
                w = draw(st.sampled_from(free))
                m = pool[w]
        req = [p for p in params if p not in m["defs"]]
        opt = [p for p in params if p in m["defs"]]
        if op == "call":
            given = list(req)
            if opt:
                given += draw(st.lists(st.sampled_from(opt), unique=True, max_size=len(opt)))
            if extras_pool and draw(st.booleans()):
                given += draw(st.lists(st.sampled_from(extras_pool), unique=True, max_size=2))
            if req and draw(st.integers(0, 7)) == 0:
                given.remove(draw(st.sampled_from(req)))
            given = list(draw(st.permutations(given))) if len(given) > 1 else given
            form = draw(st.sampled_from(["dict", "dict", "points"]))
            if not given and draw(st.booleans()):
                form = "none"
            vec = (m["cls"] == "user" and mode != "pairs" and kind != "const"
                   and len(params) >= 1 and draw(st.integers(0, 3)) == 0)
            tensor_only = form == "points" or vec
            vals = [_token(draw, uid, mode, tensor_only=tensor_only,
                           const_rows=vec and form != "points",
                           falsy=(mode == "pairs" and form == "dict")) for _ in given]
            ops.append({"op": "call", "w": w, "names": given, "vals": vals, "form": form,
                        "vec": bool(vec)})
        elif op == "partial":
            cand = req + opt + extras_pool[:2]
            if cand:
                given = draw(st.lists(st.sampled_from(cand), unique=True,
                                      max_size=min(len(cand), 4)))
            else:
                given = []
            # bias towards "not yet complete" so that chains of wrappers occur
            if req and set(req) <= set(given) and draw(st.integers(0, 2)) > 0:
                given.remove(draw(st.sampled_from(req)))
            vals = [_token(draw, uid, mode, falsy=True) for _ in given]
            ops.append({"op": "partial", "w": w, "names": given, "vals": vals})
            if kind != "const" and not set(req) <= set(given):
                pool.append({"defs": m["defs"] | (set(given) & set(params)), "alias": False,
                             "cls": m["cls"]})
        elif op == "setdef":
            if not params:
                ops.append({"op": "deepcopy", "w": w})
                pool.append({"defs": set(m["defs"]), "alias": False, "cls": m["cls"]})
                continue
            given = draw(st.lists(st.sampled_from(params), unique=True, min_size=1, max_size=3))
            vals = [_token(draw, uid, mode, falsy=True) for _ in given]
            ops.append({"op": "setdef", "w": w, "names": given, "vals": vals})
            m["defs"] |= set(given)
        elif op == "rmdef":
            if not opt:
                ops.append({"op": "rmdef", "w": w, "names": [], "style": "pos"})
                continue
            given = draw(st.lists(st.sampled_from(opt), unique=True, min_size=1, max_size=2))
            ops.append({"op": "rmdef", "w": w, "names": given,
                        "style": draw(st.sampled_from(["pos", "kw"]))})
            m["defs"] -= set(given)
        elif op == "deepcopy":
            ops.append({"op": "deepcopy", "w": w})
            pool.append({"defs": set(m["defs"]), "alias": False, "cls": m["cls"]})
        else:
            to = "user" if mode == "pairs" else draw(st.sampled_from(["user", "domain"]))
            ops.append({"op": "rewrap", "w": w, "cls": to})
            m["alias"] = True
            pool.append({"defs": set(m["defs"]), "alias": True, "cls": to})
    spec["ops"] = ops
    spec["by"] = draw(st.sampled_from(["before", "after", "none"]))
    spec["rng"] = draw(st.integers(0, 2 ** 31 - 1))
    return spec


def strategy(tier):
    return _case(tier)


def extra_cases(tier, seed):
    """Every (n, ndef) once per flavour with the calls that decide default alignment."""
    for mode, cls in (("pairs", "user"), ("tensor", "user"), ("tensor", "domain")):
        for n in range(0, 7):
            params = (NAMES[3:] + NAMES[:3])[:n][::-1]     # not alphabetical, not sorted
            for ndef in range(0, n + 1):
                uid = _Uid()

                def tok(mode=mode, uid=uid):
                    if mode == "pairs":
                        return {"k": "sent", "u": uid()}
                    return {"k": "tensor", "u": uid(), "d": 1, "r": "B"}

                req, opt = params[:n - ndef], params[n - ndef:]
                ops = [{"op": "call", "w": 0, "names": list(req), "vals": [tok() for _ in req],
                        "form": "dict", "vec": False}]
                full = (params + ["u"])[::-1] if "u" not in params else params[::-1]
                ops.append({"op": "call", "w": 0, "names": full, "vals": [tok() for _ in full],
                            "form": "dict", "vec": False})
                for r in ([req[0], req[-1]] if len(req) > 1 else req):
                    g = [p for p in params if p != r]
                    ops.append({"op": "call", "w": 0, "names": g, "vals": [tok() for _ in g],
                                "form": "dict", "vec": False})
                half = params[::2]
                ops.append({"op": "partial", "w": 0, "names": half, "vals": [tok() for _ in half]})
                rest = [p for p in req if p not in half]
                ops.append({"op": "call", "w": 1, "names": rest, "vals": [tok() for _ in rest],
                            "form": "dict", "vec": False})
                yield {"mode": mode, "cls": cls, "kind": "def", "B": 2, "params": params,
                       "ndef": ndef, "src": make_source("def", params, ndef),
                       "defaults": [tok() for _ in range(ndef)], "ops": ops, "by": "before",
                       "rng": 0}
    yield from _falsy_pinned()
    yield from _vec_pinned()


def _vec_pinned():
    """vectorize=True where the batch length is carried by a default / an optional name only and
    the required names hold shorter 'constant' tensors (apply_to_batch: batch = maximum over ALL
    bound inputs)."""
    for B in (2, 3):
        uid = _Uid()

        def T(r, uid=uid):
            return {"k": "tensor", "u": uid(), "d": 1, "r": r}

        def vcall(w, names, vals):
            return {"op": "call", "w": w, "names": names, "vals": vals, "form": "dict", "vec": True}

        params = ["x", "t", "a"]
        ops = [vcall(0, ["x", "t"], [T(1), T(1)]),                 # batch from the default of a
               vcall(0, ["x", "t", "a"], [T(1), T(1), T("B")]),    # batch from an optional name
               vcall(0, ["t", "x"], [T("B"), T(1)]),
               {"op": "setdef", "w": 0, "names": ["x", "t"], "vals": [T(1), T("B")]},
               vcall(0, [], []),                                   # everything from defaults
               {"op": "partial", "w": 0, "names": ["x"], "vals": [T(1)]}]
        yield {"mode": "tensor", "cls": "user", "kind": "def", "B": B, "params": params,
               "ndef": 1, "src": make_source("def", params, 1), "defaults": [T("B")],
               "ops": ops, "by": "none", "rng": 0}


def _falsy_pinned():
    """None / 0.0 / False / [] as declared default, as set_default value and as value bound by
    partially_evaluate: the name is optional whatever the value stored for it."""
    def call(w, names, vals):
        return {"op": "call", "w": w, "names": list(names), "vals": list(vals), "form": "dict",
                "vec": False}

    flavours = [("pairs", "user", FALSY), ("tensor", "user", ["none"]),
                ("tensor", "domain", ["none"]), ("list", "domain", ["none"])]
    for mode, cls, kinds in flavours:
        for fk in kinds:
            def mk(uid, mode=mode):
                def tok():
                    if mode == "pairs":
                        return {"k": "sent", "u": uid()}
                    return {"k": "tensor", "u": uid(), "d": 1, "r": "B"}
                return tok

            def case(params, ndef, defaults, ops, mode=mode, cls=cls):
                return {"mode": mode, "cls": cls, "kind": "def", "B": 2, "params": params,
                        "ndef": ndef, "src": make_source("def", params, ndef),
                        "defaults": defaults, "ops": ops, "by": "after", "rng": 0}

            # (a) declared: f(x, a=.., t=..) with the falsy value last / first / in both places
            for where in ("last", "first", "both"):
                uid = _Uid()
                tok = mk(uid)
                F = lambda uid=uid, fk=fk: {"k": fk, "u": uid()}        # noqa: E731
                params = ["x", "a", "t"]
                defaults = {"last": [tok(), F()], "first": [F(), tok()], "both": [F(), F()]}[where]
                ops = [call(0, ["u", "x"], [tok(), tok()]),              # both defaults taken
                       {"op": "partial", "w": 0, "names": ["x"], "vals": [tok()]},     # -> value
                       call(0, ["t", "x"], [tok(), tok()]),              # falsy default overridden?
                       call(0, ["a"], [tok()]),                          # x missing -> rejected
                       {"op": "partial", "w": 0, "names": ["a"], "vals": [tok()]},     # -> wrapper 1
                       call(1, ["x"], [tok()]),
                       {"op": "deepcopy", "w": 0},                                     # wrapper 2
                       call(2, ["x", "a"], [tok(), tok()]),
                       {"op": "rewrap", "w": 2, "cls": cls},                           # wrapper 3
                       call(3, ["x"], [tok()]),
                       {"op": "partial", "w": 3, "names": ["x", "t"], "vals": [tok(), tok()]}]
                yield case(params, 2, defaults, ops)
            # (b) set_default(t=falsy) on a required name, later removed again
            uid = _Uid()
            tok = mk(uid)
            params = ["t", "x", "b"]
            ops = [{"op": "setdef", "w": 0, "names": ["t"], "vals": [{"k": fk, "u": uid()}]},
                   call(0, ["x"], [tok()]),
                   {"op": "partial", "w": 0, "names": ["x"], "vals": [tok()]},         # -> value
                   {"op": "partial", "w": 0, "names": ["b"], "vals": [tok()]},         # -> wrapper 1
                   call(1, ["x"], [tok()]),
                   call(1, ["x", "t"], [tok(), tok()]),
                   {"op": "rmdef", "w": 0, "names": ["t"], "style": "pos"},
                   call(0, ["x"], [tok()]),                              # t missing -> rejected
                   call(1, ["x"], [tok()]),                              # the copy keeps its default
                   {"op": "setdef", "w": 0, "names": ["x", "t"],
                    "vals": [{"k": fk, "u": uid()}, {"k": fk, "u": uid()}]},
                   {"op": "call", "w": 0, "names": [], "vals": [], "form": "none", "vec": False}]
            yield case(params, 1, [tok()], ops)
            # (c) partially_evaluate(t=falsy) with other names unbound: chain of wrappers
            uid = _Uid()
            tok = mk(uid)
            params = ["y", "t", "x"]
            ops = [{"op": "partial", "w": 0, "names": ["t"], "vals": [{"k": fk, "u": uid()}]},  # 1
                   {"op": "partial", "w": 1, "names": ["y"], "vals": [tok()]},                  # 2
                   call(2, ["x"], [tok()]),
                   {"op": "partial", "w": 2, "names": ["x"], "vals": [tok()]},         # -> value
                   call(1, ["x"], [tok()]),                              # y missing -> rejected
                   call(1, ["x", "y"], [tok(), tok()]),
                   call(0, ["x", "y"], [tok(), tok()]),                  # original still needs t
                   {"op": "deepcopy", "w": 1},                                                  # 3
                   call(3, ["y", "x", "t"], [tok(), tok(), tok()]),
                   {"op": "partial", "w": 3, "names": ["x", "y"], "vals": [tok(), tok()]}]
            yield case(params, 0, [], ops)
            # (d) pairs only: the falsy value handed over in the call mapping itself
            if mode == "pairs":
                uid = _Uid()
                tok = mk(uid)
                params = ["x", "t", "a"]
                ops = [call(0, ["t", "x"], [tok(), {"k": fk, "u": uid()}]),
                       call(0, ["a", "x", "t"], [{"k": fk, "u": uid()}, tok(), {"k": fk, "u": uid()}]),
                       {"op": "partial", "w": 0, "names": ["x"], "vals": [{"k": fk, "u": uid()}]},
                       call(1, ["t"], [tok()])]
                yield case(params, 1, [tok()], ops)


# ======================================================================================
# run time objects
# ======================================================================================
class _Sentinel:
    """Plain user object: identity is tracked by uid, `payload` is a user-visible container."""

    def __init__(self, uid):
        self.uid = uid
        self.payload = [uid, "payload"]

    def __repr__(self):
        return f"<S{self.uid}>"


class _Objects:
    """uid -> the object handed to the library, plus a snapshot taken at creation."""

    def __init__(self, B):
        self.B = B
        self.obj, self.snap, self.tok = {}, {}, {}

    def get(self, tok):
        u = tok["u"]
        if u not in self.obj:
            k = tok["k"]
            if k == "sent":
                o, s = _Sentinel(u), [u, "payload"]
            elif k == "num":
                o = s = float(u) + 0.5
            elif k == "int":
                o = s = int(u) + 2
            elif k == "list":
                o = [[float(u), float(u) + 0.25]]
                s = copy.deepcopy(o)
            elif k == "none":
                o = s = None
            elif k == "zero":
                o = s = 0.0
            elif k == "false":
                o = s = False
            elif k == "empty":
                o, s = [], []
            elif k == "tensor":
                rows = self.B if tok.get("r", "B") == "B" else int(tok["r"])
                d = int(tok.get("d", 1))
                o = (torch.arange(rows * d, dtype=torch.float32).reshape(rows, d) / 16.0
                     + float(u))
                s = o.clone()
            else:
                raise HarnessError(f"unknown token kind {k}")
            self.obj[u], self.snap[u], self.tok[u] = o, s, tok
        return self.obj[u]

    def mismatch(self, o, tok, ident=False):
        """None if `o` is (a faithful copy of) the object of `tok`, else a description."""
        want = self.get(tok)
        if ident:
            return None if o is want else f"got {_short(o)}, expected the very object {_short(want)}"
        return _content_mismatch(o, self.snap[tok["u"]], tok["k"])

    def modified(self):
        """kinds of user objects whose content no longer equals the creation snapshot."""
        bad = []
        for u, o in self.obj.items():
            if _content_mismatch(o, self.snap[u], self.tok[u]["k"]) is not None:
                bad.append((self.tok[u]["k"], u))
        return bad


def _short(o):
    if isinstance(o, torch.Tensor):
        return f"tensor{tuple(o.shape)}{o.flatten()[:3].tolist()}"
    r = repr(o)
    return r if len(r) < 60 else r[:57] + "..."


def _content_mismatch(o, snap, k):
    if k == "sent":
        if not isinstance(o, _Sentinel):
            return f"got {_short(o)}, expected sentinel {snap[0]}"
        if o.uid != snap[0] or o.payload != snap:
            return f"got sentinel uid={o.uid} payload={o.payload}, expected {snap}"
        return None
    if k == "tensor":
        if not isinstance(o, torch.Tensor):
            return f"got {_short(o)}, expected {_short(snap)}"
        if o.shape != snap.shape or o.dtype != snap.dtype or not torch.equal(o, snap):
            return f"got {_short(o)}, expected {_short(snap)}"
        return None
    if k in ("num", "int"):
        ok = type(o) is type(snap) and o == snap
        return None if ok else f"got {_short(o)}, expected {snap!r}"
    if k in ("list", "empty"):
        ok = type(o) is list and o == snap
        return None if ok else f"got {_short(o)}, expected {snap!r}"
    if k == "none":
        return None if o is None else f"got {_short(o)}, expected None"
    if k in ("zero", "false"):
        ok = type(o) is type(snap) and o == snap
        return None if ok else f"got {_short(o)}, expected {snap!r}"
    raise HarnessError(f"unknown token kind {k}")


class _W:
    """One wrapper: the real object, its model and a shallow shadow of its attributes."""

    def __init__(self, real, cls, defaults, aliased, origin, depth, params=None, const=None):
        self.real, self.cls, self.defaults = real, cls, dict(defaults)
        self.aliased, self.origin, self.depth = aliased, origin, depth
        self.params, self.const = params, const      # None: those of the case (bystanders differ)
        self.take_shadow()

    def take_shadow(self):
        r = self.real
        d = getattr(r, "defaults", None)
        a = getattr(r, "args", None)
        self.shadow = {"args": list(a) if isinstance(a, (list, tuple)) else a,
                       "defaults": dict(d) if isinstance(d, dict) else d,
                       "fun": getattr(r, "fun", None)}


class _Run:
    def __init__(self, spec, ctx):
        self.spec, self.ctx = spec, ctx
        self.mode, self.B = spec["mode"], int(spec["B"])
        self.params = list(spec["params"])
        self.const = spec["kind"] == "const"
        self.objs = _Objects(self.B)
        self.rec, self.ret = [], []
        self.vec_now = False
        self.out_failed = False
        self.classes = set()
        self.stats = {"calls_ok": 0, "calls_rejected": 0, "omit_default_calls": 0,
                      "partial_wrappers": 0, "partial_values": 0, "ops": 0, "skipped": 0,
                      "max_depth": 0}
        self.pool = []
        self.fn = None
        self.fn_shadow = None
        self.reported = set()
        self.diverged = False
        self.bystanders = []

    # -- reporting ------------------------------------------------------------------
    def violation(self, kind, feature, detail):
        key = (kind, feature)
        if key in self.reported:       # one report per signature and case
            return
        self.reported.add(key)
        self.ctx.violation(kind, feature, detail)

    # -- the helper the generated source calls --------------------------------------
    def OUT(self, pairs):
        self.rec.append(pairs)
        if self.vec_now:
            r = ("row", len(self.rec))
        elif self.mode == "pairs":
            r = pairs
        else:
            try:
                got = [v for _, v in pairs if v is not None]    # `if t is None` pattern
                if got:
                    r = torch.cat(got, dim=-1)
                else:
                    r = torch.full((self.B, 1), -1.0)
                if self.mode == "list":
                    r = r.tolist()
            except Exception:          # wrong objects were passed in: judged by the pairs
                self.out_failed = True
                r = torch.full((self.B, 1), float("nan"))
                if self.mode == "list":
                    r = r.tolist()
        self.ret.append(r)
        return r

    # -- construction -----------------------------------------------------------------
    def compile_fn(self):
        spec = self.spec
        n, ndef = len(self.params), int(spec["ndef"])
        glob = {"OUT": self.OUT}
        for j, tok in enumerate(spec["defaults"]):
            glob[f"D{j}"] = self.objs.get(tok)
        exec(compile(spec["src"], "<c13-generated>", "exec"), glob)   # source is the spec
        fn = glob["f"]
        # harness sanity (independent of the library): the source realises the stated signature
        sig = inspect.signature(fn)
        names = list(sig.parameters)
        with_def = [p for p in names if sig.parameters[p].default is not inspect.Parameter.empty]
        if names != self.params or with_def != self.params[n - ndef:] or len(spec["defaults"]) != ndef:
            raise HarnessError(f"spec source does not realise params={self.params} ndef={ndef}")
        if any(sig.parameters[p].kind is not inspect.Parameter.POSITIONAL_OR_KEYWORD for p in names):
            raise HarnessError("only positional-or-keyword parameters are in the domain")
        self.fn = fn
        self.fn_shadow = {"code": fn.__code__, "defaults": fn.__defaults__,
                          "kwdefaults": fn.__kwdefaults__, "dict": dict(fn.__dict__),
                          "name": fn.__name__}
        return fn

    def fn_changed(self):
        if self.fn is None:
            return None
        fn, s = self.fn, self.fn_shadow
        if fn.__code__ is not s["code"]:
            return "__code__"
        d0, d1 = s["defaults"] or (), fn.__defaults__ or ()
        if len(d0) != len(d1) or any(a is not b for a, b in zip(d0, d1)):
            return "__defaults__"
        if fn.__kwdefaults__ != s["kwdefaults"]:
            return "__kwdefaults__"
        if fn.__dict__ != s["dict"]:
            return "__dict__"
        if fn.__name__ != s["name"]:
            return "__name__"
        return None

    def wrap(self, cls, what):
        return (UserFunction if cls == "user" else DomainUserFunction)(what)

    # -- invariants after every op ------------------------------------------------------
    def check_all(self, op, target=None, mutated=False):
        """target: index of the wrapper the op was applied to; mutated: the op is allowed to
        change that wrapper's defaults (set_default / remove_default).  Per wrapper only the
        first failing clause is reported; a state violation ends the history (the model and
        the library have diverged, everything later would be a consequence)."""
        before = len(self.reported)
        for i, w in enumerate(self.pool):
            self._check_wrapper(op, i, w, "target" if i == target else "other",
                                mutated and i == target)
        for i, w in enumerate(self.bystanders):
            self._check_wrapper(op, f"b{i}", w, "bystander", False)
        ch = self.fn_changed()
        if ch:
            self.violation("fn-modified", f"{ch}-after-{op}", f"user function attribute {ch} changed")
        for k, u in self.objs.modified():
            self.violation("user-object-modified", f"{k}-after-{op}",
                           f"user object {k}#{u} now {_short(self.objs.obj[u])}, was {_short(self.objs.snap[u])}")
        if len(self.reported) != before:
            self.diverged = True

    def _check_wrapper(self, op, i, w, who, legit):
        r = w.real
        args, defaults = getattr(r, "args", None), getattr(r, "defaults", None)
        tag = f"wrapper #{i} ({w.origin})"
        # (1) shallow "unchanged" check against the shadow taken when the wrapper was created
        #     (or last legitimately modified): same args, same default objects, same fun
        if not legit:
            sh = w.shadow
            a_now = list(args) if isinstance(args, (list, tuple)) else args
            if a_now != sh["args"]:
                return self.violation("state-changed", f"args-of-{who}-after-{op}",
                                      f"{tag} args {sh['args']} -> {a_now}")
            if not isinstance(defaults, dict) or not isinstance(sh["defaults"], dict):
                same = defaults is sh["defaults"]
            else:
                same = (set(defaults) == set(sh["defaults"]) and
                        all(defaults[k] is sh["defaults"][k] for k in defaults))
            if not same:
                return self.violation("state-changed", f"defaults-of-{who}-after-{op}",
                                      f"{tag} defaults {_fmt(sh['defaults'])} -> {_fmt(defaults)}")
            fun_now = getattr(r, "fun", None)
            if fun_now is not sh["fun"]:
                same_t = (isinstance(fun_now, torch.Tensor) and isinstance(sh["fun"], torch.Tensor)
                          and fun_now.shape == sh["fun"].shape and torch.equal(fun_now, sh["fun"]))
                if not same_t:
                    return self.violation("state-changed", f"fun-of-{who}-after-{op}",
                                          f"{tag} fun replaced")
        # (2) agreement with the model (content level, restricted to the declared names)
        params = self.params if w.params is None else w.params
        if self.const if w.const is None else w.const:
            want_req, want_opt = [], []
        else:
            want_req = [p for p in params if p not in w.defaults]
            want_opt = [p for p in params if p in w.defaults]
            if not isinstance(args, (list, tuple)) or list(args) != params:
                return self.violation("state-mismatch", f"args-of-{who}-after-{op}",
                                      f"{tag} args={args!r}, declared {params}")
            if not isinstance(defaults, dict):
                return self.violation("state-mismatch", f"defaults-keys-of-{who}-after-{op}",
                                      f"{tag} defaults={_short(defaults)}")
            for p in params:
                if (p in defaults) != (p in w.defaults):
                    return self.violation(
                        "state-mismatch", f"defaults-keys-of-{who}-after-{op}",
                        f"{tag} has default for '{p}': {p in defaults}, model: {p in w.defaults}; "
                        f"defaults={_fmt(defaults)}")
            for p in want_opt:
                mm = self.objs.mismatch(defaults[p], w.defaults[p])
                if mm:
                    return self.violation("state-mismatch", f"defaults-values-of-{who}-after-{op}",
                                          f"{tag} default '{p}': {mm}")
        with self.ctx.lib("necessary_args/optional_args", feature="arg-lists"):
            got_req, got_opt = r.necessary_args, r.optional_args
        if list(got_req) != want_req:
            return self.violation("arg-lists", f"necessary_args-of-{who}-after-{op}",
                                  f"{tag} necessary_args={got_req}, model {want_req}")
        if list(got_opt) != want_opt:
            return self.violation("arg-lists", f"optional_args-of-{who}-after-{op}",
                                  f"{tag} optional_args={got_opt}, model {want_opt}")

    # -- expected observation ------------------------------------------------------------
    def expected_tokens(self, w, given):
        """given: dict name -> token.  Returns (missing required names, [(name, token, src)])."""
        missing = [p for p in self.params if p not in given and p not in w.defaults]
        exp = []
        for p in self.params:
            if p in given:
                exp.append((p, given[p], "given"))
            elif p in w.defaults:
                exp.append((p, w.defaults[p], "default"))
        return missing, exp

    def check_pairs(self, pairs, exp, ident_given, where, row=None, batch=None):
        """pairs: what the function saw; exp: [(name, token, src)]."""
        feat_base = where
        if not isinstance(pairs, tuple) or [p for p, _ in pairs] != [p for p, _, _ in exp]:
            self.violation("wrong-params", feat_base, f"function saw {pairs!r}, declared {self.params}")
            return
        for (name, val), (_, tok, src) in zip(pairs, exp):
            if row is not None:
                whole = self.objs.get(tok)
                if len(whole) == batch:
                    want = whole[row]
                    ok = (isinstance(val, torch.Tensor) and val.shape == want.shape
                          and torch.equal(val, want))
                    mm = None if ok else f"row {row}: got {_short(val)}, expected {_short(want)}"
                else:
                    mm = self.objs.mismatch(val, tok, ident=False)
            else:
                mm = self.objs.mismatch(val, tok, ident=(ident_given and src == "given"))
            if mm:
                self.violation("wrong-binding", f"{feat_base}-{src}",
                               f"parameter '{name}' ({src}): {mm}; all seen: "
                               f"{[(n, _short(v)) for n, v in pairs]}")

    def expected_raw(self, exp):
        got = [self.objs.snap[tok["u"]] for _, tok, _ in exp if tok["k"] != "none"]
        if not got:
            t = torch.full((self.B, 1), -1.0)
        else:
            t = torch.cat(got, dim=-1)
        return t

    def check_result(self, res, w, exp, where, raw=False):
        """Return value of a non-vectorised evaluation. raw: partially_evaluate (no tensor-ify)."""
        ret = self.ret[-1]
        feat = f"{where}-{self.mode}"
        if w.cls == "user" or raw:
            if res is not ret:
                self.violation("wrong-result", feat,
                               f"returned {_short(res)} instead of the function's value {_short(ret)}")
            return
        want = self.expected_raw(exp)[:, None]
        ok = (isinstance(res, torch.Tensor) and res.shape == want.shape
              and torch.equal(res.to(want.dtype), want))
        if not ok:
            self.violation("wrong-result", feat,
                           f"DomainUserFunction returned {_short(res)}, expected {_short(want)}")

    # -- ops ---------------------------------------------------------------------------
    def build_mapping(self, names, toks, form):
        """-> (mapping or None, form actually used, 'unchanged' checker)"""
        vals = [self.objs.get(t) for t in toks]
        if form == "none" and not names:
            return None, "none", (lambda: None)
        if form == "points" and all(t["k"] == "tensor" and t.get("r", "B") == "B" for t in toks):
            if not names:
                p = Points.empty()
            else:
                space = None
                for nm, t in zip(names, toks):
                    s = R1(nm) if int(t.get("d", 1)) == 1 else R2(nm)
                    space = s if space is None else space * s
                p = Points(torch.cat(vals, dim=-1), space)
            t0, t0c, sp = p._t, p._t.clone(), list(p.space.items())

            def unchanged():
                if p._t is not t0 or not torch.equal(p._t, t0c) or list(p.space.items()) != sp:
                    return "Points object changed"
                return None
            return p, "points", unchanged
        d = dict(zip(names, vals))
        keys = list(d.keys())

        def unchanged():
            if list(d.keys()) != keys or any(d[k] is not v for k, v in zip(keys, vals)):
                return f"dict now {list(d.keys())}, was {keys}"
            return None
        return d, "dict", unchanged

    def op_call(self, op, i, w):
        names, toks = list(op["names"]), list(op["vals"])
        vec = bool(op.get("vec")) and w.cls == "user" and not self.const and len(self.params) >= 1 \
            and all(t["k"] == "tensor" for t in toks) \
            and all(t["k"] == "tensor" for t in w.defaults.values())
        if not vec:     # shorter "constant" tensors only make sense in a vectorised call
            toks = [dict(t, r="B") if t["k"] == "tensor" else t for t in toks]
        given = dict(zip(names, toks))
        mapping, form, unchanged = self.build_mapping(names, toks, op.get("form", "dict"))
        where = f"{w.cls}-call" + ("-vec" if vec else "")     # oracle features: no form, one
        # root cause in the name routing shows through dict and Points alike
        n0 = len(self.rec)
        kw = {"vectorize": True} if vec else {}
        if self.const:
            with self.ctx.lib("call of constant", feature=f"{where}-{form}-const"):
                res = w.real(**kw) if mapping is None else w.real(mapping, **kw)
            self.check_const(res, w, where, called=True)
            self.classes.add("call-const")
        else:
            missing, exp = self.expected_tokens(w, given)
            if missing:
                try:
                    res = w.real(**kw) if mapping is None else w.real(mapping, **kw)
                except Exception:
                    self.stats["calls_rejected"] += 1
                    self.classes.add("call-rejected")
                else:
                    self.violation("accepted-missing-required", where,
                                   f"call without required {missing} returned {_short(res)}")
                if len(self.rec) != n0:
                    self.violation("evaluated-despite-missing", where,
                                   f"function was evaluated although {missing} are missing")
            else:
                self.vec_now = vec
                try:
                    with self.ctx.lib(f"call {names} on {w.origin} wrapper", feature=f"{where}-{form}"):
                        res = w.real(**kw) if mapping is None else w.real(mapping, **kw)
                finally:
                    self.vec_now = False
                ncalls = len(self.rec) - n0
                if vec:
                    received = [self.objs.get(t) for _, t, _ in exp]
                    batch = max(len(v) for v in received)
                    if ncalls != batch:
                        self.violation("call-count", where, f"{ncalls} evaluations for batch {batch}")
                    else:
                        for r in range(batch):
                            self.check_pairs(self.rec[n0 + r], exp, False, where, row=r, batch=batch)
                        want = self.ret[n0:]
                        if not isinstance(res, list) or len(res) != len(want) or \
                                any(a is not b for a, b in zip(res, want)):
                            self.violation("wrong-result", where, f"vectorised result {_short(res)}")
                    self.classes.add("call-vectorize")
                else:
                    if ncalls != 1:
                        self.violation("call-count", where, f"{ncalls} evaluations for one call")
                    else:
                        self.check_pairs(self.rec[-1], exp, form == "dict", where)
                        self.check_result(res, w, exp, where)
                self.stats["calls_ok"] += 1
                omitted = [p for p, _, src in exp if src == "default"]
                if omitted:
                    self.classes.add("call-omits-default")
                    if any(tok["k"] in FALSY for _, tok, src in exp if src == "default"):
                        self.classes.add("call-omits-falsy-default")
                if any(tok["k"] in FALSY for _, tok, src in exp if src == "given"):
                    self.classes.add("call-gives-falsy")
                if omitted:
                    if len(self.params) >= 3:
                        self.stats["omit_default_calls"] += 1
                if any(nm not in self.params for nm in names):
                    self.classes.add("call-superset")
                if any(p in w.defaults for p in names):
                    self.classes.add("call-overrides-default")
                self.classes.add(f"call-{form}")
                if w.depth:
                    self.classes.add("call-on-partial-wrapper")
        mm = unchanged()
        if mm:
            self.violation("call-mapping-modified", form, mm)
        self.check_all("call", target=i)

    def check_const(self, res, w, where, called):
        tok = self.spec["const"]
        if w.cls == "user" or not called:
            mm = self.objs.mismatch(res, tok)
            if mm:
                self.violation("wrong-result", where + "-const", f"constant function: {mm}")
            return
        obj = self.objs.snap[tok["u"]]
        want = obj if tok["k"] == "tensor" else torch.tensor(obj).float()
        ok = isinstance(res, torch.Tensor) and res.shape == want.shape and res.dtype == want.dtype \
            and torch.equal(res, want)
        if not ok:
            self.violation("wrong-result", where + "-const",
                           f"constant DomainUserFunction returned {_short(res)}, expected {_short(want)}")

    def op_partial(self, op, i, w):
        names, toks = list(op["names"]), list(op["vals"])
        given = dict(zip(names, toks))
        kwargs = {nm: self.objs.get(t) for nm, t in zip(names, toks)}
        where = f"{w.cls}-partial"
        n0 = len(self.rec)
        with self.ctx.lib(f"partially_evaluate {names} on {w.origin} wrapper", feature=where):
            res = w.real.partially_evaluate(**kwargs)
        if self.const:
            self.check_const(res, w, where, called=False)
            self.classes.add("partial-const")
            self.check_all("partial", target=i)
            return
        missing, exp = self.expected_tokens(w, given)
        is_wrapper = isinstance(res, UserFunction)
        if not missing:
            self.stats["partial_values"] += 1
            self.classes.add("partial-value")
            if any(tok["k"] in FALSY for _, tok, src in exp if src == "default"):
                self.classes.add("partial-value-with-falsy-default")
            if len(self.rec) - n0 != 1:
                self.violation("partial-kind", f"{where}-all-bound-not-evaluated",
                               f"all required names bound by {names} but {len(self.rec) - n0} "
                               f"evaluations, returned {_short(res)}")
            else:
                self.check_pairs(self.rec[-1], exp, True, where)
                self.check_result(res, w, exp, where, raw=True)
        else:
            if len(self.rec) != n0:
                self.violation("evaluated-despite-missing", where,
                               f"function evaluated although {missing} are unbound")
            if not is_wrapper:
                self.violation("partial-kind", f"{where}-unbound-not-wrapper",
                               f"{missing} unbound but returned {_short(res)}")
            elif res is w.real:
                self.violation("partial-kind", f"{where}-returned-self", "returned the wrapper itself")
            else:
                if type(res) is not type(w.real):
                    self.violation("partial-kind", f"{where}-class",
                                   f"copy is {type(res).__name__}, original {type(w.real).__name__}")
                nd = dict(w.defaults)
                nd.update({nm: t for nm, t in given.items() if nm in self.params})
                child = _W(res, w.cls, nd, False, "partial", w.depth + 1)
                self.pool.append(child)
                self.stats["partial_wrappers"] += 1
                self.stats["max_depth"] = max(self.stats["max_depth"], child.depth)
                self.classes.add("partial-wrapper")
                if any(t["k"] in FALSY for nm, t in given.items() if nm in self.params):
                    self.classes.add("partial-binds-falsy")
        self.check_all("partial", target=i)

    def op_setdef(self, op, i, w):
        pairs = [(nm, t) for nm, t in zip(op["names"], op["vals"]) if nm in self.params]
        if not pairs or w.aliased or self.const:
            self.stats["skipped"] += 1
            return
        kwargs = {nm: self.objs.get(t) for nm, t in pairs}
        with self.ctx.lib("set_default", feature=f"{w.cls}-setdef"):
            res = w.real.set_default(**kwargs)
        if res is not None:
            self.violation("wrong-result", f"{w.cls}-setdef", f"set_default returned {_short(res)}")
        for nm, t in pairs:
            w.defaults[nm] = t
        self.classes.add("setdef" + ("-on-copy" if w.origin != "root" else ""))
        if any(t["k"] in FALSY for _, t in pairs):
            self.classes.add("setdef-falsy")
        self.check_all("setdef", target=i, mutated=True)
        w.take_shadow()

    def op_rmdef(self, op, i, w):
        names = [nm for nm in dict.fromkeys(op["names"]) if nm in w.defaults]
        if not names or w.aliased or self.const:
            self.stats["skipped"] += 1
            return
        with self.ctx.lib("remove_default", feature=f"{w.cls}-rmdef"):
            if op.get("style") == "kw":
                w.real.remove_default(**{nm: None for nm in names})
            else:
                w.real.remove_default(*names)
        for nm in names:
            del w.defaults[nm]
        self.classes.add("rmdef" + ("-on-copy" if w.origin != "root" else ""))
        self.check_all("rmdef", target=i, mutated=True)
        w.take_shadow()

    def op_deepcopy(self, op, i, w):
        with self.ctx.lib("copy.deepcopy", feature=f"{w.cls}-deepcopy"):
            res = copy.deepcopy(w.real)
        if type(res) is not type(w.real) or res is w.real:
            self.violation("copy-kind", f"{w.cls}-deepcopy", f"deepcopy gave {_short(res)}")
            return
        self.pool.append(_W(res, w.cls, w.defaults, False, "deepcopy", w.depth))
        self.classes.add("deepcopy")
        self.check_all("deepcopy", target=i)

    def op_rewrap(self, op, i, w):
        to = op.get("cls", "user")
        if self.mode == "pairs" and not self.const:
            to = "user"
        if self.const and to == "domain" and self.spec["const"]["k"] == "sent":
            to = "user"
        with self.ctx.lib("re-wrap", feature=f"rewrap-{w.cls}-as-{to}"):
            res = self.wrap(to, w.real)
        if res is w.real:
            self.violation("copy-kind", f"rewrap-{w.cls}-as-{to}", "re-wrapping returned the source")
            return
        if getattr(res, "fun", None) is not w.real.fun:
            self.violation("state-mismatch", "fun-of-rewrap", "re-wrapped function differs")
        w.aliased = True
        self.pool.append(_W(res, to, w.defaults, True, "rewrap", w.depth))
        self.classes.add(f"rewrap-{w.cls}-as-{to}")
        self.check_all("rewrap", target=i)

    # -- unrelated wrappers that must never be affected ----------------------------------
    BY_SRC = ("g1 = lambda q: OUT((('q', q),))\n"
              "g2 = lambda q, zz=BY: OUT((('q', q), ('zz', zz)))\n")

    def _by_tok(self, u):
        if self.mode == "pairs":
            return {"k": "sent", "u": u}
        return {"k": "tensor", "u": u, "d": 1, "r": "B"}

    def make_bystanders(self):
        by_tok = self._by_tok(900001)
        glob = {"OUT": self.OUT, "BY": self.objs.get(by_tok)}
        exec(compile(self.BY_SRC, "<c13-bystanders>", "exec"), glob)
        ctok = {"k": "num", "u": 900002}
        with self.ctx.lib("wrap bystanders", feature="bystander-create"):
            made = [(UserFunction(self.objs.get(ctok)), {}, [], True),
                    (UserFunction(glob["g1"]), {}, ["q"], False),
                    (UserFunction(glob["g2"]), {"zz": by_tok}, ["q", "zz"], False)]
        for real, defaults, params, const in made:
            self.bystanders.append(_W(real, "user", defaults, False, "bystander", 0,
                                      params=params, const=const))

    def call_bystanders(self):
        for j, w in enumerate(self.bystanders):
            tok = self._by_tok(900010 + j)
            n0 = len(self.rec)
            with self.ctx.lib("call bystander", feature="bystander-call"):
                res = w.real({"q": self.objs.get(tok)})
            if w.const:
                mm = self.objs.mismatch(res, {"k": "num", "u": 900002})
                if mm:
                    self.violation("wrong-result", "bystander-const", mm)
                continue
            exp = [(p, tok if p == "q" else w.defaults[p], "given" if p == "q" else "default")
                   for p in w.params]
            if len(self.rec) - n0 != 1:
                self.violation("call-count", "bystander-call", f"{len(self.rec) - n0} evaluations")
            else:
                self.check_pairs(self.rec[-1], exp, True, "bystander-call")

    def restore_bystanders(self):
        """A leak into an unrelated wrapper can only travel through state shared inside the
        library, which would survive into the next case of this process and make the failing
        case irreproducible; put the bystanders' dicts back to their creation content."""
        for w in self.bystanders:
            d, sh = getattr(w.real, "defaults", None), w.shadow["defaults"]
            if isinstance(d, dict) and isinstance(sh, dict) and \
                    (set(d) != set(sh) or any(d[k] is not sh[k] for k in d)):
                d.clear()
                d.update(sh)

    # -- whole case --------------------------------------------------------------------
    def run(self):
        spec = self.spec
        if spec.get("by") == "before":
            self.make_bystanders()
        if self.const:
            what = self.objs.get(spec["const"])
        else:
            what = self.compile_fn()
            n, ndef = len(self.params), int(spec["ndef"])
        with self.ctx.lib("wrap", feature=f"{spec['cls']}-create"):
            real = self.wrap(spec["cls"], what)
        defaults = {} if self.const else dict(zip(self.params[n - ndef:], spec["defaults"]))
        self.pool.append(_W(real, spec["cls"], defaults, False, "root", 0))
        if real.fun is not what:
            self.violation("state-mismatch", "fun-of-root", "wrapper.fun is not the user's function")
        if spec.get("by") == "after":
            self.make_bystanders()
        self.check_all("create", target=0)
        for op in spec["ops"]:
            if self.diverged:
                break
            i = int(op["w"]) % len(self.pool)
            w = self.pool[i]
            self.stats["ops"] += 1
            getattr(self, "op_" + op["op"])(op, i, w)
        if not self.diverged:
            self.call_bystanders()
            self.check_all("bystander-calls")
        if self.out_failed:
            self.classes.add("out-helper-fallback")


def _fmt(d):
    if not isinstance(d, dict):
        return _short(d)
    return "{" + ", ".join(f"{k}: {_short(v)}" for k, v in d.items()) + "}"


def _hygiene():
    """Every case must start from the same library state or a failing case would not replay.
    The only state the module can share between wrappers are the constructor's default
    arguments; a fresh constant wrapper holds them.  They are emptied here if an earlier case
    (of a defective library) left something in them; the leak itself is detected inside the
    case that causes it, through the bystander wrappers."""
    try:
        probe = UserFunction(0.0)
    except Exception:       # reported by the case itself
        return
    for attr in ("defaults", "args"):
        d = getattr(probe, attr, None)
        if isinstance(d, dict) and d:
            d.clear()


def run_case(spec, ctx):
    for op in spec["ops"]:
        if op["op"] not in OPS:
            raise HarnessError(f"unknown op {op['op']}")
    _hygiene()
    run = _Run(spec, ctx)
    try:
        run.run()
    finally:
        run.restore_bystanders()
    s = run.stats
    n, ndef = len(spec["params"]), int(spec["ndef"])
    classes = sorted(run.classes) + [
        f"params-{n}", "ndef-" + ("0" if ndef == 0 else "all" if ndef == n else "some"),
        f"{spec['cls']}-{spec['mode']}", f"kind-{spec['kind']}",
        "declared-falsy-default-" + ("yes" if any(t["k"] in FALSY for t in spec.get("defaults", []))
                                     else "no"),
        "pool-" + ("1" if len(run.pool) <= 1 else "2-3" if len(run.pool) <= 3 else "4+"),
    ]
    if s["max_depth"] >= 2:
        classes.append("partial-chain>=2")
    ctx.event("ops-executed", s["ops"] - s["skipped"])
    ctx.event("ops-skipped", s["skipped"])
    ctx.event("function-evaluations", len(run.rec))
    return {
        "nontrivial": bool((n >= 3 and s["omit_default_calls"] >= 1) or s["partial_wrappers"] >= 2),
        "classes": classes,
        "summary": dict(s, wrappers=len(run.pool), evaluations=len(run.rec)),
    }
