"""C10 - volume() is the true measure of the domain; density sampling yields density*measure points."""
import math
import warnings

import numpy as np
import torch
from hypothesis import strategies as st

from torchphysics.problem.spaces import Points

from vf import build, geo, refgeo as rg, specs

PROPERTY = "C10"
RULE = ("Hypothesis draws (a) a primitive or its boundary (interval, circle, parallelogram and triangle "
        "in both vertex orientations, sphere, polygon with hole, convex mesh; slanted/shifted/"
        "parameter-dependent) with 0-5 parameter rows: volume() vs the closed-form float64 measure "
        "(rel 1e-5), one positive value per row; (b) compositions with the flags the docs give meaning "
        "to: union declared disjoint (operands constructed apart), cut declared contained (second "
        "operand constructed inside), independent products, Translate/Rotate, partial evaluation, "
        "set_volume with a number or a function of the parameters: additive / subtractive / "
        "multiplicative / invariant / override identities on the library's operand volumes AND against "
        "the reference measure; (c) density sampling at one parameter row: random-uniform on "
        "non-rejection primitives and boundaries returns exactly ceil(d*volume) rows, grid sampling "
        "returns 0 < rows <= ceil(d*volume) and, for intervals / parallelograms / circle boundaries, a "
        "regular lattice; rejection-based shapes (triangle) and flagged compositions: mean row count of "
        "R calls within a 6-sigma bound of d*measure. Non-trivial: generic parameters (not the unit "
        "shape at the origin), or k>=2, or clockwise, or a composition, or a density case; distinct = "
        "spec hash without rng.")
ASSUMPTIONS = ["closed forms in vf/refgeo.py", "volume compared at rel 1e-5 + abs 1e-6",
               "a parameter-independent domain may return one value instead of one per row",
               "density counts of rejection-based shapes judged by a 6-sigma binomial bound"]
BUDGET = {"quick": {"examples": 260, "workers": 4}, "thorough": {"examples": 4000, "workers": 14}}


def _flip(leafspec):
    """reverse the vertex orientation of a parallelogram/triangle."""
    f = dict(leafspec)
    f["c1"], f["c2"] = leafspec["c2"], leafspec["c1"]
    return f


@st.composite
def _leaf(draw, dim=None, dep=True, lattice=None):
    dim = dim or draw(st.sampled_from([1, 2, 2, 2, 3]))
    lat = draw(st.integers(0, 4)) == 0 if lattice is None else lattice
    depv = {"p": (1, 0.0, 1.0)} if dep and draw(st.booleans()) else {}
    ctx = specs.Ctx(depv, 0.6 if depv else 0.0, lat, False)
    hint = ([draw(specs.num(-8, 8)) for _ in range(dim)], draw(specs.num(0.5, 4.0)))
    L = draw(specs.leaf(dim, ctx, hint))
    if L["t"] in ("par", "tri") and draw(st.booleans()):
        L = _flip(L)
    return L


@st.composite
def _prows(draw, E, force_one=False):
    fv = rg.free_vars(E)
    names = set(fv)
    if draw(st.integers(0, 4)) == 0:
        names |= {"p"}
    if not names:
        return {}
    ks = (1,) if force_one else ((1, 1, 2, 3, 5) if fv else (0, 1, 2, 3))
    return draw(specs.param_rows(names, ks=ks))


@st.composite
def _case(draw, tier):
    kind = draw(st.sampled_from(["leaf", "leaf", "bleaf", "bleaf", "union-disjoint", "cut-contained", "product",
                                 "transform", "partial", "setvolume", "density-random", "density-random",
                                 "density-grid", "density-stat"]))
    c = {"kind": kind, "rng": draw(st.integers(0, 2 ** 31 - 1))}
    if kind in ("leaf", "bleaf"):
        L = draw(_leaf())
        c["E"] = L if kind == "leaf" else {"t": draw(st.sampled_from(["boundary", "boundary", "bleft", "bright"])
                                                       if L["t"] == "interval" else st.just("boundary")), "a": L}
        c["prows"] = draw(_prows(c["E"]))
    elif kind in ("union-disjoint", "cut-contained"):
        dim = draw(st.sampled_from([1, 2, 2, 3]))
        A = draw(_leaf(dim, dep=False, lattice=False))
        B = draw(_leaf(dim, dep=False, lattice=False))
        c["dim"] = dim
        c["A"], c["B"] = A, B
        c["gap"] = draw(specs.num(0.1, 2.0))
        c["shrink"] = draw(specs.num(0.2, 0.8))
        c["bdry"] = draw(st.booleans())
        c["prows"] = {}
    elif kind == "product":
        A = draw(_leaf(draw(st.sampled_from([1, 2])), dep=True))
        B = specs._rename(draw(_leaf(1, dep=True)), "u", "t")
        c["E"] = {"t": "product", "a": A, "b": B}
        c["prows"] = draw(_prows(c["E"]))
    elif kind == "transform":
        dim = draw(st.sampled_from([1, 2, 2, 3]))
        A = draw(_leaf(dim, dep=True))
        depv = {"p": (1, 0.0, 1.0)}
        ctx = specs.Ctx(depv, 0.5, False, False)
        if dim == 2 and draw(st.booleans()):
            form = draw(st.sampled_from(["angles", "matrix"]))
            ang = draw(specs._vec_param(ctx, [draw(specs.num(-6.3, 6.3))], 3.0)) if form == "angles" \
                else specs.const([draw(specs.num(-6.3, 6.3))])
            E = {"t": "rotate", "a": A, "angle": ang, "around": draw(st.one_of(st.none(), specs._vec_param(
                ctx, [draw(specs.num(-3, 3)), draw(specs.num(-3, 3))], 1.0))), "form": form}
        else:
            E = {"t": "translate", "a": A, "v": draw(specs._vec_param(ctx, [draw(specs.num(-3, 3)) for _ in range(dim)], 1.5))}
        c["E"] = {"t": "boundary", "a": E} if draw(st.integers(0, 3)) == 0 else E
        c["prows"] = draw(_prows(c["E"]))
    elif kind == "partial":
        L = draw(_leaf(dep=True))
        c["E"] = L if draw(st.booleans()) or L["t"] == "point" else {"t": "boundary", "a": L}
        c["prows"] = draw(specs.param_rows({"p"}, ks=(1,)))
    elif kind == "setvolume":
        L = draw(_leaf(dep=True))
        c["E"] = L
        c["uservol"] = draw(st.one_of(specs.num(0.1, 50).map(lambda v: {"k": "const", "v": [v]}),
                                      st.builds(lambda a, b: {"k": "affine", "var": "p", "v0": [a], "V1": [[b]]},
                                                specs.num(0.5, 20), specs.num(0.0, 5))))
        c["wrap"] = draw(st.sampled_from(["none", "boundary-unaffected", "translate"]))
        names = rg.free_vars(L) | ({"p"} if c["uservol"]["k"] != "const" else set())
        c["prows"] = draw(specs.param_rows(names, ks=(1, 2, 3))) if names else {}
    else:
        dim = draw(st.sampled_from([1, 2, 2, 3]))
        L = draw(_leaf(dim, dep=True))
        if kind == "density-stat":
            kind2 = draw(st.sampled_from(["tri", "union-disjoint", "cut-contained"]))
            c["stat"] = kind2
            if kind2 == "tri":
                L = draw(_leaf(2, dep=True).filter(lambda l: l["t"] == "tri"))
            else:
                c["A"] = draw(_leaf(dim, dep=False, lattice=False))
                c["B"] = draw(_leaf(dim, dep=False, lattice=False))
                c["gap"] = draw(specs.num(0.1, 2.0))
                c["shrink"] = draw(specs.num(0.2, 0.8))
                c["dim"] = dim
        c["E"] = L if draw(st.booleans()) or kind == "density-stat" else {"t": "boundary", "a": L}
        c["m"] = draw(st.sampled_from([1, 2, 3, 7, 20, 50, 150, 400]))
        c["frac"] = draw(specs.num(0.0, 0.999))
        c["prows"] = draw(_prows(c["E"], force_one=True)) if rg.free_vars(c["E"]) else \
            draw(st.sampled_from([{}, {}, {"p": [[0.5]]}]))
    return c


def strategy(tier):
    return _case(tier)


# ------------------------------------------------------------------ helpers ---------------
def _vol(ctx, D, params, label, feat):
    with ctx.lib(label, feature=feat):
        with warnings.catch_warnings():
            warnings.simplefilter("ignore")
            v = D.volume(params)
    if not isinstance(v, torch.Tensor):
        ctx.violation("volume-type", feat, f"{label}: volume() returned {type(v).__name__}")
        return None
    return v.detach().double().reshape(-1).numpy(), tuple(v.shape)


def _close(a, b):
    return np.abs(a - b) <= 1e-5 * np.abs(b) + 1e-6


def _place(c):
    """operand specs for the flagged compositions: B moved away from A (disjoint) or shrunk into
    A (contained), by construction on the reference boxes."""
    A, B = c["A"], c["B"]
    boxA = rg.ref_box(A, {})[0]
    boxB = rg.ref_box(B, {})[0]
    dim = len(boxA) // 2
    cenA = np.array([(boxA[2 * i] + boxA[2 * i + 1]) / 2 for i in range(dim)])
    cenB = np.array([(boxB[2 * i] + boxB[2 * i + 1]) / 2 for i in range(dim)])
    return A, B, boxA, boxB, cenA, cenB, dim


def _shift_leaf(L, delta):
    """translate a constant leaf spec by delta (pure spec rewrite)."""
    f = dict(L)
    t = L["t"]
    def sh(P, idx=None):
        v = list(P["v"])
        return {"k": "const", "v": [round(v[i] + delta[i], 4) for i in range(len(v))]}
    if t == "interval":
        f["lo"], f["hi"] = sh(L["lo"]), sh(L["hi"])
    elif t in ("circle", "sphere"):
        f["c"] = sh(L["c"])
    elif t in ("par", "tri"):
        f["o"], f["c1"], f["c2"] = sh(L["o"]), sh(L["c1"]), sh(L["c2"])
    elif t == "poly":
        f["verts"] = [[round(x + delta[0], 4), round(y + delta[1], 4)] for x, y in L["verts"]]
        if L.get("hole"):
            f["hole"] = [[round(x + delta[0], 4), round(y + delta[1], 4)] for x, y in L["hole"]]
    elif t == "mesh":
        f["verts"] = [[round(v[i] + delta[i], 4) for i in range(3)] for v in L["verts"]]
    return f


def _scale_leaf(L, s, cen):
    """scale a constant leaf spec by s about cen."""
    f = dict(L)
    t = L["t"]
    def sc(P):
        v = list(P["v"])
        return {"k": "const", "v": [round(cen[i] + s * (v[i] - cen[i]), 4) for i in range(len(v))]}
    if t == "interval":
        f["lo"], f["hi"] = sc(L["lo"]), sc(L["hi"])
    elif t in ("circle", "sphere"):
        f["c"] = sc(L["c"])
        f["r"] = {"k": "const", "v": [round(s * L["r"]["v"][0], 4)]}
    elif t in ("par", "tri"):
        f["o"], f["c1"], f["c2"] = sc(L["o"]), sc(L["c1"]), sc(L["c2"])
    elif t == "poly":
        f["verts"] = [[round(cen[0] + s * (x - cen[0]), 4), round(cen[1] + s * (y - cen[1]), 4)] for x, y in L["verts"]]
        if L.get("hole"):
            f["hole"] = [[round(cen[0] + s * (x - cen[0]), 4), round(cen[1] + s * (y - cen[1]), 4)] for x, y in L["hole"]]
    elif t == "mesh":
        f["verts"] = [[round(cen[i] + s * (v[i] - cen[i]), 4) for i in range(3)] for v in L["verts"]]
    return f


def _disjoint_pair(c):
    A, B, boxA, boxB, cenA, cenB, dim = _place(c)
    # move B so that its box starts `gap` to the right of A's box along axis 0
    delta = np.zeros(dim)
    delta[0] = boxA[1] + c["gap"] - boxB[0]
    return A, _shift_leaf(B, delta)


def _contained_pair(c):
    """B scaled and moved so that its bounding box lies inside a box inscribed in A."""
    A, B, boxA, boxB, cenA, cenB, dim = _place(c)
    # a point well inside A: centroid of reference interior samples
    gen = np.random.default_rng(c["rng"])
    pts = rg.sample_interior(A, {}, 400, gen)
    env = {A["var"]: pts}
    m = rg.margin(A, env)
    j = int(np.argmax(m))
    centre, rad = pts[j], float(m[j])
    extB = max(boxB[2 * i + 1] - boxB[2 * i] for i in range(dim))
    diagB = extB * math.sqrt(dim)
    s = c["shrink"] * 2 * rad / max(diagB, 1e-9)
    B2 = _scale_leaf(B, s, cenB)
    B2 = _shift_leaf(B2, centre - cenB)
    return A, B2, rad


def _check_shape_positive(ctx, vals, shape, k, dependent, feat, label):
    ok_shapes = [(max(k, 1), 1)]
    if not dependent:
        ok_shapes.append((1, 1))     # dependent = the MEASURE differs between the parameter rows
    if shape not in ok_shapes:
        ctx.violation("volume-shape", feat, f"{label}: volume shape {shape} for k={k} parameter rows")
        return False
    if not np.all(np.isfinite(vals)) or np.any(vals <= 0):
        ctx.violation("volume-sign", feat, f"{label}: volume values {np.round(vals, 6).tolist()} are not positive finite")
        return False
    return True


def _label(E):
    I = geo._strip_boundary(E)
    lab = geo.node_label(I)
    if I["t"] == "tri" and "tri-cw" in specs.features(I):
        lab += "-cw"
    return ("boundary:" if rg.is_boundary(E) else "") + lab


def _compare_measure(ctx, E, D, prows, feat, label):
    k = geo.nrows(prows)
    params = build.params_points(prows)
    penv = build.params_env(prows) if k else {}
    res = _vol(ctx, D, params, label, feat)
    if res is None:
        return None
    vals, shape = res
    ref = rg.exact_measure(E, penv if k else {})
    # one value per row is required where the measure really depends on the row; a domain whose
    # measure is the same for all rows (constant radius, moving centre) may answer with one value
    dep = bool(rg.free_vars(E)) and ref is not None and not np.allclose(np.asarray(ref), np.asarray(ref).reshape(-1)[0])
    if not _check_shape_positive(ctx, vals, shape, k, dep, feat, label):
        return None
    if ref is None:
        return vals
    ref = np.asarray(ref, dtype=float).reshape(-1)
    if len(vals) == 1 and len(ref) > 1:
        ref = ref[:1] if np.allclose(ref, ref[0]) else ref
    if len(vals) != len(ref) and not (len(ref) == 1):
        ctx.violation("volume-shape", feat, f"{label}: {len(vals)} values for {len(ref)} parameter rows")
        return vals
    bad = ~_close(vals, ref if len(ref) == len(vals) else np.repeat(ref, len(vals)))
    if bad.any():
        i = int(np.where(bad)[0][0])
        ctx.violation("volume-value", feat, f"{label}: volume {vals[i]:.6g} but the measure is "
                      f"{(ref if len(ref) == len(vals) else np.repeat(ref, len(vals)))[i]:.6g} (row {i})")
    return vals


# ------------------------------------------------------------------ cases -------------------
def run_case(spec, ctx):
    kind = spec["kind"]
    k = geo.nrows(spec.get("prows", {}))
    classes = [kind, f"k{min(k, 3)}"]
    summary = {}
    nontrivial = True
    if kind in ("leaf", "bleaf", "product", "transform"):
        E = spec["E"]
        feat = _label(E) if kind in ("leaf", "bleaf") else kind + ":" + _label(E if kind != "product" else E["a"])
        with ctx.lib("construct", feature=feat):
            D = build.domain(E)
        depprod = kind == "product" and bool(rg.free_vars(E["a"]) & {v for v, _ in rg.space_vars(E["b"])})
        if depprod:
            # first factor depends on the second: the built-in volume is an estimate (known finding D18, judged by
            # the statistical checks); here only the user-volume history below is judged
            classes.append("depproduct")
            params0 = build.params_points(spec["prows"])
            ra = _vol(ctx, D, params0, "volume (first call)", "product:dependent")
            rb = _vol(ctx, D, params0, "volume (second call)", "product:dependent")
            if ra is not None and rb is not None and (len(ra[0]) != len(rb[0]) or not _close(ra[0], rb[0]).all()):
                ctx.violation("volume-identity", "product:dependent|asked-twice",
                              f"volume() of the same product: {np.round(ra[0], 5).tolist()} at the first call, "
                              f"{np.round(rb[0], 5).tolist()} at the second")
            _product_uservolume(spec, ctx, D, "product:dependent")
            return {"nontrivial": True, "classes": classes, "summary": summary}
        vals = _compare_measure(ctx, E, D, spec["prows"], feat, "volume")
        classes += sorted(specs.features(E) & {"dep", "par-cw", "tri-cw", "par-slanted", "poly", "mesh", "sphere", "circle", "interval", "tri", "par"})
        summary["volume"] = None if vals is None else np.round(vals, 5).tolist()
        nontrivial = kind != "leaf" or not _unit_like(E, k)
        if kind == "product" and vals is not None and hasattr(D, "domain_a"):
            # history on shared objects: the product was asked once; now the first factor gets a user volume
            # ("a user-set volume overrides it", "multiplicative for products") and the SAME product is asked again
            uv = 0.5 + (spec["rng"] % 97) / 10.0
            params = build.params_points(spec["prows"])
            with ctx.lib("set_volume on a factor", feature=feat):
                D.domain_a.set_volume(uv)
            rb = _vol(ctx, D.domain_b, params, "volume(b)", feat)
            r2 = _vol(ctx, D, params, "volume after factor.set_volume", feat)
            if rb is not None and r2 is not None:
                want = uv * rb[0]
                got = r2[0]
                if len(got) == 1 and len(want) > 1:
                    got = np.repeat(got, len(want))
                if len(want) == 1 and len(got) > 1:
                    want = np.repeat(want, len(got))
                if len(got) != len(want) or not _close(got, want).all():
                    ctx.violation("set-volume-ignored", "product|factor-set-after-first-use",
                                  f"product volume {np.round(got, 5).tolist()} after factor a got the user volume {uv}: "
                                  f"{uv} * volume(b) = {np.round(want, 5).tolist()}")
        if kind == "product" and vals is not None and k <= 1:
            # "a user-set volume overrides it" on the product itself (the documented use for products whose first
            # factor depends on the second): volume, density sampling and volume again on the SAME object
            _product_uservolume(spec, ctx, D, feat)
    elif kind in ("union-disjoint", "cut-contained"):
        _flagged(spec, ctx, summary)
    elif kind == "partial":
        _partial(spec, ctx, summary)
    elif kind == "setvolume":
        _setvolume(spec, ctx, summary)
    else:
        _density(spec, ctx, summary, classes)
    return {"nontrivial": bool(nontrivial), "classes": classes, "summary": summary}


def _unit_like(E, k):
    f = specs.features(E)
    return k == 0 and not ({"dep", "par-cw", "tri-cw", "par-slanted", "poly", "mesh"} & f)


def _flagged_specs(spec):
    if spec["kind"] == "union-disjoint" or spec.get("stat") == "union-disjoint":
        A, B = _disjoint_pair(spec)
        return {"t": "union", "a": A, "b": B, "disjoint": True}, A, B
    A, B, _ = _contained_pair(spec)
    return {"t": "cut", "a": A, "b": B, "contained": True}, A, B


def _flagged(spec, ctx, summary):
    E, A, B = _flagged_specs(spec)
    kind = spec["kind"]
    feat = kind + (":boundary" if spec["bdry"] else "")
    # sanity of the construction by the reference (harness responsibility)
    gen = np.random.default_rng(spec["rng"])
    pb = rg.sample_interior(B, {}, 300, gen)
    inA = rg.contains(A, {A["var"]: pb})
    if kind == "union-disjoint" and inA.any() or kind == "cut-contained" and not inA.all():
        ctx.inconclusive_case("construction")
        return
    with ctx.lib("construct", feature=feat):
        D, DA, DB = build.domain(E), build.domain(A), build.domain(B)
        if spec["bdry"]:
            D, DA, DB = D.boundary, DA.boundary, DB.boundary
    pe = Points.empty()
    r = _vol(ctx, D, pe, "volume", feat)
    ra = _vol(ctx, DA, pe, "volume(a)", feat)
    rb = _vol(ctx, DB, pe, "volume(b)", feat)
    if r is None or ra is None or rb is None:
        return
    v, va, vb = r[0][0], ra[0][0], rb[0][0]
    if spec["bdry"] or kind == "union-disjoint":
        expect = va + vb          # boundary of a disjoint union / of a contained cut: both surfaces
    else:
        expect = va - vb
    mag = 1e-5 * (abs(va) + abs(vb))
    ma = rg.leaf_measure(A, {}, boundary=spec["bdry"])[0]
    mb = rg.leaf_measure(B, {}, boundary=spec["bdry"])[0]
    for lv, lm, L in ((va, ma, A), (vb, mb, B)):
        if not _close(np.array([lv]), np.array([lm]))[0]:
            ctx.violation("volume-value", ("boundary:" if spec["bdry"] else "") + _label(L),
                          f"operand volume {lv:.6g} but the measure is {lm:.6g}")
            return
    if abs(v - expect) > mag + 1e-6:
        ctx.violation("volume-identity", feat, f"volume {v:.6g} but operands give {va:.6g} {'+' if expect == va + vb else '-'} {vb:.6g} = {expect:.6g}")
    ref = ma + mb if (spec["bdry"] or kind == "union-disjoint") else ma - mb
    if abs(v - ref) > 2 * mag + 1e-6:
        ctx.violation("volume-value", feat + "|" + _label(A) + "," + _label(B),
                      f"volume {v:.6g} but the measure is {ref:.6g}")
    if v <= 0:
        ctx.violation("volume-sign", feat, f"volume {v}")
    # partial evaluation (here with a name the domain does not use) must not change the volume
    with ctx.lib("partial-evaluation", feature=feat):
        D2 = D(p=torch.tensor([[0.5]]))
    r2 = _vol(ctx, D2, pe, "volume after partial evaluation", feat)
    if r2 is not None and abs(r2[0][0] - v) > mag + 1e-6:
        ctx.violation("volume-identity", feat + "|after-partial-evaluation",
                      f"volume {v:.6g} became {r2[0][0]:.6g} after partial evaluation (declared flag lost)")
    summary.update(volume=float(v), reference=float(ref))


def _partial(spec, ctx, summary):
    E, prows = spec["E"], spec["prows"]
    feat = "partial:" + _label(E)
    with ctx.lib("construct", feature=feat):
        D = build.domain(E)
    params = build.params_points(prows)
    r0 = _vol(ctx, D, params, "volume(params)", feat)
    vals = {kk: torch.tensor(v[:1], dtype=torch.float32).reshape(1, -1) for kk, v in prows.items()}
    with ctx.lib("partial-evaluation", feature=feat):
        D1 = D(**vals)
    r1 = _vol(ctx, D1, Points.empty(), "volume after partial evaluation", feat)
    if r0 is None or r1 is None:
        return
    if not _close(r1[0][:1], r0[0][:1])[0]:
        ctx.violation("volume-identity", feat, f"volume after partial evaluation {r1[0][0]:.6g} != volume with parameters {r0[0][0]:.6g}")
    ref = rg.exact_measure(E, build.params_env(prows))
    if ref is not None and not _close(r1[0][:1], np.asarray(ref)[:1])[0]:
        ctx.violation("volume-value", feat, f"partially evaluated volume {r1[0][0]:.6g}, measure {float(ref[0]):.6g}")
    summary.update(volume=float(r1[0][0]))


def _product_uservolume(spec, ctx, D, feat):
    params = build.params_points(spec["prows"])
    v2 = 0.7 + (spec["rng"] % 53) / 7.0
    f2 = "set_volume:number|product"
    with ctx.lib("set_volume on the product", feature=f2):
        D.set_volume(v2)
    if spec["rng"] % 2 == 0:
        r3 = _vol(ctx, D, params, "volume after set_volume on the product", f2)
        if r3 is not None and not _close(r3[0][:1], np.asarray([v2]))[0]:
            ctx.violation("set-volume-ignored", f2, f"volume {np.round(r3[0], 5).tolist()} after set_volume({v2:.5g})")
    dens = 9.3 / v2
    with ctx.lib("sample_random_uniform(d) after set_volume", feature=f2, budget_calls=40000):
        with warnings.catch_warnings():
            warnings.simplefilter("ignore")
            Pd = D.sample_random_uniform(d=dens, params=params)
    expect = int(torch.ceil(torch.tensor(dens, dtype=torch.float32) * torch.tensor(v2, dtype=torch.float32)))
    if len(Pd) != expect:
        ctx.violation("set-volume-ignored", f2 + "|density",
                      f"density sampling after set_volume({v2:.5g}) on the product returned {len(Pd)} rows, ceil(d * user volume) = {expect}")
    r4 = _vol(ctx, D, params, "volume after set_volume and density sampling", f2)
    if r4 is not None and not _close(r4[0][:1], np.asarray([v2]))[0]:
        ctx.violation("set-volume-lost", f2 + "|after-density-sampling",
                      f"user volume {v2:.5g} but the product reports {np.round(r4[0], 5).tolist()} after density sampling")


def _setvolume(spec, ctx, summary):
    E, prows, uv = spec["E"], spec["prows"], spec["uservol"]
    k = geo.nrows(prows)
    feat = "set_volume:" + ("function" if uv["k"] != "const" else "number") + "|" + spec["wrap"]
    with ctx.lib("construct", feature=feat):
        D = build.domain(E)
        if spec["wrap"] == "translate":
            from torchphysics.problem.domains import Translate
            dim = rg.space_vars(E)[0][1]
            D = Translate(D, [0.5] * dim if dim > 1 else 0.5)
        target = D
        target.set_volume(build.param(uv, True))
    params = build.params_points(prows)
    penv = build.params_env(prows) if k else {}
    if spec["wrap"] == "boundary-unaffected":
        return      # nothing promised about the boundary of a domain with user volume
    r = _vol(ctx, D, params, "volume after set_volume", feat)
    if r is None:
        return
    want = rg.pval(uv, penv, max(k, 1))[:, 0]
    got = r[0]
    if len(got) == 1 and len(want) > 1 and uv["k"] == "const":
        want = want[:1]
    if len(got) != len(want) or not _close(got, want).all():
        ctx.violation("set-volume-ignored", feat, f"volume {np.round(got, 5).tolist()} after set_volume({np.round(want, 5).tolist()})")
    summary.update(volume=np.round(got, 5).tolist())
    # "a user-set volume overrides it": density sampling must use the user's volume as well
    I = geo._strip_boundary(E)
    if k <= 1 and spec["wrap"] == "none" and I["t"] in ("interval", "circle", "par", "sphere") and len(got) == 1:
        dens = 7.3 / float(got[0])
        with ctx.lib("sample_random_uniform(d) after set_volume", feature=feat):
            with warnings.catch_warnings():
                warnings.simplefilter("ignore")
                Pd = D.sample_random_uniform(d=dens, params=params)
        expect = int(torch.ceil(torch.tensor(dens, dtype=torch.float32) * torch.tensor(float(got[0]), dtype=torch.float32)))
        if len(Pd) != expect:
            ctx.violation("set-volume-ignored", feat + "|density",
                          f"density sampling after set_volume returned {len(Pd)} rows, ceil(d * user volume) = {expect}")
    # the user-set volume must survive partial evaluation ("unchanged by partial evaluation")
    vals = {kk: torch.tensor(v[:1], dtype=torch.float32).reshape(1, -1) for kk, v in prows.items()} \
        if k else {"p": torch.tensor([[0.5]])}
    with ctx.lib("partial-evaluation", feature=feat):
        D2 = D(**vals)
    r2 = _vol(ctx, D2, Points.empty(), "volume after set_volume + partial evaluation", feat)
    if r2 is not None:
        w2 = rg.pval(uv, {kk: v.double().numpy() for kk, v in vals.items()}, 1)[:, 0]
        if not _close(r2[0][:1], w2[:1])[0]:
            ctx.violation("set-volume-lost", "partial-evaluation|" + spec["wrap"],
                          f"user volume {w2[0]:.6g} but the partially evaluated domain reports {r2[0][0]:.6g}")


def _regular(vals, tol):
    """are the sorted distinct values equally spaced?"""
    v = np.sort(np.asarray(vals, dtype=float))
    # cluster values that agree up to rounding (a fixed rounding grid can split one level in two)
    groups = np.split(v, np.where(np.diff(v) > 20 * tol)[0] + 1)
    u = np.array([g.mean() for g in groups])
    if len(u) < 3:
        return True
    d = np.diff(u)
    return bool(np.all(np.abs(d - d.mean()) <= 5 * tol + 1e-3 * abs(d.mean())))


def _density(spec, ctx, summary, classes):
    kind, prows = spec["kind"], spec["prows"]
    k = geo.nrows(prows)
    params = build.params_points(prows)
    penv = build.params_env(prows) if k else {}
    if kind == "density-stat" and spec["stat"] != "tri":
        E, A, B = _flagged_specs(dict(spec, bdry=False, kind=spec["stat"]))
        gen = np.random.default_rng(spec["rng"])
        inA = rg.contains(A, {A["var"]: rg.sample_interior(B, {}, 300, gen)})
        if spec["stat"] == "union-disjoint" and inA.any() or spec["stat"] == "cut-contained" and not inA.all():
            ctx.inconclusive_case("construction")
            return
    else:
        E = spec["E"]
    feat = kind + ":" + (spec.get("stat") + ":" if kind == "density-stat" and spec["stat"] != "tri" else "") + _label(E)
    with ctx.lib("construct", feature=feat):
        D = build.domain(E)
    ref = rg.exact_measure(E, penv)
    if ref is None:
        return
    meas = float(np.asarray(ref).reshape(-1)[0])
    r = _vol(ctx, D, params, "volume", feat)
    if r is None:
        return
    vol = float(r[0][0])
    # density such that d*volume = m + frac (frac in [0,1) makes ceil non-trivial)
    d = (spec["m"] - 1 + spec["frac"] + 1e-3) / vol if vol > 0 else None
    if d is None or d <= 0:
        return
    # ceil evaluated the way the library does it (float32 product), but on the TRUE measure when
    # the volume is right; a wrong volume is reported by the volume oracles above
    expect = int(torch.ceil(torch.tensor(d, dtype=torch.float32) * torch.tensor(vol, dtype=torch.float32)))
    I = geo._strip_boundary(E)
    exact_kinds = ("interval", "circle", "par", "sphere", "poly", "mesh")
    summary.update(d=d, expect=expect, measure=meas)
    if kind == "density-random":
        with ctx.lib("sample_random_uniform(d)", feature=feat):
            P = D.sample_random_uniform(d=d, params=params)
        n = len(P)
        summary["rows"] = n
        if I["t"] in exact_kinds or rg.is_boundary(E):
            if n != expect:
                ctx.violation("density-count", feat, f"random-uniform density sampling returned {n} rows, ceil(d*volume) = {expect}")
        else:
            classes.append("rejection")
    elif kind == "density-grid":
        with ctx.lib("sample_grid(d)", feature=feat):
            P = D.sample_grid(d=d, params=params)
        n = len(P)
        summary["rows"] = n
        if n > expect or (n <= 0 and expect >= 4):
            ctx.violation("density-count", feat + "|grid", f"grid density sampling returned {n} rows, ceil(d*volume) = {expect}")
        x = P.as_tensor.double().numpy()
        scale = geo.scale_of(E, penv)
        if n >= 3 and not rg.is_boundary(E):
            if I["t"] == "interval":
                if not _regular(x[:, 0], 2e-5 * scale):
                    ctx.violation("grid-irregular", feat, "interval grid is not equally spaced")
            elif I["t"] == "par":
                V = rg._leaf_polygon(I, penv, 1)[0]
                d1, d2 = V[1] - V[0], V[3] - V[0]
                M = np.stack([d1, d2], axis=1)
                bc = np.linalg.solve(M, (x - V[0]).T).T
                if not (_regular(bc[:, 0], 1e-4) and _regular(bc[:, 1], 1e-4)):
                    ctx.violation("grid-irregular", feat, "parallelogram grid is not a regular barycentric lattice")
                if len(np.unique(np.round(bc[:, 0], 4))) * len(np.unique(np.round(bc[:, 1], 4))) != n:
                    ctx.violation("grid-incomplete", feat, f"{n} grid points do not fill a complete lattice")
        elif n >= 3 and I["t"] == "circle":
            c = rg.pval(I["c"], penv, 1)[0]
            ang = np.sort(np.mod(np.arctan2(x[:, 1] - c[1], x[:, 0] - c[0]), 2 * np.pi))
            gaps = np.diff(np.concatenate([ang, ang[:1] + 2 * np.pi]))
            if np.max(np.abs(gaps - 2 * np.pi / n)) > 1e-3:
                ctx.violation("grid-irregular", feat, "circle boundary grid is not equally spaced in angle")
    else:
        R = 30
        counts = []
        for _ in range(R):
            with ctx.lib("sample_random_uniform(d)", feature=feat):
                P = D.sample_random_uniform(d=d, params=params)
            counts.append(len(P))
        mean = float(np.mean(counts))
        target = d * meas
        # each call draws N candidates and keeps each with probability q: variance <= target per call
        sigma = math.sqrt(max(target, 1.0) / R) + 1.0 / R
        summary.update(mean_rows=mean, target=target)
        # every leaf operand rounds its own count up (ceil): up to one extra row per leaf
        slack = 1.0 + len(rg.leaves(geo._strip_boundary(E)))
        if abs(mean - target) > 6 * sigma + slack:
            ctx.violation("density-expectation", feat, f"mean row count {mean:.2f} over {R} calls, density*measure = {target:.2f}")


def extra_cases(tier, seed):
    """pinned: parameter-dependent shapes whose measure differs between the rows of ONE call (tilting /
    stretching parallelogram and triangle, growing disc / ball / interval), alone, as boundary and in a product."""
    C = specs.const
    aff = lambda v0, V1: {"k": "affine", "var": "p", "v0": v0, "V1": [[v] for v in V1]}      # noqa: E731
    tilt = {"t": "par", "var": "x", "o": C([0.5, -1.0]), "c1": aff([2.5, -1.0], [0.5, 1.5]), "c2": aff([1.2, 0.5], [-0.4, 0.8])}
    tri = {"t": "tri", "var": "x", "o": C([0.0, 0.0]), "c1": aff([2.0, 0.0], [0.5, 1.0]), "c2": aff([0.7, 1.5], [0.6, 0.5])}
    disc = {"t": "circle", "var": "x", "c": aff([0.0, 1.0], [2.0, -1.0]), "r": aff([0.5], [1.5])}
    ball = {"t": "sphere", "var": "y", "c": C([0.0, 1.0, -1.0]), "r": aff([0.4], [1.1])}
    itv = {"t": "interval", "var": "u", "lo": aff([-1.0], [0.5]), "hi": aff([1.0], [2.5])}
    T = {"t": "interval", "var": "t", "lo": C([0.0]), "hi": C([2.0])}
    out = []
    rows = {"p": [[0.0], [1.0], [0.35]]}
    for j, L in enumerate((tilt, tri, disc, ball, itv)):
        out.append({"kind": "leaf", "rng": seed + j, "E": L, "prows": rows})
        out.append({"kind": "bleaf", "rng": seed + j, "E": {"t": "boundary", "a": L}, "prows": rows})
        if L["t"] != "sphere":
            out.append({"kind": "product", "rng": seed + j, "E": {"t": "product", "a": L, "b": T}, "prows": rows})
            # one parameter row: the product then also gets a user volume and is sampled with a density
            out.append({"kind": "product", "rng": seed + j, "E": {"t": "product", "a": L, "b": T}, "prows": {"p": [[0.35]]}})
            out.append({"kind": "product", "rng": seed + j + 1, "E": {"t": "product", "a": L, "b": T}, "prows": {"p": [[0.8]]}})
    # products whose first factor depends on the second (the documented use of set_volume on a product)
    afft = lambda v0, V1: {"k": "affine", "var": "t", "v0": v0, "V1": [[v] for v in V1]}      # noqa: E731
    for j, A in enumerate(({"t": "circle", "var": "x", "c": C([0.2, 0.1]), "r": afft([0.4], [0.6])},
                           {"t": "interval", "var": "u", "lo": C([-1.0]), "hi": afft([0.5], [1.5])})):
        for r in (0, 1):
            out.append({"kind": "product", "rng": seed + 2 * j + r, "E": {"t": "product", "a": A, "b": T}, "prows": {}})
    return out
