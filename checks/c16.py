"""C16 - data loaders deliver every datum with intact input/target pairing."""
import math
from collections import Counter

import torch
from hypothesis import strategies as st

from torchphysics.models.deeponet.branchnets import BranchNet
from torchphysics.models.deeponet.deeponet import DeepONet
from torchphysics.models.deeponet.trunknets import TrunkNet
from torchphysics.models.model import Model
from torchphysics.problem.conditions import DataCondition, DeepONetDataCondition
from torchphysics.problem.domains import Interval
from torchphysics.problem.samplers import GridSampler
from torchphysics.problem.spaces import FunctionSpace, Points, Space
from torchphysics.utils import DeepONetDataLoader, PointsDataLoader

PROPERTY = "C16"
RULE = ("Data are self-describing float32 tensors (member k of a PointsDataLoader tuple, row i: "
        "1000k+i+0.25*column[+0.0625*grid index]; DeepONet branch row i carries i, shared trunk "
        "row j carries j, per-function ('unique') trunk [i,j] carries 1000i+j, output[i,j] = "
        "100i+j+0.5*column), so every yielded row names the datum it claims to be. extra_cases "
        "enumerates exhaustively PointsDataLoader n<=12(24) x batch<=n+2 x shuffle x drop_last and, "
        "per DeepONet trunk layout, ALL (functions, branch batch, locations, trunk batch) with "
        "sizes<=6 (thorough 12), batch in 1..size+2 or -1 (=full), shuffle flags and the "
        "full-data-set condition rotating; Hypothesis adds larger cases (sizes to 30, thorough "
        "40; batch dividing / not dividing / equal / larger / multiple / negative; tuples of 1-3 "
        "Points incl. rank-3 grid data; 1-2 columns). Oracles per case: batch structure and "
        "spaces; every row bitwise equal to the original rows of the datum it names (pairing); "
        "batch rows <= requested (== requested when drop_last); union over one pass covers every "
        "sample / every (function, location) pair except a dropped tail of < batch rows; "
        "len(loader) == batches yielded; DataCondition / DeepONetDataCondition("
        "use_full_dataset=True) feeds the model exactly the batches of one pass and returns "
        "max (inf) or mean of per-batch means (norm 1, 2; root 1, 2) recomputed from the "
        "recorded batches (rel 1e-5). Non-trivial: some batch size does not divide its size, "
        "or a shuffle flag is on for an axis of >= 2 rows, or (shared trunk) the branch and "
        "trunk batch cycles have a common factor, or (unique trunk) the numbers of branch and "
        "trunk batches differ; "
        "distinct = spec hash without the rng seed.")
ASSUMPTIONS = [
    "batch sizes are non-zero integers; negative means 'whole axis' for DeepONetDataLoader only "
    "(PointsDataLoader documents no such convention: positive batch sizes only)",
    "num_workers=0, pin_memory=False (no multiprocessing, no GPU in the sandbox)",
    "'at least once': repeated presentation of a datum (wrap-around batches) is not a violation",
    "the condition's model is a recording spy built from the documented Model / BranchNet / "
    "TrunkNet base classes; errors are multiples of 0.25 so |model-target| is exact in float32",
    "the order of batches and the order of rows without shuffling are not checked (not stated)",
    "missing (function, location) pairs are attributed to a configuration feature (shared trunk: "
    "batch cycles lcm(n,bs)/bs with a common factor; unique trunk: a batch size above the axis "
    "length answered with fewer rows than the axis has, else ceil(n/bs) differing between the "
    "axes); with the known findings D22a-c listed, coverage is judged only on configurations "
    "without these features - pairing, batch size, len and the aggregate on all of them",
    "a pass without batches (drop_last and n < batch) has no defined mean; only crash-freedom "
    "of the condition is checked there",
]
BUDGET = {"quick": {"examples": 200, "workers": 4},
          "thorough": {"examples": 2500, "workers": 14}}

NORMS = ["inf", 1, 2]


# ----------------------------------------------------------------------------------------
# generators
def _divisors(n):
    return [d for d in range(1, n + 1) if n % d == 0]


@st.composite
def _axis(draw, nmax, allow_negative):
    """(size, batch size) with every divisibility relation well represented."""
    n = draw(st.integers(1, nmax))
    modes = ["div", "any", "any", "any", "exceed", "equal", "multiple"]
    if allow_negative:
        modes.append("neg")
    mode = draw(st.sampled_from(modes))
    if mode == "div":
        bs = draw(st.sampled_from(_divisors(n)))
    elif mode == "any":
        bs = draw(st.integers(1, n))
    elif mode == "exceed":
        bs = draw(st.integers(n + 1, n + 5))
    elif mode == "equal":
        bs = n
    elif mode == "multiple":
        bs = n * draw(st.integers(2, 3))
    else:
        bs = draw(st.sampled_from([-1, -1, -4]))
    return n, bs


def _cond_strategy():
    return st.one_of(st.none(),
                     st.fixed_dictionaries({"norm": st.sampled_from(NORMS),
                                            "root": st.sampled_from([1.0, 1.0, 2.0])}))


@st.composite
def _points_case(draw, nmax):
    n, bs = draw(_axis(nmax, False))
    m = draw(st.sampled_from([1, 2, 2, 2, 3]))
    spec = {"kind": "points", "n": n, "bs": bs,
            "shuffle": draw(st.booleans()), "drop_last": draw(st.booleans()),
            "dims": [draw(st.integers(1, 2)) for _ in range(m)],
            "grid": draw(st.sampled_from([0, 0, 0, 1, 3])),
            "bare": draw(st.booleans()) if m == 1 else False,
            "cond": draw(_cond_strategy()) if m == 2 else None,
            "rng": draw(st.integers(0, 2 ** 31 - 1))}
    return spec


@st.composite
def _deeponet_case(draw, nmax, layout):
    nf, bb = draw(_axis(nmax, True))
    nt, tb = draw(_axis(nmax, True))
    return {"kind": "deeponet", "layout": layout, "nf": nf, "bb": bb, "nt": nt, "tb": tb,
            "shuffle_branch": draw(st.booleans()), "shuffle_trunk": draw(st.booleans()),
            "pts": draw(st.integers(1, 3)), "bd": draw(st.integers(1, 2)),
            "td": draw(st.integers(1, 2)), "od": draw(st.integers(1, 2)),
            "cond": draw(_cond_strategy()),
            "rng": draw(st.integers(0, 2 ** 31 - 1))}


def strategy(tier):
    nmax = 40 if tier == "thorough" else 30
    return st.one_of(_points_case(nmax), _deeponet_case(nmax, "shared"),
                     _deeponet_case(nmax, "unique"))


def _rot_cond(k):
    c = k % 9
    if c < 6:
        return None
    return {"norm": NORMS[c - 6], "root": 2.0 if (k // 9) % 3 == 2 else 1.0}


def extra_cases(tier, seed):
    """Exhaustive small sub-space: every (size, batch) relation, every layout."""
    k = 0
    np_max = 24 if tier == "thorough" else 12
    for n in range(1, np_max + 1):
        for bs in range(1, n + 3):
            for shuffle in (False, True):
                for drop_last in (False, True):
                    k += 1
                    yield {"kind": "points", "n": n, "bs": bs, "shuffle": shuffle,
                           "drop_last": drop_last, "dims": [1, 1 + k % 2], "grid": 0,
                           "bare": False, "cond": _rot_cond(k),
                           "rng": (seed * 7919 + k) % (2 ** 31 - 1)}
    nd_max = 12 if tier == "thorough" else 6
    for layout in ("shared", "unique"):
        for nf in range(1, nd_max + 1):
            for bb in [-1] + list(range(1, nf + 3)):
                for nt in range(1, nd_max + 1):
                    for tb in [-1] + list(range(1, nt + 3)):
                        k += 1
                        yield {"kind": "deeponet", "layout": layout, "nf": nf, "bb": bb,
                               "nt": nt, "tb": tb,
                               "shuffle_branch": bool(k % 5 == 1 or k % 5 == 3),
                               "shuffle_trunk": bool(k % 5 == 2 or k % 5 == 3),
                               "pts": 1 + k % 2, "bd": 1, "td": 1 + (k // 2) % 2,
                               "od": 1 + (k // 3) % 2, "cond": _rot_cond(k),
                               "rng": (seed * 7919 + k) % (2 ** 31 - 1)}


def finish(ctx):
    n = 6 if ctx.tier == "quick" else 12
    p = 12 if ctx.tier == "quick" else 24
    return {"exhaustive_subspace": f"PointsDataLoader n<={p}, batch<=n+2, shuffle, drop_last; "
                                   f"DeepONetDataLoader both layouts, all sizes<={n} with batch "
                                   f"in -1,1..size+2 on both axes (worker 0)"}


# ----------------------------------------------------------------------------------------
# helpers
def _err_u(n):   # integer valued 0..4
    return ((torch.arange(n) * 3 + 1) % 5).to(torch.float32)


def _err_v(n):   # multiples of 0.25 in 0..1.5
    return 0.25 * ((torch.arange(n) * 5 + 2) % 7).to(torch.float32)


def _decode(t, n):
    """Carried ids -> (LongTensor, ok).  Non-integral or out-of-range values are not ok."""
    t = t.detach()
    r = torch.round(t)
    ok = bool(((r == t) & (r >= 0) & (r < n)).all())      # NaN / inf fail the comparisons
    if not ok:
        r = torch.nan_to_num(r, nan=0.0, posinf=0.0, neginf=0.0).clamp(0, n - 1)
    return r.to(torch.long), ok


def _ids_clamped(t, n):
    """Decoding used inside the spy models: never fails, validity is judged elsewhere."""
    return torch.nan_to_num(t.detach()).round().long().clamp(0, n - 1)


def _as_members(batch, m):
    if isinstance(batch, Points):
        batch = (batch,)
    if not isinstance(batch, (tuple, list)) or len(batch) != m:
        return None
    if not all(isinstance(p, Points) for p in batch):
        return None
    return list(batch)


def _aggregate(per_batch_err, norm, root):
    """per_batch_err: list of float64 tensors |model-target| of each batch (all entries)."""
    if norm == "inf":
        val = max(float(e.max()) for e in per_batch_err)
    else:
        val = sum(float((e ** norm).mean()) for e in per_batch_err) / len(per_batch_err)
    if root != 1.0:
        val = val ** (1.0 / root)
    return val


def _check_value(ctx, feat, got, per_batch_err, cond):
    if not isinstance(got, torch.Tensor) or got.numel() != 1:
        ctx.violation("aggregate-value", feat, f"condition returned {type(got).__name__} "
                      f"of shape {tuple(getattr(got, 'shape', ()))}")
        return None
    got = float(got.detach().reshape(-1)[0])
    want = _aggregate(per_batch_err, cond["norm"], cond["root"])
    tol = 1e-5 * max(1.0, abs(want))
    if not math.isfinite(got) or abs(got - want) > tol:
        ctx.violation("aggregate-value", f"{feat}-norm-{'inf' if cond['norm'] == 'inf' else 'p'}",
                      f"full-data-set loss {got!r}, recomputed from the {len(per_batch_err)} "
                      f"recorded batches {want!r} (norm={cond['norm']}, root={cond['root']})")
    return got


def _relation(n, bs):
    if bs < 0:
        return "neg-full"
    if bs == n:
        return "equal"
    if bs > n:
        return "exceeds-multiple" if bs % n == 0 else "exceeds"
    return "divides" if n % bs == 0 else "not-dividing"


# ----------------------------------------------------------------------------------------
# PointsDataLoader
class _SpyModel(Model):
    def __init__(self, in_space, out_space, targets, err):
        super().__init__(in_space, out_space)
        self.targets, self.err, self.calls = targets, err, []

    def forward(self, points):
        points = self._fix_points_order(points)
        t = points.as_tensor
        ids = _ids_clamped(t.reshape(t.shape[0], -1)[:, 0] if t.shape[0] else t.reshape(0),
                           len(self.targets))
        self.calls.append(tuple(ids.tolist()))
        e = self.err[ids].reshape((-1,) + (1,) * (self.targets.dim() - 1))
        return Points(self.targets[ids] + e, self.output_space)


def _run_points(spec, ctx):
    n, bs, dims, g = spec["n"], spec["bs"], spec["dims"], spec.get("grid", 0)
    m = len(dims)
    feat = "points-loader"
    spaces = [Space({f"v{k}": d}) for k, d in enumerate(dims)]
    origs = []
    for k, d in enumerate(dims):
        t = 1000.0 * k + torch.arange(n, dtype=torch.float32).reshape(n, 1) \
            + 0.25 * torch.arange(d, dtype=torch.float32).reshape(1, d)
        if g:
            t = t.unsqueeze(1) + 0.0625 * torch.arange(g, dtype=torch.float32).reshape(1, g, 1)
        origs.append(t)
    data = [Points(t.clone(), s) for t, s in zip(origs, spaces)]
    arg = data[0] if (m == 1 and spec.get("bare")) else tuple(data)
    with ctx.lib("PointsDataLoader()", feature=feat):
        loader = PointsDataLoader(arg, batch_size=bs, shuffle=spec["shuffle"],
                                  drop_last=spec["drop_last"])
    with ctx.lib("len(loader)", feature=feat):
        length = len(loader)
    with ctx.lib("iterate loader", feature=feat):
        batches = list(loader)

    seen = torch.zeros(n, dtype=torch.long)
    recorded, structural = [], False
    bad = Counter()
    first = {}

    def note(kind, feature, detail):
        bad[(kind, feature)] += 1
        first.setdefault((kind, feature), detail)

    for bi, batch in enumerate(batches):
        members = _as_members(batch, m)
        if members is None:
            note("batch-structure", feat, f"batch {bi} is {type(batch).__name__}, expected "
                 f"{m} Points")
            structural = True
            continue
        ts = [p.as_tensor for p in members]
        if any(p.space != s for p, s in zip(members, spaces)):
            note("batch-structure", feat + "-space", f"batch {bi}: spaces "
                 f"{[str(p.space) for p in members]}")
        if any(tuple(t.shape[1:]) != tuple(o.shape[1:]) or t.dim() != o.dim()
               for t, o in zip(ts, origs)) or len({t.shape[0] for t in ts}) != 1:
            note("batch-structure", feat, f"batch {bi}: shapes {[tuple(t.shape) for t in ts]}")
            structural = True
            continue
        rows = ts[0].shape[0]
        ids, ok = _decode(ts[0].reshape(rows, -1)[:, 0] if rows else ts[0].reshape(0), n)
        if not ok:
            note("pairing", feat, f"batch {bi}: first member carries no valid row ids")
            structural = True
            continue
        for k in range(m):
            if not torch.equal(ts[k], origs[k][ids]):
                note("pairing", feat, f"batch {bi}: member {k} rows are not the rows "
                     f"{ids.tolist()[:8]} named by member 0: got {ts[k].reshape(rows, -1)[:4, 0].tolist()}")
                break
        if rows > bs:
            note("batch-size", feat, f"batch {bi} has {rows} rows, requested {bs}")
        if spec["drop_last"] and rows != bs:
            note("drop-last", feat + "-partial-batch", f"batch {bi} has {rows} rows with "
                 f"drop_last=True and batch size {bs}")
        if rows == 0:
            note("batch-size", feat + "-empty-batch", f"batch {bi} is empty")
        seen[ids] += 1
        recorded.append(ids)

    if not structural:
        missing = (seen == 0).nonzero().reshape(-1).tolist()
        allowed = n % bs if spec["drop_last"] else 0
        if len(missing) > allowed:
            note("coverage", feat, f"{len(missing)} of {n} samples never presented "
                 f"(allowed dropped tail {allowed}): {missing[:10]}")
        elif spec["drop_last"] and not spec["shuffle"] and missing and \
                min(missing) < (n // bs) * bs:
            note("coverage", feat, f"dropped samples {missing[:10]} are not the tail "
                 f"(n={n}, batch {bs})")
    if length != len(batches):
        note("len", feat, f"len(loader)={length} but {len(batches)} batches yielded")

    got = None
    cond = spec.get("cond")
    if cond and m == 2 and not structural:
        err = _err_v(n)
        model = _SpyModel(spaces[0], spaces[1], origs[1], err)
        with ctx.lib("DataCondition()", feature="points-condition"):
            c = DataCondition(module=model, dataloader=loader, norm=cond["norm"],
                              root=cond["root"], use_full_dataset=True)
        with ctx.lib("DataCondition.forward", feature="points-condition"):
            out = c()
        want_calls = Counter(tuple(i.tolist()) for i in recorded)
        if Counter(model.calls) != want_calls:
            note("aggregate-batches", "points-condition",
                 f"model saw {len(model.calls)} batches, one pass has {len(recorded)}; "
                 f"first seen {model.calls[:3]}")
        # a loss computed on mis-paired rows is the pairing defect again, not a second finding
        if recorded and all(len(i) for i in recorded) and not any(k == "pairing" for k, _ in bad):
            rep = int(origs[1][0].numel())
            per = [err[i].to(torch.float64).repeat_interleave(rep) for i in recorded]
            got = _check_value(ctx, "points-condition", out, per, cond)

    for (kind, feature), cnt in sorted(bad.items()):
        ctx.violation(kind, feature, f"{first[(kind, feature)]} [{cnt} occurrence(s)]")

    rel = _relation(n, bs)
    classes = ["points", f"points-bs-{rel}", f"points-tuple{m}"]
    classes += ["points-shuffle"] if spec["shuffle"] else []
    classes += ["points-drop-last"] if spec["drop_last"] else []
    classes += ["points-grid"] if g else []
    classes += [f"points-cond-{cond['norm']}"] if cond and m == 2 else []
    classes += ["points-empty-pass"] if not batches else []
    return {"nontrivial": bool((spec["shuffle"] and n >= 2) or n % bs != 0),
            "classes": classes,
            "summary": {"batches": len(batches), "len": length,
                        "covered": int((seen > 0).sum()), "of": n, "loss": got}}


# ----------------------------------------------------------------------------------------
# DeepONetDataLoader
class _SpyBranch(BranchNet):
    def __init__(self, function_space, sampler, nf, od):
        super().__init__(function_space, sampler)
        self.nf, self.od, self.calls = nf, od, []
        self.u, self.c = _err_u(nf), torch.arange(od, dtype=torch.float32)

    def forward(self, discrete_function_batch, device="cpu"):
        t = discrete_function_batch.as_tensor
        ids = _ids_clamped(t.reshape(t.shape[0], -1)[:, 0], self.nf)
        self.calls.append(tuple(ids.tolist()))
        c = self.c
        i = ids.to(torch.float32).reshape(-1, 1)
        u = self.u[ids].reshape(-1, 1)
        # [B, od, 3]: (100 i + 0.5 c, 1, u(i) (c+1))
        self.current_out = torch.stack([100.0 * i + 0.5 * c, torch.ones_like(i + c),
                                        u * (c + 1.0)], dim=-1)


class _SpyTrunk(TrunkNet):
    def __init__(self, input_space, unique, nt):
        super().__init__(input_space, trunk_input_copied=not unique)
        self.unique, self.nt, self.calls = unique, nt, []
        self.v = _err_v(nt)

    def forward(self, points):
        points = self._fix_points_order(points)
        t = points.as_tensor[..., 0]
        if self.unique:
            t = t - 1000.0 * torch.floor(t / 1000.0)
        ids = _ids_clamped(t, self.nt)
        self.calls.append(tuple(ids.reshape(-1).tolist()))
        j = ids.to(torch.float32)
        v = self.v[ids]
        tri = torch.stack([torch.ones_like(j), j, v], dim=-1)        # [..., 3]
        return tri.unsqueeze(-2).repeat(*([1] * j.dim()), self.output_space.dim, 1)


def _cycle(n, bs):
    return math.lcm(n, bs) // bs


def _run_deeponet(spec, ctx):
    layout = spec["layout"]
    unique = layout == "unique"
    nf, nt, bb, tb = spec["nf"], spec["nt"], spec["bb"], spec["tb"]
    pts, bd, td, od = spec["pts"], spec["bd"], spec["td"], spec["od"]
    feat = f"deeponet-{layout}"
    bb_eff = nf if bb < 0 else bb
    tb_eff = nt if tb < 0 else tb
    b_space, t_space, o_space = Space({"f": bd}), Space({"t": td}), Space({"u": od})

    ar = lambda k: torch.arange(k, dtype=torch.float32)   # noqa: E731
    branch0 = ar(nf).reshape(nf, 1, 1) + 0.0625 * ar(pts).reshape(1, pts, 1) \
        + 0.25 * ar(bd).reshape(1, 1, bd)
    if unique:
        trunk0 = 1000.0 * ar(nf).reshape(nf, 1, 1) + ar(nt).reshape(1, nt, 1) \
            + 0.25 * ar(td).reshape(1, 1, td)
    else:
        trunk0 = ar(nt).reshape(nt, 1) + 0.25 * ar(td).reshape(1, td)
    out0 = 100.0 * ar(nf).reshape(nf, 1, 1) + ar(nt).reshape(1, nt, 1) \
        + 0.5 * ar(od).reshape(1, 1, od)

    with ctx.lib("DeepONetDataLoader()", feature=feat):
        loader = DeepONetDataLoader(branch0.clone(), trunk0.clone(), out0.clone(),
                                    b_space, t_space, o_space, bb, tb,
                                    shuffle_branch=spec["shuffle_branch"],
                                    shuffle_trunk=spec["shuffle_trunk"])
    with ctx.lib("len(loader)", feature=feat):
        length = len(loader)
    with ctx.lib("iterate loader", feature=feat):
        batches = list(loader)

    seen = torch.zeros((nf, nt), dtype=torch.bool)
    min_rows = [nf, nt]
    recorded, structural = [], False
    bad = Counter()
    first = {}

    def note(kind, feature, detail):
        bad[(kind, feature)] += 1
        first.setdefault((kind, feature), detail)

    for bi, batch in enumerate(batches):
        members = _as_members(batch, 3)
        if members is None:
            note("batch-structure", feat, f"batch {bi} is {type(batch).__name__}, expected "
                 f"(branch, trunk, output) Points")
            structural = True
            continue
        B, T, O = (p.as_tensor for p in members)
        if [p.space for p in members] != [b_space, t_space, o_space]:
            note("batch-structure", feat + "-space",
                 f"batch {bi}: spaces {[str(p.space) for p in members]}")
        shapes_ok = B.dim() == 3 and O.dim() == 3 and tuple(B.shape[1:]) == (pts, bd) \
            and O.shape[0] == B.shape[0] and O.shape[2] == od
        if shapes_ok and unique:
            shapes_ok = T.dim() == 3 and tuple(T.shape) == (B.shape[0], O.shape[1], td)
        elif shapes_ok:
            shapes_ok = T.dim() == 2 and tuple(T.shape) == (O.shape[1], td)
        if not shapes_ok:
            note("batch-structure", feat, f"batch {bi}: shapes branch {tuple(B.shape)} trunk "
                 f"{tuple(T.shape)} output {tuple(O.shape)}")
            structural = True
            continue
        nb_rows, nt_rows = O.shape[0], O.shape[1]
        fi, ok_f = _decode(B[:, 0, 0], nf)
        if unique:
            code = T[:, :, 0].to(torch.float64)
            owner, ok_o = _decode(torch.floor(code / 1000.0), nf)
            tj, ok_t = _decode(code - 1000.0 * torch.floor(code / 1000.0), nt)
            ok_t = ok_t and ok_o
        else:
            tj, ok_t = _decode(T[:, 0], nt)
        if not (ok_f and ok_t):
            note("pairing", feat, f"batch {bi}: branch/trunk rows carry no valid ids")
            structural = True
            continue
        if not torch.equal(B, branch0[fi]):
            note("pairing", feat, f"batch {bi}: branch rows are not the original rows of "
                 f"functions {fi.tolist()[:8]}")
        if unique:
            if not torch.equal(owner, fi.reshape(-1, 1).expand_as(owner)):
                note("pairing", feat, f"batch {bi}: trunk rows of functions "
                     f"{owner[:, 0].tolist()[:8]} delivered with branch functions {fi.tolist()[:8]}")
            elif not torch.equal(T, trunk0[fi.reshape(-1, 1), tj]):
                note("pairing", feat, f"batch {bi}: trunk rows differ from the original rows")
            want = out0[fi.reshape(-1, 1), tj]
            pair_f, pair_t = fi.reshape(-1, 1).expand_as(tj), tj
        else:
            if not torch.equal(T, trunk0[tj]):
                note("pairing", feat, f"batch {bi}: trunk rows differ from the original rows "
                     f"of locations {tj.tolist()[:8]}")
            want = out0[fi][:, tj]
            pair_f = fi.reshape(-1, 1).expand(nb_rows, nt_rows)
            pair_t = tj.reshape(1, -1).expand(nb_rows, nt_rows)
        if not torch.equal(O, want):
            r = (O != want).nonzero()[0].tolist()
            note("pairing", feat, f"batch {bi}: output[{r[0]},{r[1]}]={O[r[0], r[1]].tolist()} "
                 f"but branch row is function {int(fi[r[0]])} and trunk row is location "
                 f"{int(pair_t[r[0], r[1]])} (expected {want[r[0], r[1]].tolist()})")
        if nb_rows > bb_eff:
            note("batch-size", feat + "-branch", f"batch {bi}: {nb_rows} functions, requested {bb}")
        if nt_rows > tb_eff:
            note("batch-size", feat + "-trunk", f"batch {bi}: {nt_rows} locations, requested {tb}")
        if nb_rows == 0 or nt_rows == 0:
            note("batch-size", feat + "-empty-batch", f"batch {bi}: {nb_rows}x{nt_rows}")
        seen[pair_f.reshape(-1), pair_t.reshape(-1)] = True
        recorded.append((fi, tj))
        min_rows[0], min_rows[1] = min(min_rows[0], nb_rows), min(min_rows[1], nt_rows)

    # which documented-domain feature of the configuration can explain missing pairs
    lb, lt = math.ceil(nf / bb_eff), math.ceil(nt / tb_eff)
    # "exceeds": a batch size above the axis length (asking for the whole axis) answered with a
    # batch that holds fewer rows than the axis has
    exceeds = (bb_eff > nf and min_rows[0] < nf) or (tb_eff > nt and min_rows[1] < nt)
    common = math.gcd(_cycle(nf, bb_eff), _cycle(nt, tb_eff)) > 1
    if not structural:
        nmiss = int((~seen).sum())
        if nmiss:
            if unique:
                cov = feat + ("-batch-exceeds-data" if exceeds else
                              "-unequal-batch-counts" if lb != lt else "")
            else:
                cov = feat + ("-trunk-pairs" if common else "")
            ex = (~seen).nonzero()[:6].tolist()
            note("coverage", cov, f"{nmiss} of {nf * nt} (function, location) pairs never "
                 f"presented in one pass of {len(batches)} batches, e.g. {ex} "
                 f"(functions {nf} batch {bb}, locations {nt} batch {tb})")
    if length != len(batches):
        note("len", feat, f"len(loader)={length} but {len(batches)} batches yielded")

    got = None
    cond = spec.get("cond")
    if cond and not structural:
        cfeat = f"deeponet-{layout}-condition"
        with ctx.lib("build DeepONet", feature=cfeat):
            sampler = GridSampler(Interval(Space({"s": 1}), 0.0, 1.0), n_points=pts)
            fspace = FunctionSpace(Interval(Space({"s": 1}), 0.0, 1.0), b_space)
            branch = _SpyBranch(fspace, sampler, nf, od)
            trunk = _SpyTrunk(t_space, unique, nt)
            net = DeepONet(trunk, branch, o_space, output_neurons=3 * od)
        with ctx.lib("DeepONetDataCondition()", feature=cfeat):
            c = DeepONetDataCondition(net, loader, norm=cond["norm"], root=cond["root"],
                                      use_full_dataset=True)
        with ctx.lib("DeepONetDataCondition.forward", feature=cfeat):
            out = c()
        want_calls = Counter((tuple(f.tolist()), tuple(t.reshape(-1).tolist()))
                             for f, t in recorded)
        got_calls = Counter(zip(branch.calls, trunk.calls))
        if len(branch.calls) != len(trunk.calls) or got_calls != want_calls:
            note("aggregate-batches", cfeat,
                 f"model saw {len(branch.calls)} branch / {len(trunk.calls)} trunk batches, "
                 f"one pass has {len(recorded)}")
        if recorded and all(len(f) and t.numel() for f, t in recorded) and \
                not any(k == "pairing" for k, _ in bad):
            u, v = _err_u(nf).to(torch.float64), _err_v(nt).to(torch.float64)
            cf = torch.arange(1, od + 1, dtype=torch.float64)
            per = []
            for f, t in recorded:
                e = u[f].reshape(-1, 1) * (v[t] if unique else v[t].reshape(1, -1))
                per.append((e.unsqueeze(-1) * cf).reshape(-1))
            got = _check_value(ctx, cfeat, out, per, cond)

    for (kind, feature), cnt in sorted(bad.items()):
        ctx.violation(kind, feature, f"{first[(kind, feature)]} [{cnt} occurrence(s)]")

    shuffled = (spec["shuffle_branch"] and nf >= 2) or (spec["shuffle_trunk"] and nt >= 2)
    nontrivial = bool(shuffled or nf % bb_eff != 0 or nt % tb_eff != 0
                      or (not unique and common) or (unique and lb != lt))
    classes = [feat, f"{feat}-branch-{_relation(nf, bb)}", f"{feat}-trunk-{_relation(nt, tb)}"]
    classes += [f"{feat}-shuffle"] if shuffled else []
    classes += [f"{feat}-common-cycle-factor"] if (not unique and common) else []
    classes += [f"{feat}-coprime-cycles"] if (not unique and not common) else []
    classes += [f"{feat}-unequal-batch-counts"] if (unique and lb != lt) else []
    classes += [f"{feat}-equal-batch-counts"] if (unique and lb == lt) else []
    classes += [f"{feat}-cond-{cond['norm']}"] if cond else []
    classes += [f"{feat}-full-coverage"] if bool(seen.all()) else [f"{feat}-pairs-missing"]
    return {"nontrivial": nontrivial, "classes": classes,
            "summary": {"batches": len(batches), "len": length,
                        "pairs_covered": int(seen.sum()), "pairs": nf * nt, "loss": got}}


def run_case(spec, ctx):
    if spec["kind"] == "points":
        return _run_points(spec, ctx)
    return _run_deeponet(spec, ctx)
