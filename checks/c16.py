"""C16 - data loaders deliver every datum with intact input/target pairing."""
import math
from collections import Counter

import torch
from hypothesis import strategies as st

from torchphysics.models.deeponet.branchnets import BranchNet
from torchphysics.models.deeponet.deeponet import DeepONet
from torchphysics.models.deeponet.trunknets import TrunkNet
from torchphysics.models.model import Model
from torchphysics.problem.conditions import DataCondition, DeepONetDataCondition
from torchphysics.problem.domains import Interval
from torchphysics.problem.samplers import GridSampler
from torchphysics.problem.spaces import FunctionSpace, Points, Space
from torchphysics.utils import DeepONetDataLoader, PointsDataLoader

PROPERTY = "C16"
RULE = ("Data are self-describing float32 tensors (member k of a PointsDataLoader tuple, row i: "
        "1000k+i+0.25*column[+0.0625*grid index]; DeepONet branch row i carries i, shared trunk "
        "row j carries j, per-function ('unique') trunk [i,j] carries 1000i+j, output[i,j] = "
        "100i+j+0.5*column), so every yielded row names the datum it claims to be. extra_cases "
        "enumerates exhaustively PointsDataLoader n<=12(24) x batch<=n+2 x shuffle x drop_last and, "
        "per DeepONet trunk layout, ALL (functions, branch batch, locations, trunk batch) with "
        "sizes<=6 (thorough 12), batch in 1..size+2 or -1 (=full), shuffle flags and the "
        "full-data-set condition rotating; Hypothesis adds larger cases (sizes to 30, thorough "
        "40; batch dividing / not dividing / equal / larger / multiple / negative; tuples of 1-3 "
        "Points incl. rank-3 grid data; 1-2 columns). Histories on SHARED caller data: kind "
        "'points-multi' builds a pool of 2-5 caller-side Points objects (own tensor / a second "
        "Points on the same tensor / shifted row windows x_t, x_{t+s} of one base tensor / column "
        "blocks of one base tensor), 1-3 PointsDataLoaders over (overlapping) tuples of pool "
        "entries in the drawn construction order, each with its own batch size, shuffle and "
        "drop_last, then passes over the loaders in a drawn interleaved order (every loader at "
        "least once) and the full-data-set conditions; a DeepONet case may carry a 'twin': a "
        "second DeepONetDataLoader (own batch sizes / shuffle flags, built before or after) "
        "handed the very same branch / trunk / output tensor objects. Every loader of a history "
        "is judged by all oracles against the snapshot of the data taken when the caller built "
        "it. extra_cases pins 11 sharing templates x 5 sizes and 30 twin configurations. "
        "Oracles per loader and pass: batch structure and "
        "spaces; every row bitwise equal to the original rows of the datum it names (pairing); "
        "batch rows <= requested (== requested when drop_last); union over one pass covers every "
        "sample / every (function, location) pair except a dropped tail of < batch rows; "
        "len(loader) == batches yielded; DataCondition / DeepONetDataCondition("
        "use_full_dataset=True) feeds the model exactly the batches of one pass and returns "
        "max (inf) or mean of per-batch means (norm 1, 2; root 1, 2) recomputed from the "
        "recorded batches (rel 1e-5). Non-trivial: some batch size does not divide its size, "
        "or a shuffle flag is on for an axis of >= 2 rows, or (shared trunk) the branch and "
        "trunk batch cycles have a common factor, or (unique trunk) the numbers of branch and "
        "trunk batches differ, or (histories) a shuffling loader over >= 2 rows holds storage that "
        "another loader / another member of its tuple also holds; "
        "distinct = spec hash without the rng seed.")
ASSUMPTIONS = [
    "batch sizes are non-zero integers; negative means 'whole axis' for DeepONetDataLoader only "
    "(PointsDataLoader documents no such convention: positive batch sizes only)",
    "num_workers=0, pin_memory=False (no multiprocessing, no GPU in the sandbox)",
    "'at least once': repeated presentation of a datum (wrap-around batches) is not a violation",
    "the condition's model is a recording spy built from the documented Model / BranchNet / "
    "TrunkNet base classes; errors are multiples of 0.25 so |model-target| is exact in float32",
    "the order of batches and the order of rows without shuffling are not checked (not stated)",
    "missing (function, location) pairs are attributed to a configuration feature (shared trunk: "
    "batch cycles lcm(n,bs)/bs with a common factor; unique trunk: a batch size above the axis "
    "length answered with fewer rows than the axis has, else ceil(n/bs) differing between the "
    "axes); with the known findings D22a-c listed, coverage is judged only on configurations "
    "without these features - pairing, batch size, len and the aggregate on all of them",
    "a pass without batches (drop_last and n < batch) has no defined mean; only crash-freedom "
    "of the condition is checked there",
    "'the data set' a loader is judged against is the data as the caller built it before any "
    "loader was constructed: handing the same Points / tensor object (or views of one tensor) to "
    "several loaders, or twice to one loader, is ordinary use (one input, several targets); the "
    "caller does not modify the data afterwards. Whether the caller's own objects stay unmodified "
    "is NOT judged, only what the loaders deliver",
    "a violation of a loader that holds shared data carries the feature suffix '-shared-data' "
    "(DeepONet twin: '-common-tensors') iff the same loader configuration built on private "
    "copies of the same data with the same random state (same permutations) does not show it; "
    "otherwise the plain feature is reported",
]
BUDGET = {"quick": {"examples": 200, "workers": 4},
          "thorough": {"examples": 2500, "workers": 14}}

NORMS = ["inf", 1, 2]
WINDOW_PAD = 2     # rows by which windows of one base tensor may be shifted


# ----------------------------------------------------------------------------------------
# generators
def _divisors(n):
    return [d for d in range(1, n + 1) if n % d == 0]


def _draw_bs(draw, n, allow_negative):
    """batch size for an axis of n rows with every divisibility relation well represented."""
    modes = ["div", "any", "any", "any", "exceed", "equal", "multiple"]
    if allow_negative:
        modes.append("neg")
    mode = draw(st.sampled_from(modes))
    if mode == "div":
        bs = draw(st.sampled_from(_divisors(n)))
    elif mode == "any":
        bs = draw(st.integers(1, n))
    elif mode == "exceed":
        bs = draw(st.integers(n + 1, n + 5))
    elif mode == "equal":
        bs = n
    elif mode == "multiple":
        bs = n * draw(st.integers(2, 3))
    else:
        bs = draw(st.sampled_from([-1, -1, -4]))
    return bs


@st.composite
def _axis(draw, nmax, allow_negative):
    """(size, batch size)"""
    n = draw(st.integers(1, nmax))
    return n, _draw_bs(draw, n, allow_negative)


def _cond_strategy():
    return st.one_of(st.none(),
                     st.fixed_dictionaries({"norm": st.sampled_from(NORMS),
                                            "root": st.sampled_from([1.0, 1.0, 2.0])}))


@st.composite
def _points_case(draw, nmax):
    n, bs = draw(_axis(nmax, False))
    m = draw(st.sampled_from([1, 2, 2, 2, 3]))
    spec = {"kind": "points", "n": n, "bs": bs,
            "shuffle": draw(st.booleans()), "drop_last": draw(st.booleans()),
            "dims": [draw(st.integers(1, 2)) for _ in range(m)],
            "grid": draw(st.sampled_from([0, 0, 0, 1, 3])),
            "bare": draw(st.booleans()) if m == 1 else False,
            "cond": draw(_cond_strategy()) if m == 2 else None,
            "rng": draw(st.integers(0, 2 ** 31 - 1))}
    return spec


@st.composite
def _twin(draw, nf, nt):
    """second DeepONetDataLoader built on the very same branch / trunk / output tensors"""
    share = draw(st.sampled_from([["branch", "trunk"], ["branch", "trunk"], ["branch", "trunk", "out"],
                                  ["branch"], ["trunk"], ["out"], ["trunk", "out"]]))
    return {"bb": _draw_bs(draw, nf, True), "tb": _draw_bs(draw, nt, True),
            "shuffle_branch": draw(st.booleans()), "shuffle_trunk": draw(st.booleans()),
            "share": share, "first": draw(st.booleans()), "cond": draw(_cond_strategy())}


@st.composite
def _deeponet_case(draw, nmax, layout):
    nf, bb = draw(_axis(nmax, True))
    nt, tb = draw(_axis(nmax, True))
    spec = {"kind": "deeponet", "layout": layout, "nf": nf, "bb": bb, "nt": nt, "tb": tb,
            "shuffle_branch": draw(st.booleans()), "shuffle_trunk": draw(st.booleans()),
            "pts": draw(st.integers(1, 3)), "bd": draw(st.integers(1, 2)),
            "td": draw(st.integers(1, 2)), "od": draw(st.integers(1, 2)),
            "cond": draw(_cond_strategy()),
            "rng": draw(st.integers(0, 2 ** 31 - 1))}
    if draw(st.sampled_from([False, False, True])):
        spec["twin"] = draw(_twin(nf, nt))
    return spec


@st.composite
def _pool_entry(draw):
    src = draw(st.sampled_from(["own", "own", "own", "own", "alias", "window", "window", "cols"]))
    e = {"src": src, "dim": draw(st.integers(1, 2))}
    if src == "alias":
        e["of"] = draw(st.integers(0, 3))
    elif src == "window":
        e["shift"] = draw(st.integers(0, WINDOW_PAD))
    elif src == "cols":
        e["col"] = draw(st.integers(0, 2))
    return e


@st.composite
def _multi_case(draw, nmax):
    """history: a pool of caller-side Points objects, several loaders built from (overlapping)
    tuples of them, passes over the loaders in an interleaved order"""
    n = draw(st.integers(2, nmax))
    pool = draw(st.lists(_pool_entry(), min_size=2, max_size=5))
    nl = draw(st.sampled_from([1, 2, 2, 2, 3]))
    common = draw(st.sampled_from([None, 0, 0, 1]))     # entry every loader holds (shared input)
    loaders = []
    for _ in range(nl):
        members = draw(st.lists(st.integers(0, 5), min_size=1, max_size=3))
        if common is not None:
            members[draw(st.integers(0, len(members) - 1))] = common
        loaders.append({"members": members, "bs": _draw_bs(draw, n, False),
                        "shuffle": draw(st.sampled_from([True, True, False])),
                        "drop_last": draw(st.sampled_from([False, False, True])),
                        "cond": draw(_cond_strategy()) if len(members) == 2 else None})
    return {"kind": "points-multi", "n": n, "grid": draw(st.sampled_from([0, 0, 0, 2])),
            "pool": pool, "loaders": loaders,
            "passes": draw(st.lists(st.integers(0, 5), max_size=4)),
            "rng": draw(st.integers(0, 2 ** 31 - 1))}


def strategy(tier):
    nmax = 40 if tier == "thorough" else 30
    return st.one_of(_points_case(nmax), _deeponet_case(nmax, "shared"),
                     _deeponet_case(nmax, "unique"), _multi_case(nmax))


def _rot_cond(k):
    c = k % 9
    if c < 6:
        return None
    return {"norm": NORMS[c - 6], "root": 2.0 if (k // 9) % 3 == 2 else 1.0}


def extra_cases(tier, seed):
    """Exhaustive small sub-space: every (size, batch) relation, every layout."""
    k = 0
    np_max = 24 if tier == "thorough" else 12
    for n in range(1, np_max + 1):
        for bs in range(1, n + 3):
            for shuffle in (False, True):
                for drop_last in (False, True):
                    k += 1
                    yield {"kind": "points", "n": n, "bs": bs, "shuffle": shuffle,
                           "drop_last": drop_last, "dims": [1, 1 + k % 2], "grid": 0,
                           "bare": False, "cond": _rot_cond(k),
                           "rng": (seed * 7919 + k) % (2 ** 31 - 1)}
    nd_max = 12 if tier == "thorough" else 6
    for layout in ("shared", "unique"):
        for nf in range(1, nd_max + 1):
            for bb in [-1] + list(range(1, nf + 3)):
                for nt in range(1, nd_max + 1):
                    for tb in [-1] + list(range(1, nt + 3)):
                        k += 1
                        yield {"kind": "deeponet", "layout": layout, "nf": nf, "bb": bb,
                               "nt": nt, "tb": tb,
                               "shuffle_branch": bool(k % 5 == 1 or k % 5 == 3),
                               "shuffle_trunk": bool(k % 5 == 2 or k % 5 == 3),
                               "pts": 1 + k % 2, "bd": 1, "td": 1 + (k // 2) % 2,
                               "od": 1 + (k // 3) % 2, "cond": _rot_cond(k),
                               "rng": (seed * 7919 + k) % (2 ** 31 - 1)}
    yield from _pinned_shared(tier, seed, k)


def _pinned_shared(tier, seed, k):
    """Pinned histories with caller data shared between loaders (reached at every seed)."""
    own = lambda d=1: {"src": "own", "dim": d}                      # noqa: E731
    win = lambda s, d=1: {"src": "window", "dim": d, "shift": s}    # noqa: E731

    def ld(members, shuffle, cond=None):
        return {"members": members, "shuffle": shuffle, "cond": cond}

    c2 = {"norm": 2, "root": 2.0}
    templates = [
        # one input x, two targets u, v: one loader per target (two DataConditions)
        ([own(), own(), own(2)], [ld([0, 1], True), ld([0, 2], True)], []),
        ([own(), own(), own(2)], [ld([0, 1], False, c2), ld([0, 2], True, c2)], [0, 1, 0]),
        ([own(), own(), own(2)], [ld([0, 1], True, c2), ld([0, 2], False, c2)], [1, 0]),
        # two inputs, one shared target; a third loader on everything
        ([own(2), own(), own()], [ld([0, 2], True), ld([1, 2], True), ld([0, 1, 2], True)], [2, 0]),
        # the same Points object in both places of a tuple, and in a second loader
        ([own(), own()], [ld([0, 0], True), ld([0, 1], True)], []),
        # a single Points in a loader of its own plus a paired loader
        ([own(), own()], [ld([0], True), ld([0, 1], False)], []),
        # x_t / x_{t+1} windows of one time series in ONE loader
        ([win(0), win(1)], [ld([0, 1], True, c2)], [0]),
        ([win(0, 2), win(2), own()], [ld([0, 1, 2], True)], []),
        # windows in different loaders
        ([win(0), win(1), own(), own()], [ld([0, 2], True), ld([1, 3], True)], []),
        # a second Points object on the same tensor
        ([own(), {"src": "alias", "dim": 1, "of": 0}, own(), own()],
         [ld([0, 2], True), ld([1, 3], False)], []),
        # column blocks of one data tensor
        ([{"src": "cols", "dim": 2, "col": 0}, {"src": "cols", "dim": 1, "col": 2}, own()],
         [ld([0, 1], True), ld([0, 2], True)], [1, 0, 1]),
    ]
    sizes = [(23, 5, False), (8, 8, False), (12, 4, True), (7, 3, True), (2, 1, False)]
    if tier == "thorough":
        sizes += [(40, 7, False), (16, 32, False), (9, 2, True)]
    for ti, (pool, loaders, passes) in enumerate(templates):
        for si, (n, bs, drop_last) in enumerate(sizes):
            k += 1
            yield {"kind": "points-multi", "n": n, "grid": 2 if (ti + si) % 4 == 3 else 0,
                   "pool": pool,
                   "loaders": [dict(l_, bs=bs if j % 2 == 0 else max(1, bs - 1),
                                    drop_last=bool(drop_last and j == 0))
                               for j, l_ in enumerate(loaders)],
                   "passes": passes, "rng": (seed * 7919 + k) % (2 ** 31 - 1)}
    # DeepONet: a second loader on the very same tensors
    shares = [["branch", "trunk"], ["branch", "trunk", "out"], ["branch"], ["trunk"], ["out"]]
    for layout in ("shared", "unique"):
        for hi, share in enumerate(shares):
            for fi, (sb, st_, tsb, tst) in enumerate([(True, True, True, True),
                                                      (False, False, True, True),
                                                      (True, False, False, True)]):
                k += 1
                yield {"kind": "deeponet", "layout": layout, "nf": 5, "bb": 2 + fi, "nt": 7,
                       "tb": 3, "shuffle_branch": sb, "shuffle_trunk": st_, "pts": 2, "bd": 1,
                       "td": 1 + hi % 2, "od": 1 + fi % 2, "cond": _rot_cond(k),
                       "twin": {"bb": 5 - fi, "tb": 7 if fi else 4, "shuffle_branch": tsb,
                                "shuffle_trunk": tst, "share": share, "first": bool((hi + fi) % 2),
                                "cond": _rot_cond(k + 6)},
                       "rng": (seed * 7919 + k) % (2 ** 31 - 1)}


def finish(ctx):
    n = 6 if ctx.tier == "quick" else 12
    p = 12 if ctx.tier == "quick" else 24
    return {"exhaustive_subspace": f"PointsDataLoader n<={p}, batch<=n+2, shuffle, drop_last; "
                                   f"DeepONetDataLoader both layouts, all sizes<={n} with batch "
                                   f"in -1,1..size+2 on both axes (worker 0); pinned: 11 "
                                   f"shared-data loader histories x {5 if ctx.tier == 'quick' else 8} "
                                   f"sizes, 30 DeepONet twin-loader configurations"}


# ----------------------------------------------------------------------------------------
# helpers
def _err_u(n):   # integer valued 0..4
    return ((torch.arange(n) * 3 + 1) % 5).to(torch.float32)


def _err_v(n):   # multiples of 0.25 in 0..1.5
    return 0.25 * ((torch.arange(n) * 5 + 2) % 7).to(torch.float32)


def _decode(t, n):
    """Carried ids -> (LongTensor, ok).  Non-integral or out-of-range values are not ok."""
    t = t.detach()
    r = torch.round(t)
    ok = bool(((r == t) & (r >= 0) & (r < n)).all())      # NaN / inf fail the comparisons
    if not ok:
        r = torch.nan_to_num(r, nan=0.0, posinf=0.0, neginf=0.0).clamp(0, n - 1)
    return r.to(torch.long), ok


def _ids_clamped(t, n):
    """Decoding used inside the spy models: never fails, validity is judged elsewhere."""
    return torch.nan_to_num(t.detach()).round().long().clamp(0, n - 1)


def _as_members(batch, m):
    if isinstance(batch, Points):
        batch = (batch,)
    if not isinstance(batch, (tuple, list)) or len(batch) != m:
        return None
    if not all(isinstance(p, Points) for p in batch):
        return None
    return list(batch)


def _aggregate(per_batch_err, norm, root):
    """per_batch_err: list of float64 tensors |model-target| of each batch (all entries)."""
    if norm == "inf":
        val = max(float(e.max()) for e in per_batch_err)
    else:
        val = sum(float((e ** norm).mean()) for e in per_batch_err) / len(per_batch_err)
    if root != 1.0:
        val = val ** (1.0 / root)
    return val


def _check_value(ctx, feat, got, per_batch_err, cond):
    if not isinstance(got, torch.Tensor) or got.numel() != 1:
        ctx.violation("aggregate-value", feat, f"condition returned {type(got).__name__} "
                      f"of shape {tuple(getattr(got, 'shape', ()))}")
        return None
    got = float(got.detach().reshape(-1)[0])
    want = _aggregate(per_batch_err, cond["norm"], cond["root"])
    tol = 1e-5 * max(1.0, abs(want))
    if not math.isfinite(got) or abs(got - want) > tol:
        ctx.violation("aggregate-value", f"{feat}-norm-{'inf' if cond['norm'] == 'inf' else 'p'}",
                      f"full-data-set loss {got!r}, recomputed from the {len(per_batch_err)} "
                      f"recorded batches {want!r} (norm={cond['norm']}, root={cond['root']})")
    return got


def _relation(n, bs):
    if bs < 0:
        return "neg-full"
    if bs == n:
        return "equal"
    if bs > n:
        return "exceeds-multiple" if bs % n == 0 else "exceeds"
    return "divides" if n % bs == 0 else "not-dividing"


# ----------------------------------------------------------------------------------------
# PointsDataLoader
class _SpyModel(Model):
    def __init__(self, in_space, out_space, targets, err, off=0.0):
        super().__init__(in_space, out_space)
        self.targets, self.err, self.off, self.calls = targets, err, off, []

    def forward(self, points):
        points = self._fix_points_order(points)
        t = points.as_tensor
        col = t.reshape(t.shape[0], -1)[:, 0] if t.shape[0] else t.reshape(0)
        ids = _ids_clamped(col - self.off, len(self.targets))
        self.calls.append(tuple(ids.tolist()))
        e = self.err[ids].reshape((-1,) + (1,) * (self.targets.dim() - 1))
        return Points(self.targets[ids] + e, self.output_space)


class _Notes:
    """violations of one loader collected as (kind, feature suffix) -> count / first detail"""

    def __init__(self):
        self.bad, self.first = Counter(), {}

    def __call__(self, kind, suffix, detail):
        self.bad[(kind, suffix)] += 1
        self.first.setdefault((kind, suffix), detail)

    def has(self, kind):
        return any(k == kind for k, _ in self.bad)


def _points_pass(batches, length, n, bs, shuffle, drop_last, origs, offs, spaces, note, tag=""):
    """All per-pass oracles of a PointsDataLoader.  origs[k] / offs[k] / spaces[k]: snapshot of the
    data of member k as the caller built it, the value its first column carries in row 0 (row
    i carries offs[k] + i) and its space.  Returns (recorded row ids per batch, structural)."""
    m = len(origs)
    seen = torch.zeros(n, dtype=torch.long)
    recorded, structural = [], False
    for bi, batch in enumerate(batches):
        members = _as_members(batch, m)
        if members is None:
            note("batch-structure", "", f"{tag}batch {bi} is {type(batch).__name__}, expected "
                 f"{m} Points")
            structural = True
            continue
        ts = [p.as_tensor for p in members]
        if any(p.space != s for p, s in zip(members, spaces)):
            note("batch-structure", "-space", f"{tag}batch {bi}: spaces "
                 f"{[str(p.space) for p in members]}")
        if any(tuple(t.shape[1:]) != tuple(o.shape[1:]) or t.dim() != o.dim()
               for t, o in zip(ts, origs)) or len({t.shape[0] for t in ts}) != 1:
            note("batch-structure", "", f"{tag}batch {bi}: shapes {[tuple(t.shape) for t in ts]}")
            structural = True
            continue
        rows = ts[0].shape[0]
        col = ts[0].reshape(rows, -1)[:, 0] if rows else ts[0].reshape(0)
        ids, ok = _decode(col - offs[0], n)
        if not ok:
            note("pairing", "", f"{tag}batch {bi}: first member carries no valid row ids")
            structural = True
            continue
        for k in range(m):
            if not torch.equal(ts[k], origs[k][ids]):
                note("pairing", "", f"{tag}batch {bi}: member {k} rows are not the rows "
                     f"{ids.tolist()[:8]} named by member 0: got "
                     f"{ts[k].reshape(rows, -1)[:4, 0].tolist()}")
                break
        if rows > bs:
            note("batch-size", "", f"{tag}batch {bi} has {rows} rows, requested {bs}")
        if drop_last and rows != bs:
            note("drop-last", "-partial-batch", f"{tag}batch {bi} has {rows} rows with "
                 f"drop_last=True and batch size {bs}")
        if rows == 0:
            note("batch-size", "-empty-batch", f"{tag}batch {bi} is empty")
        seen[ids] += 1
        recorded.append(ids)

    if not structural:
        missing = (seen == 0).nonzero().reshape(-1).tolist()
        allowed = n % bs if drop_last else 0
        if len(missing) > allowed:
            note("coverage", "", f"{tag}{len(missing)} of {n} samples never presented "
                 f"(allowed dropped tail {allowed}): {missing[:10]}")
        elif drop_last and not shuffle and missing and min(missing) < (n // bs) * bs:
            note("coverage", "", f"{tag}dropped samples {missing[:10]} are not the tail "
                 f"(n={n}, batch {bs})")
    if length != len(batches):
        note("len", "", f"{tag}len(loader)={length} but {len(batches)} batches yielded")
    return recorded, structural, seen


def _points_condition(ctx, loader, cond, spaces, origs, offs, n, recorded, notes):
    """DataCondition(use_full_dataset=True) on a two-member loader; returns the loss or None."""
    err = _err_v(n)
    model = _SpyModel(spaces[0], spaces[1], origs[1], err, off=offs[0])
    with ctx.lib("DataCondition()", feature="points-condition"):
        c = DataCondition(module=model, dataloader=loader, norm=cond["norm"],
                          root=cond["root"], use_full_dataset=True)
    with ctx.lib("DataCondition.forward", feature="points-condition"):
        out = c()
    want_calls = Counter(tuple(i.tolist()) for i in recorded)
    if Counter(model.calls) != want_calls:
        ctx.violation("aggregate-batches", "points-condition",
                      f"model saw {len(model.calls)} batches, one pass has {len(recorded)}; "
                      f"first seen {model.calls[:3]}")
    # a loss computed on mis-paired rows is the pairing defect again, not a second finding
    if recorded and all(len(i) for i in recorded) and not notes.has("pairing"):
        rep = int(origs[1][0].numel())
        per = [err[i].to(torch.float64).repeat_interleave(rep) for i in recorded]
        return _check_value(ctx, "points-condition", out, per, cond)
    return None


def _run_points(spec, ctx):
    n, bs, dims, g = spec["n"], spec["bs"], spec["dims"], spec.get("grid", 0)
    m = len(dims)
    feat = "points-loader"
    spaces = [Space({f"v{k}": d}) for k, d in enumerate(dims)]
    origs = []
    for k, d in enumerate(dims):
        t = 1000.0 * k + torch.arange(n, dtype=torch.float32).reshape(n, 1) \
            + 0.25 * torch.arange(d, dtype=torch.float32).reshape(1, d)
        if g:
            t = t.unsqueeze(1) + 0.0625 * torch.arange(g, dtype=torch.float32).reshape(1, g, 1)
        origs.append(t)
    offs = [1000.0 * k for k in range(m)]
    data = [Points(t.clone(), s) for t, s in zip(origs, spaces)]
    arg = data[0] if (m == 1 and spec.get("bare")) else tuple(data)
    with ctx.lib("PointsDataLoader()", feature=feat):
        loader = PointsDataLoader(arg, batch_size=bs, shuffle=spec["shuffle"],
                                  drop_last=spec["drop_last"])
    with ctx.lib("len(loader)", feature=feat):
        length = len(loader)
    with ctx.lib("iterate loader", feature=feat):
        batches = list(loader)

    notes = _Notes()
    got = None
    cond = spec.get("cond")
    try:
        recorded, structural, seen = _points_pass(batches, length, n, bs, spec["shuffle"],
                                                  spec["drop_last"], origs, offs, spaces, notes)
        if cond and m == 2 and not structural:
            got = _points_condition(ctx, loader, cond, spaces, origs, offs, n, recorded, notes)
    finally:
        for (kind, suffix), cnt in sorted(notes.bad.items()):
            ctx.violation(kind, feat + suffix, f"{notes.first[(kind, suffix)]} [{cnt} occurrence(s)]")

    rel = _relation(n, bs)
    classes = ["points", f"points-bs-{rel}", f"points-tuple{m}"]
    classes += ["points-shuffle"] if spec["shuffle"] else []
    classes += ["points-drop-last"] if spec["drop_last"] else []
    classes += ["points-grid"] if g else []
    classes += [f"points-cond-{cond['norm']}"] if cond and m == 2 else []
    classes += ["points-empty-pass"] if not batches else []
    return {"nontrivial": bool((spec["shuffle"] and n >= 2) or n % bs != 0),
            "classes": classes,
            "summary": {"batches": len(batches), "len": length,
                        "covered": int((seen > 0).sum()), "of": n, "loss": got}}


# ----------------------------------------------------------------------------------------
# several PointsDataLoaders on shared caller data
def _build_pool(spec):
    """caller-side data: list of dicts {t (tensor handed to Points), orig (snapshot), off, dim,
    group (label of the underlying storage)}.  Entry kinds:
      own    - private tensor, row i column c carries 1000(e+1)+i+0.25c
      alias  - a second Points object wrapping the very same tensor as an earlier entry
      window - rows [s, s+n) of ONE base tensor with n+WINDOW_PAD rows (x_t / x_{t+s} pairs of a
               time series), first `dim` of its 2 columns; rows of different windows overlap
      cols   - `dim` adjacent columns of ONE base tensor with 3 columns (data[:, :2], data[:, 2:])
    """
    n, g = spec["n"], spec.get("grid", 0)

    def make(rows, d, base):
        t = base + torch.arange(rows, dtype=torch.float32).reshape(rows, 1) \
            + 0.25 * torch.arange(d, dtype=torch.float32).reshape(1, d)
        if g:
            t = t.unsqueeze(1) + 0.0625 * torch.arange(g, dtype=torch.float32).reshape(1, g, 1)
        return t

    wbase, cbase = make(n + WINDOW_PAD, 2, 7000.0), make(n, 3, 9000.0)
    pool = []
    for e, ent in enumerate(spec["pool"]):
        src, d = ent["src"], ent["dim"]
        if src == "alias" and e == 0:
            src = "own"
        if src == "own":
            item = {"t": make(n, d, 1000.0 * (e + 1)), "off": 1000.0 * (e + 1), "dim": d,
                    "group": f"own{e}"}
        elif src == "alias":
            tgt = pool[ent["of"] % e]
            item = {"t": tgt["t"], "off": tgt["off"], "dim": tgt["dim"], "group": tgt["group"]}
        elif src == "window":
            sft = ent["shift"] % (WINDOW_PAD + 1)
            item = {"t": wbase[sft:sft + n, ..., :d], "off": 7000.0 + sft, "dim": d, "group": "win"}
        else:
            a = ent["col"] % (3 - d + 1)
            item = {"t": cbase[..., a:a + d], "off": 9000.0 + 0.25 * a, "dim": d, "group": "cols"}
        item["src"] = src
        item["space"] = Space({f"v{e}": item["dim"]})
        pool.append(item)
    for item in pool:
        item["orig"] = item["t"].clone()
    for item in pool:                       # one Points object per pool entry, built once
        item["points"] = Points(item["t"], item["space"])
    return pool


def _run_multi(spec, ctx):
    n = spec["n"]
    pool = _build_pool(spec)
    cfgs = []
    for lc in spec["loaders"]:
        cfgs.append(dict(lc, members=[k % len(pool) for k in lc["members"]]))
    # who shares storage with whom
    use = Counter(pool[k]["group"] for c in cfgs for k in c["members"])
    for c in cfgs:
        c["shared"] = any(use[pool[k]["group"]] > 1 for k in c["members"])
    base = "points-loader"

    loaders = []
    for li, c in enumerate(cfgs):
        pts = [pool[k]["points"] for k in c["members"]]
        arg = pts[0] if (len(pts) == 1 and li % 2) else tuple(pts)
        c["rng_state"] = torch.get_rng_state()     # lets the diagnosis replay the same shuffle
        with ctx.lib("PointsDataLoader()", feature=base):
            loaders.append(PointsDataLoader(arg, batch_size=c["bs"], shuffle=c["shuffle"],
                                            drop_last=c["drop_last"]))
    order = [p % len(cfgs) for p in spec.get("passes", [])]
    order += [li for li in range(len(cfgs)) if li not in order]

    notes = [_Notes() for _ in cfgs]
    first_pass = [None] * len(cfgs)
    structural = [False] * len(cfgs)
    losses = []

    def views(c):
        ms = [pool[k] for k in c["members"]]
        return [x["orig"] for x in ms], [x["off"] for x in ms], [x["space"] for x in ms]

    try:
        for pi, li in enumerate(order):
            c = cfgs[li]
            with ctx.lib("len(loader)", feature=base):
                length = len(loaders[li])
            with ctx.lib("iterate loader", feature=base):
                batches = list(loaders[li])
            origs, offs, spaces = views(c)
            rec, st_, _ = _points_pass(batches, length, n, c["bs"], c["shuffle"], c["drop_last"],
                                       origs, offs, spaces, notes[li],
                                       tag=f"loader {li} of {len(cfgs)}, pass {pi}: ")
            structural[li] = structural[li] or st_
            if first_pass[li] is None:
                first_pass[li] = rec
        for li, c in enumerate(cfgs):
            cond = c.get("cond")
            ks = c["members"]
            if cond and len(ks) == 2 and ks[0] != ks[1] and not structural[li]:
                origs, offs, spaces = views(c)
                losses.append(_points_condition(ctx, loaders[li], cond, spaces, origs, offs, n,
                                                first_pass[li], notes[li]))
    finally:
        # A problem of a loader that holds shared data is attributed to the sharing iff the same
        # loader configuration on private copies of the same data does not show it.
        for li, c in enumerate(cfgs):
            if not notes[li].bad:
                continue
            solo = _solo_points(c, pool, n) if c["shared"] else None
            for (kind, suffix), cnt in sorted(notes[li].bad.items()):
                feat = base + ("-shared-data" if solo is not None and (kind, suffix) not in solo
                               else "") + suffix
                ctx.violation(kind, feat, f"{notes[li].first[(kind, suffix)]} [{cnt} occurrence(s)]")

    grp = [[pool[k]["group"] for k in c["members"]] for c in cfgs]
    shuffled_shared = any(c["shuffle"] and n >= 2 and any(use[g_] > 1 for g_ in gs)
                          for c, gs in zip(cfgs, grp))
    ent_use = Counter(k for c in cfgs for k in set(c["members"]))
    classes = ["multi", f"multi-loaders-{len(cfgs)}"]
    classes += ["multi-shared-object"] if any(v > 1 for v in ent_use.values()) else []
    classes += ["multi-same-object-twice-in-tuple"] if any(
        len(set(c["members"])) < len(c["members"]) for c in cfgs) else []
    by_group = {}
    for k in sorted(ent_use):
        by_group.setdefault(pool[k]["group"], set()).add(k)
    classes += ["multi-shared-storage-other-object"] if any(
        len(v) > 1 for v in by_group.values()) else []
    classes += ["multi-windows-in-one-tuple"] if any(gs.count("win") > 1 for gs in grp) else []
    classes += ["multi-different-partners"] if any(
        set(a["members"]) & set(b["members"]) and set(a["members"]) != set(b["members"])
        for i, a in enumerate(cfgs) for b in cfgs[i + 1:]) else []
    classes += ["multi-shuffle-on-shared"] if shuffled_shared else ["multi-no-shuffle-on-shared"]
    classes += ["multi-grid"] if spec.get("grid", 0) else []
    classes += ["multi-cond"] if losses else []
    classes += ["multi-repeated-pass"] if len(order) > len(cfgs) else []
    return {"nontrivial": bool(shuffled_shared), "classes": classes,
            "summary": {"loaders": len(cfgs), "passes": len(order),
                        "loss": [x for x in losses if x is not None][:1] or None}}


def _solo_points(c, pool, n):
    """The set of (kind, suffix) problems the loader configuration c shows on PRIVATE copies of
    its data (one fresh tensor per tuple position).  A crash counts as 'shows everything'."""
    ms = [pool[k] for k in c["members"]]
    notes = _Notes()
    saved = torch.get_rng_state()
    try:
        torch.set_rng_state(c["rng_state"])
        pts = tuple(Points(x["orig"].clone(), x["space"]) for x in ms)
        loader = PointsDataLoader(pts, batch_size=c["bs"], shuffle=c["shuffle"],
                                  drop_last=c["drop_last"])
        _points_pass(list(loader), len(loader), n, c["bs"], c["shuffle"], c["drop_last"],
                     [x["orig"] for x in ms], [x["off"] for x in ms], [x["space"] for x in ms],
                     notes)
    except Exception:   # noqa: BLE001 - diagnosis only; the real run reports crashes itself
        return None
    finally:
        torch.set_rng_state(saved)
    return set(notes.bad)


# ----------------------------------------------------------------------------------------
# DeepONetDataLoader
class _SpyBranch(BranchNet):
    def __init__(self, function_space, sampler, nf, od):
        super().__init__(function_space, sampler)
        self.nf, self.od, self.calls = nf, od, []
        self.u, self.c = _err_u(nf), torch.arange(od, dtype=torch.float32)

    def forward(self, discrete_function_batch, device="cpu"):
        t = discrete_function_batch.as_tensor
        ids = _ids_clamped(t.reshape(t.shape[0], -1)[:, 0], self.nf)
        self.calls.append(tuple(ids.tolist()))
        c = self.c
        i = ids.to(torch.float32).reshape(-1, 1)
        u = self.u[ids].reshape(-1, 1)
        # [B, od, 3]: (100 i + 0.5 c, 1, u(i) (c+1))
        self.current_out = torch.stack([100.0 * i + 0.5 * c, torch.ones_like(i + c),
                                        u * (c + 1.0)], dim=-1)


class _SpyTrunk(TrunkNet):
    def __init__(self, input_space, unique, nt):
        super().__init__(input_space, trunk_input_copied=not unique)
        self.unique, self.nt, self.calls = unique, nt, []
        self.v = _err_v(nt)

    def forward(self, points):
        points = self._fix_points_order(points)
        t = points.as_tensor[..., 0]
        if self.unique:
            t = t - 1000.0 * torch.floor(t / 1000.0)
        ids = _ids_clamped(t, self.nt)
        self.calls.append(tuple(ids.reshape(-1).tolist()))
        j = ids.to(torch.float32)
        v = self.v[ids]
        tri = torch.stack([torch.ones_like(j), j, v], dim=-1)        # [..., 3]
        return tri.unsqueeze(-2).repeat(*([1] * j.dim()), self.output_space.dim, 1)


def _cycle(n, bs):
    return math.lcm(n, bs) // bs


def _deeponet_data(spec):
    layout = spec["layout"]
    unique = layout == "unique"
    nf, nt = spec["nf"], spec["nt"]
    pts, bd, td, od = spec["pts"], spec["bd"], spec["td"], spec["od"]
    ar = lambda k: torch.arange(k, dtype=torch.float32)   # noqa: E731
    branch0 = ar(nf).reshape(nf, 1, 1) + 0.0625 * ar(pts).reshape(1, pts, 1) \
        + 0.25 * ar(bd).reshape(1, 1, bd)
    if unique:
        trunk0 = 1000.0 * ar(nf).reshape(nf, 1, 1) + ar(nt).reshape(1, nt, 1) \
            + 0.25 * ar(td).reshape(1, 1, td)
    else:
        trunk0 = ar(nt).reshape(nt, 1) + 0.25 * ar(td).reshape(1, td)
    out0 = 100.0 * ar(nf).reshape(nf, 1, 1) + ar(nt).reshape(1, nt, 1) \
        + 0.5 * ar(od).reshape(1, 1, od)
    return {"layout": layout, "unique": unique, "nf": nf, "nt": nt, "pts": pts, "bd": bd,
            "td": td, "od": od, "feat": f"deeponet-{layout}", "branch": branch0, "trunk": trunk0,
            "out": out0, "b_space": Space({"f": bd}), "t_space": Space({"t": td}),
            "o_space": Space({"u": od})}


def _deeponet_make(D, cfg, tensors):
    return DeepONetDataLoader(tensors["branch"], tensors["trunk"], tensors["out"],
                              D["b_space"], D["t_space"], D["o_space"], cfg["bb"], cfg["tb"],
                              shuffle_branch=cfg["shuffle_branch"],
                              shuffle_trunk=cfg["shuffle_trunk"])


def _deeponet_pass(D, cfg, batches, length, note, tag=""):
    """All per-pass oracles of one DeepONetDataLoader (no library calls).  note(kind, suffix,
    detail).  Returns dict(recorded, structural, seen, lb, lt, common)."""
    unique, nf, nt = D["unique"], D["nf"], D["nt"]
    pts, bd, td, od = D["pts"], D["bd"], D["td"], D["od"]
    branch0, trunk0, out0 = D["branch"], D["trunk"], D["out"]
    bb, tb = cfg["bb"], cfg["tb"]
    bb_eff = nf if bb < 0 else bb
    tb_eff = nt if tb < 0 else tb
    seen = torch.zeros((nf, nt), dtype=torch.bool)
    min_rows = [nf, nt]
    recorded, structural = [], False

    for bi, batch in enumerate(batches):
        members = _as_members(batch, 3)
        if members is None:
            note("batch-structure", "", f"{tag}batch {bi} is {type(batch).__name__}, expected "
                 f"(branch, trunk, output) Points")
            structural = True
            continue
        B, T, O = (p.as_tensor for p in members)
        if [p.space for p in members] != [D["b_space"], D["t_space"], D["o_space"]]:
            note("batch-structure", "-space",
                 f"{tag}batch {bi}: spaces {[str(p.space) for p in members]}")
        shapes_ok = B.dim() == 3 and O.dim() == 3 and tuple(B.shape[1:]) == (pts, bd) \
            and O.shape[0] == B.shape[0] and O.shape[2] == od
        if shapes_ok and unique:
            shapes_ok = T.dim() == 3 and tuple(T.shape) == (B.shape[0], O.shape[1], td)
        elif shapes_ok:
            shapes_ok = T.dim() == 2 and tuple(T.shape) == (O.shape[1], td)
        if not shapes_ok:
            note("batch-structure", "", f"{tag}batch {bi}: shapes branch {tuple(B.shape)} trunk "
                 f"{tuple(T.shape)} output {tuple(O.shape)}")
            structural = True
            continue
        nb_rows, nt_rows = O.shape[0], O.shape[1]
        fi, ok_f = _decode(B[:, 0, 0], nf)
        if unique:
            code = T[:, :, 0].to(torch.float64)
            owner, ok_o = _decode(torch.floor(code / 1000.0), nf)
            tj, ok_t = _decode(code - 1000.0 * torch.floor(code / 1000.0), nt)
            ok_t = ok_t and ok_o
        else:
            tj, ok_t = _decode(T[:, 0], nt)
        if not (ok_f and ok_t):
            note("pairing", "", f"{tag}batch {bi}: branch/trunk rows carry no valid ids")
            structural = True
            continue
        if not torch.equal(B, branch0[fi]):
            note("pairing", "", f"{tag}batch {bi}: branch rows are not the original rows of "
                 f"functions {fi.tolist()[:8]}")
        if unique:
            if not torch.equal(owner, fi.reshape(-1, 1).expand_as(owner)):
                note("pairing", "", f"{tag}batch {bi}: trunk rows of functions "
                     f"{owner[:, 0].tolist()[:8]} delivered with branch functions {fi.tolist()[:8]}")
            elif not torch.equal(T, trunk0[fi.reshape(-1, 1), tj]):
                note("pairing", "", f"{tag}batch {bi}: trunk rows differ from the original rows")
            want = out0[fi.reshape(-1, 1), tj]
            pair_f, pair_t = fi.reshape(-1, 1).expand_as(tj), tj
        else:
            if not torch.equal(T, trunk0[tj]):
                note("pairing", "", f"{tag}batch {bi}: trunk rows differ from the original rows "
                     f"of locations {tj.tolist()[:8]}")
            want = out0[fi][:, tj]
            pair_f = fi.reshape(-1, 1).expand(nb_rows, nt_rows)
            pair_t = tj.reshape(1, -1).expand(nb_rows, nt_rows)
        if not torch.equal(O, want):
            r = (O != want).nonzero()[0].tolist()
            note("pairing", "", f"{tag}batch {bi}: output[{r[0]},{r[1]}]={O[r[0], r[1]].tolist()} "
                 f"but branch row is function {int(fi[r[0]])} and trunk row is location "
                 f"{int(pair_t[r[0], r[1]])} (expected {want[r[0], r[1]].tolist()})")
        if nb_rows > bb_eff:
            note("batch-size", "-branch", f"{tag}batch {bi}: {nb_rows} functions, requested {bb}")
        if nt_rows > tb_eff:
            note("batch-size", "-trunk", f"{tag}batch {bi}: {nt_rows} locations, requested {tb}")
        if nb_rows == 0 or nt_rows == 0:
            note("batch-size", "-empty-batch", f"{tag}batch {bi}: {nb_rows}x{nt_rows}")
        seen[pair_f.reshape(-1), pair_t.reshape(-1)] = True
        recorded.append((fi, tj))
        min_rows[0], min_rows[1] = min(min_rows[0], nb_rows), min(min_rows[1], nt_rows)

    # which documented-domain feature of the configuration can explain missing pairs
    lb, lt = math.ceil(nf / bb_eff), math.ceil(nt / tb_eff)
    # "exceeds": a batch size above the axis length (asking for the whole axis) answered with a
    # batch that holds fewer rows than the axis has
    exceeds = (bb_eff > nf and min_rows[0] < nf) or (tb_eff > nt and min_rows[1] < nt)
    common = math.gcd(_cycle(nf, bb_eff), _cycle(nt, tb_eff)) > 1
    if not structural:
        nmiss = int((~seen).sum())
        if nmiss:
            if unique:
                cov = "-batch-exceeds-data" if exceeds else "-unequal-batch-counts" if lb != lt else ""
            else:
                cov = "-trunk-pairs" if common else ""
            ex = (~seen).nonzero()[:6].tolist()
            note("coverage", cov, f"{tag}{nmiss} of {nf * nt} (function, location) pairs never "
                 f"presented in one pass of {len(batches)} batches, e.g. {ex} "
                 f"(functions {nf} batch {bb}, locations {nt} batch {tb})")
    if length != len(batches):
        note("len", "", f"{tag}len(loader)={length} but {len(batches)} batches yielded")
    return {"recorded": recorded, "structural": structural, "seen": seen, "lb": lb, "lt": lt,
            "common": common, "bb_eff": bb_eff, "tb_eff": tb_eff}


def _deeponet_condition(ctx, D, cfg, loader, recorded, notes):
    unique, nf, nt, od = D["unique"], D["nf"], D["nt"], D["od"]
    cond = cfg["cond"]
    cfeat = f"deeponet-{D['layout']}-condition"
    with ctx.lib("build DeepONet", feature=cfeat):
        sampler = GridSampler(Interval(Space({"s": 1}), 0.0, 1.0), n_points=D["pts"])
        fspace = FunctionSpace(Interval(Space({"s": 1}), 0.0, 1.0), D["b_space"])
        branch = _SpyBranch(fspace, sampler, nf, od)
        trunk = _SpyTrunk(D["t_space"], unique, nt)
        net = DeepONet(trunk, branch, D["o_space"], output_neurons=3 * od)
    with ctx.lib("DeepONetDataCondition()", feature=cfeat):
        c = DeepONetDataCondition(net, loader, norm=cond["norm"], root=cond["root"],
                                  use_full_dataset=True)
    with ctx.lib("DeepONetDataCondition.forward", feature=cfeat):
        out = c()
    want_calls = Counter((tuple(f.tolist()), tuple(t.reshape(-1).tolist()))
                         for f, t in recorded)
    got_calls = Counter(zip(branch.calls, trunk.calls))
    if len(branch.calls) != len(trunk.calls) or got_calls != want_calls:
        ctx.violation("aggregate-batches", cfeat,
                      f"model saw {len(branch.calls)} branch / {len(trunk.calls)} trunk batches, "
                      f"one pass has {len(recorded)}")
    if recorded and all(len(f) and t.numel() for f, t in recorded) and not notes.has("pairing"):
        u, v = _err_u(nf).to(torch.float64), _err_v(nt).to(torch.float64)
        cf = torch.arange(1, od + 1, dtype=torch.float64)
        per = []
        for f, t in recorded:
            e = u[f].reshape(-1, 1) * (v[t] if unique else v[t].reshape(1, -1))
            per.append((e.unsqueeze(-1) * cf).reshape(-1))
        return _check_value(ctx, cfeat, out, per, cond)
    return None


def _solo_deeponet(D, cfg):
    """(kind, suffix) problems of the configuration on PRIVATE copies of the data."""
    notes = _Notes()
    saved = torch.get_rng_state()
    try:
        torch.set_rng_state(cfg["rng_state"])
        loader = _deeponet_make(D, cfg, {k: D[k].clone() for k in ("branch", "trunk", "out")})
        _deeponet_pass(D, cfg, list(loader), len(loader), notes)
    except Exception:   # noqa: BLE001 - diagnosis only; the real run reports crashes itself
        return None
    finally:
        torch.set_rng_state(saved)
    return set(notes.bad)


def _run_deeponet(spec, ctx):
    D = _deeponet_data(spec)
    feat, unique, nf, nt = D["feat"], D["unique"], D["nf"], D["nt"]
    twin = spec.get("twin")
    cfgs = [{k: spec[k] for k in ("bb", "tb", "shuffle_branch", "shuffle_trunk", "cond")}]
    tensors = [{k: D[k].clone() for k in ("branch", "trunk", "out")}]
    if twin:
        # a second loader handed the very same tensor objects (e.g. same inputs, other batching)
        cfgs.append({k: twin[k] for k in ("bb", "tb", "shuffle_branch", "shuffle_trunk", "cond")})
        tensors.append({k: tensors[0][k] if k in twin["share"] else D[k].clone()
                        for k in ("branch", "trunk", "out")})
    build = [1, 0] if (twin and twin["first"]) else list(range(len(cfgs)))
    loaders = [None] * len(cfgs)
    for i in build:
        cfgs[i]["rng_state"] = torch.get_rng_state()   # lets the diagnosis replay the same shuffle
        with ctx.lib("DeepONetDataLoader()", feature=feat):
            loaders[i] = _deeponet_make(D, cfgs[i], tensors[i])

    notes = [_Notes() for _ in cfgs]
    res, lens, nbatches, losses = [], [], [], {}
    try:
        for i, cfg in enumerate(cfgs):
            with ctx.lib("len(loader)", feature=feat):
                length = len(loaders[i])
            with ctx.lib("iterate loader", feature=feat):
                batches = list(loaders[i])
            res.append(_deeponet_pass(D, cfg, batches, length, notes[i],
                                      tag=f"loader {i} of 2: " if twin else ""))
            lens.append(length)
            nbatches.append(len(batches))
        for i, cfg in enumerate(cfgs):
            if cfg["cond"] and not res[i]["structural"]:
                losses[i] = _deeponet_condition(ctx, D, cfg, loaders[i], res[i]["recorded"],
                                                notes[i])
    finally:
        # with a twin loader on common tensors a problem is attributed to the sharing iff the
        # same configuration on private copies does not show it
        for i, cfg in enumerate(cfgs):
            if not notes[i].bad:
                continue
            solo = _solo_deeponet(D, cfg) if twin else None
            for (kind, suffix), cnt in sorted(notes[i].bad.items()):
                f_ = feat + ("-common-tensors" if solo is not None and (kind, suffix) not in solo
                             else "") + suffix
                ctx.violation(kind, f_, f"{notes[i].first[(kind, suffix)]} [{cnt} occurrence(s)]")

    r0, cfg0 = res[0], cfgs[0]
    bb, tb, cond = cfg0["bb"], cfg0["tb"], cfg0["cond"]
    lb, lt, common, seen = r0["lb"], r0["lt"], r0["common"], r0["seen"]

    def shuf(c, axes=("branch", "trunk")):
        return ("branch" in axes and c["shuffle_branch"] and nf >= 2) or \
               ("trunk" in axes and c["shuffle_trunk"] and nt >= 2)

    shuffled = shuf(cfg0)
    # a shuffle acting on a tensor both loaders hold (the output tensor is permuted by both flags)
    twin_shuffled = bool(twin) and any(
        shuf(c, [a for a in ("branch", "trunk") if a in twin["share"] or "out" in twin["share"]])
        for c in cfgs)
    nontrivial = bool(shuffled or nf % r0["bb_eff"] != 0 or nt % r0["tb_eff"] != 0
                      or (not unique and common) or (unique and lb != lt) or twin_shuffled)
    classes = [feat, f"{feat}-branch-{_relation(nf, bb)}", f"{feat}-trunk-{_relation(nt, tb)}"]
    classes += [f"{feat}-shuffle"] if shuffled else []
    classes += [f"{feat}-common-cycle-factor"] if (not unique and common) else []
    classes += [f"{feat}-coprime-cycles"] if (not unique and not common) else []
    classes += [f"{feat}-unequal-batch-counts"] if (unique and lb != lt) else []
    classes += [f"{feat}-equal-batch-counts"] if (unique and lb == lt) else []
    classes += [f"{feat}-cond-{cond['norm']}"] if cond else []
    classes += [f"{feat}-full-coverage"] if bool(seen.all()) else [f"{feat}-pairs-missing"]
    if twin:
        classes += [f"{feat}-twin", f"{feat}-twin-share-{'+'.join(sorted(twin['share']))}",
                    f"{feat}-twin-built-{'first' if twin['first'] else 'second'}"]
        classes += [f"{feat}-twin-shuffle-on-common"] if twin_shuffled else []
    return {"nontrivial": nontrivial, "classes": classes,
            "summary": {"batches": nbatches[0], "len": lens[0],
                        "pairs_covered": int(seen.sum()), "pairs": nf * nt,
                        "loss": losses.get(0)}}


def run_case(spec, ctx):
    if spec["kind"] == "points":
        return _run_points(spec, ctx)
    if spec["kind"] == "points-multi":
        return _run_multi(spec, ctx)
    return _run_deeponet(spec, ctx)
