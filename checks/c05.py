"""C05 - membership tests agree with the set the domain expression denotes."""
import numpy as np
import torch

from torchphysics.problem.spaces import Points

from vf import build, geo, refgeo as rg, specs

PROPERTY = "C05"
RULE = ("Hypothesis draws a domain expression (leaves incl. slanted/clockwise/parameter-dependent "
        "shapes, polygons, convex meshes; nested + - &, Translate, Rotate; independent and dependent "
        "products; boundaries of all of these), 0-5 parameter rows and an rng seed. Query rows: "
        "uniform in the inflated reference box, rows bisected onto the reference boundary and "
        "displaced by +-{0.5,2,10,100}*tol, and the library's own boundary samples. Oracle: float64 "
        "reference membership wherever the row is farther than tol from every leaf boundary "
        "(interior), own boundary samples accepted / reference-certain boundary rows accepted / "
        "rows farther than tol_far rejected (boundaries), one truth value per row, joint row "
        "permutation permutes the answer. Non-trivial: not a plain axis-aligned parameter-free leaf, "
        "both answers occur among decided rows and >=1 decided row lies within 100*tol of the "
        "boundary; distinct = spec hash without rng.")
ASSUMPTIONS = ["reference geometry vf/refgeo.py (self-tested against closed forms)",
               "tolerances: tol_in=2e-5*scale, tol_b=1e-4*scale, tol_far=1e-2*scale",
               "rows within tolerance of a leaf boundary, and boundary rows near corners, are undecided and only counted"]
BUDGET = {"quick": {"examples": 110, "workers": 4}, "thorough": {"examples": 1500, "workers": 14}}


def strategy(tier):
    from hypothesis import strategies as st
    base = geo.case_strategy(tier, kinds=("interior", "interior", "boundary", "boundary", "product",
                                          "depproduct", "bproduct"))
    return geo.weighted((9, base), (1, geo.big_leaf_case()))


def _lib_contains(ctx, D, env, label, feature):
    pt, pr = geo.split_env(D, env)
    N = len(pt)
    with ctx.lib(label, feature=feature):
        ans = D._contains(pt, pr)
    ok, vals = geo.as_bool_rows(ans, N)
    if not ok:
        ctx.violation("answer-shape", feature,
                      f"{label}: answer of shape {tuple(ans.shape) if hasattr(ans, 'shape') else type(ans)} "
                      f"for {N} rows / non-boolean values")
        return None
    return vals


def _blame(ctx, E, env, tol):
    """narrow the failing node: descend while a child alone already disagrees with the reference."""
    t = E["t"]
    if t in rg.LEAVES:
        return geo.node_label(E)
    kids = []
    if t in ("translate", "rotate"):
        kids = [(E["a"], rg.pull_back(E, env))]
    elif t in ("union", "cut", "isect", "product"):
        kids = [(E["a"], env), (E["b"], env)]
    for sub, e2 in kids:
        if rg.is_boundary(sub):
            continue
        try:
            D = build.domain(sub)
            pt, pr = geo.split_env(D, geo.env32(e2))
            ok, vals = geo.as_bool_rows(D._contains(pt, pr), len(pt))
        except Exception:       # noqa: BLE001 - blame is best effort
            return geo.node_label(sub) + "!"
        if not ok:
            return geo.node_label(sub)
        st = rg.status(sub, geo.env32(e2), tol)
        bad = ((st == rg.IN) & ~vals) | ((st == rg.OUT) & vals)
        if bad.any():
            idx = np.where(bad)[0]
            return _blame(ctx, sub, {k: np.asarray(v)[idx] for k, v in e2.items()}, tol)
    return geo.node_label(E)


def run_case(spec, ctx):
    E = spec["dom"]["E"]
    prows = spec["prows"]
    k = geo.nrows(prows)
    gen = np.random.default_rng(spec["rng"])
    penv = build.params_env(prows)
    with ctx.lib("construct", feature=E["t"]):
        D = build.domain(E)
    tol = geo.tolerances(E, penv)
    interior = geo._strip_boundary(E)
    NQ = 160
    ridx = (np.arange(NQ) % max(k, 1)) if k else np.zeros(NQ, dtype=int)
    env = geo.uniform_queries(E, penv if k else {}, ridx if k else np.zeros(NQ, dtype=int), gen) \
        if k else geo.uniform_queries(E, {}, np.zeros(NQ, dtype=int), gen)
    near = geo.near_boundary_queries(E, env, gen, tol["tol_in"])
    if near is not None:
        env = {kk: np.concatenate([env[kk], near[kk]]) for kk in env}
    env = geo.env32(env)
    N = rg.env_len(env)
    summary = {"rows": N, "scale": tol["scale"]}
    classes = geo.case_classes(spec)
    top = geo.node_label(E if not rg.is_boundary(E) else E["a"])
    has_product = rg.has(E, lambda n: n["t"] == "product")

    if not rg.is_boundary(E) and not rg.has(E, rg.is_boundary):
        # ---------------- interior membership ------------------------------------------
        # one row asked alone BEFORE the batch (an answer must not depend on what the same domain
        # object was asked earlier, nor on the batch a row is part of)
        env_one = {kk: v[:1] for kk, v in env.items()}
        one = _lib_contains(ctx, D, env_one, "_contains(single row)", top)
        vals = _lib_contains(ctx, D, env, "_contains", top)
        if vals is None:
            return {"nontrivial": False, "classes": classes, "summary": summary}
        st = rg.status(E, env, tol["tol_in"])
        decided = st != rg.UNDECIDED
        if one is not None and decided[0] and bool(one[0]) != bool(vals[0]):
            ctx.violation("row-dependence", top, "the answer for a row asked alone differs from its answer inside the batch")
        bad = ((st == rg.IN) & ~vals) | ((st == rg.OUT) & vals)
        if bad.any():
            idx = np.where(bad)[0]
            who = _blame(ctx, E, {kk: v[idx] for kk, v in env.items()}, tol["tol_in"])
            i = idx[0]
            ctx.violation("membership", who,
                          f"{bad.sum()} of {decided.sum()} decided rows: e.g. row "
                          f"{ {kk: np.round(v[i], 6).tolist() for kk, v in env.items()} } library={bool(vals[i])} "
                          f"reference={'in' if st[i] == rg.IN else 'out'} margin={rg.margin(interior, env)[i]:.3g}")
        # `points in domain` path (points joined with their parameter rows)
        pt, pr = geo.split_env(D, env)
        with ctx.lib("__contains__", feature=top):
            ans2 = D.__contains__(pt.join(pr))      # (Python's `in` would coerce to bool)
        ok2, vals2 = geo.as_bool_rows(ans2, N)
        if not ok2:
            ctx.violation("answer-shape", top + "|in-operator", "`points in domain` answer malformed")
        elif not np.array_equal(vals2[st != rg.UNDECIDED], vals[st != rg.UNDECIDED]):
            # rows on a leaf boundary may flip between two calls (trimesh re-casts rays at random)
            ctx.violation("in-operator", top, "`points in domain` differs from _contains(points, params)")
        # the same rows with the columns stored in the opposite variable order (parameters first, factors of a
        # product swapped): membership goes by variable name, not by column position
        names_rev = list(pt.join(pr).space.keys())[::-1]
        if len(names_rev) > 1:
            rev = Points.from_coordinates({v: torch.tensor(env[v], dtype=torch.float32) for v in names_rev})
            with ctx.lib("__contains__(reversed variable order)", feature=top):
                ans3 = D.__contains__(rev)
            ok3, vals3 = geo.as_bool_rows(ans3, N)
            if not ok3:
                ctx.violation("answer-shape", top + "|in-operator-reversed", "`points in domain` answer malformed")
            elif not np.array_equal(vals3[decided], vals[decided]):
                j = int(np.where(decided & (vals3 != vals))[0][0])
                ctx.violation("column-order", top,
                              f"`points in domain` with the variables stored as {names_rev} differs from the answer for "
                              f"the same rows stored as {names_rev[::-1]} on {int((decided & (vals3 != vals)).sum())} decided rows, e.g. "
                              f"{ {kk: np.round(v[j], 6).tolist() for kk, v in env.items()} }")
        # the domain evaluated with parameter row 0, `D(**row0)`, asked about the rows of that parameter row
        if k:
            sel = np.where(np.all([np.all(env[v] == penv[v][0][None, :], axis=1) for v in prows], axis=0))[0]
            if len(sel):
                data = {v: torch.tensor(r[:1], dtype=torch.float32).reshape(1, -1) for v, r in prows.items()}
                with ctx.lib("partial-evaluation", feature=top):
                    D0 = D(**data)
                env0 = {kk: v[sel] for kk, v in env.items() if kk not in prows}
                vals0 = _lib_contains(ctx, D0, env0, "_contains(evaluated domain)", top)
                if vals0 is not None:
                    bad0 = ((st[sel] == rg.IN) & ~vals0.astype(bool)) | ((st[sel] == rg.OUT) & vals0.astype(bool))
                    if bad0.any():
                        j = int(sel[np.where(bad0)[0][0]])
                        ctx.violation("membership-evaluated", top,
                                      f"{int(bad0.sum())} of {int((st[sel] != rg.UNDECIDED).sum())} decided rows of parameter row 0 "
                                      f"asked of D(**row0): e.g. { {kk: np.round(v[j], 6).tolist() for kk, v in env.items()} } "
                                      f"library={bool(vals0[np.where(bad0)[0][0]])} reference={'in' if st[j] == rg.IN else 'out'}")
        # joint permutation
        perm = gen.permutation(N)
        envp = {kk: v[perm] for kk, v in env.items()}
        valsp = _lib_contains(ctx, D, envp, "_contains(permuted)", top)
        if valsp is not None and not np.array_equal(valsp, vals[perm]):
            dd = np.where(valsp != vals[perm])[0]
            # a disagreement on an undecided (boundary-close) row is rounding, not pairing
            if (st[perm][dd] != rg.UNDECIDED).any():
                ctx.violation("row-pairing", top, "permuting (point, parameter) rows together changed decided answers")
        m = rg.margin(interior, env)
        close = decided & (m < 100 * tol["tol_in"])
        summary.update(decided=int(decided.sum()), inside=int((st == rg.IN).sum()),
                       outside=int((st == rg.OUT).sum()), close=int(close.sum()))
        nontrivial = (not geo.is_plain(spec)) and (st == rg.IN).any() and (st == rg.OUT).any() and close.any()
        return {"nontrivial": bool(nontrivial), "classes": classes, "summary": summary}

    # ---------------- boundary domains ---------------------------------------------------
    params = build.params_points(prows)
    feats = specs.features(E)
    n_own = 24
    own_ok = 0
    cond = geo.condition_number(E, penv)
    summary["cond"] = round(cond, 2)
    try:       # operand boundaries that touch along a shared piece: known finding D21
        if geo.touching(E, penv, 1e-4 * tol["scale"]):
            top += "+touching"
            classes.append("touching")
    except Exception:      # noqa: BLE001 - classification only
        pass
    for how in ("random", "grid"):
        if has_product and how == "grid":
            continue
        abs_tol_leaf = rg.has(E, lambda n: n["t"] in ("poly", "mesh"))
        if cond > 6 or (abs_tol_leaf and tol["scale"] > 4):
            # the library's boundary tolerances are relative to the shape size (rtol 1e-5 of a
            # radius, 1e-5 in barycentric coordinates, 1e-6 absolute for meshes/polygons); float32
            # coordinates of a small shape far from the origin cannot meet them - not judged
            ctx.event("own-samples-skipped:ill-conditioned")
            continue
        with ctx.lib(f"sample-{how}", feature=top, budget_calls=4000 + 400 * n_own * max(k, 1)):
            P, pen = geo.lib_sample(D, how, n_own, prows)
        rows = len(P)
        if rows != n_own * max(k, 1):
            continue          # row-count problems belong to C02; membership of these rows is not judged
        e_own = build.points_env(P, pen)
        vals = _lib_contains(ctx, D, e_own, f"_contains(own {how} samples)", top)
        if vals is None:
            continue
        # only judge rows the reference does not place off the boundary (those are C01's business)
        st = rg.status(E, e_own, tol["tol_b"])
        rej = (~vals) & (st != rg.OUT)
        own_ok += int(vals.sum())
        if rej.any():
            i = np.where(rej)[0][0]
            who = _blame_boundary(E, {kk: v[[i]] for kk, v in e_own.items()}, tol["tol_b"]) + \
                ("+touching" if top.endswith("+touching") else "")
            ctx.violation("own-sample-rejected", who,
                          f"{rej.sum()} of {rows} own {how} boundary samples rejected by the boundary's "
                          f"_contains, e.g. { {kk: np.round(v[i], 6).tolist() for kk, v in e_own.items()} }")
    # exact points of the reference boundary (float64 points of a leaf boundary, moved with the leaf, that
    # lie on the boundary of the result and away from every other leaf boundary) must be accepted after
    # rounding to float32 - under the same conditioning rule as the library's own samples
    abs_tol_leaf = rg.has(E, lambda n: n["t"] in ("poly", "mesh"))
    if not (cond > 6 or (abs_tol_leaf and tol["scale"] > 4)) and not top.endswith("+touching"):
        q = _operand_boundary_queries(E, penv, k, booleans_only=False)
        if q is not None:
            A_ = E["a"]
            on = rg.probe_mixed(A_, q, 1e-6 * tol["scale"])
            d_ = np.sort(np.stack(rg.leaf_dists(A_, q), axis=0), axis=0)
            lone = d_[1] > 5 * tol["tol_b"] if d_.shape[0] > 1 else np.ones(len(on), dtype=bool)
            vals_q = _lib_contains(ctx, D, geo.env32(q), "_contains(exact boundary points)", top)
            if vals_q is not None:
                miss = on & lone & ~vals_q
                summary["exact_boundary_rows"] = int((on & lone).sum())
                if miss.any():
                    i = int(np.where(miss)[0][0])
                    ctx.violation("boundary-point-rejected", _blame_boundary(E, {kk: v[[i]] for kk, v in q.items()}, tol["tol_b"]),
                                  f"{miss.sum()} of {(on & lone).sum()} exact points of the boundary are rejected by the boundary's "
                                  f"_contains, e.g. { {kk: np.round(v[i], 6).tolist() for kk, v in q.items()} }")
    # a polyhedron built with its own boundary tolerance: rows closer to a face than that tolerance are on
    # the boundary by the user's declaration (judged where the declared tolerance dominates float32 rounding)
    A0 = E.get("a", {})
    if E["t"] == "boundary" and A0.get("t") == "mesh" and A0.get("tol") and A0["tol"] >= 20 * 1e-4 * tol["scale"]:
        bp, bn = rg.leaf_boundary_points(A0, {}, 4)
        qs = np.concatenate([bp + f * A0["tol"] * bn for f in (0.45, -0.45, 0.2)])
        e_t = geo.env32({A0["var"]: qs})
        vals_t = _lib_contains(ctx, D, e_t, "_contains(rows within the declared tol)", top)
        if vals_t is not None and (~vals_t).any():
            i = int(np.where(~vals_t)[0][0])
            ctx.violation("declared-tol-ignored", "mesh", f"{(~vals_t).sum()} of {len(vals_t)} rows within 0.45*tol (tol={A0['tol']}) of a face "
                          f"are rejected by the boundary, e.g. {np.round(qs[i], 6).tolist()}")
        classes.append("mesh-declared-tol")
    # far rows must be rejected, reference-certain boundary rows accepted
    for ext in (_extended_edge_queries(E, penv, k), _operand_boundary_queries(E, penv, k)):
        if ext is not None:
            env = geo.env32({kk: np.concatenate([env[kk], ext[kk]]) for kk in env})
    vals = _lib_contains(ctx, D, env, "_contains", top)
    if vals is not None and cond > 15:
        ctx.event("far-rows-skipped:ill-conditioned")
        vals = None
    if vals is not None:
        st_far = rg.status(E, env, min(100 * tol["tol_b"], 0.1 * geo.min_feature(E, penv)))
        bad = (st_far == rg.OUT) & vals
        if bad.any():
            i = np.where(bad)[0][0]
            # a row on a piece shared by two operand boundaries is named after the operation joining them
            who, rank = None, -1
            for i2 in np.where(bad)[0][:40]:
                w = geo.contact_op(E, {kk: v[[i2]] for kk, v in env.items()}, tol["tol_b"])
                # off the contact set > exactly on it > exactly on it with a polygon operand > within rounding of it
                r = 3 if w is None else (0 if "~" in w else (1 if w.endswith("-poly") else 2))
                if r > rank:
                    who, rank, i = w, r, i2
                if r == 3:
                    break
            ctx.violation("far-row-accepted", who or _blame_boundary(E, {kk: v[[i]] for kk, v in env.items()}, tol["tol_b"]),
                          f"{bad.sum()} rows farther than {100 * tol['tol_b']:.3g} from the boundary accepted, e.g. "
                          f"{ {kk: np.round(v[i], 6).tolist() for kk, v in env.items()} }")
        summary.update(far_rejected=int(((st_far == rg.OUT) & ~vals).sum()), own_accepted=own_ok)
        nontrivial = (not geo.is_plain(spec)) and own_ok > 0 and ((st_far == rg.OUT) & ~vals).any()
    else:
        nontrivial = False
    return {"nontrivial": bool(nontrivial), "classes": classes, "summary": summary}


def _blame_boundary(E, env1, tol):
    """which leaf's boundary is the (single) row on?  -> label of that leaf."""
    A = E["a"] if E["t"] == "boundary" else E
    if A["t"] == "product" or rg.has(A, lambda n: n["t"] == "product"):
        return "product-boundary"
    labs = []

    def visit(n, e):
        if n["t"] in rg.LEAVES:
            d = rg.leaf_contains_bdist(n, e)[1][0]
            labs.append((d, geo.node_label(n)))
        elif n["t"] in ("translate", "rotate"):
            visit(n["a"], rg.pull_back(n, e))
        else:
            for c in rg.children(n):
                visit(c, e)
    visit(A, env1)
    labs.sort()
    return labs[0][1] if labs else "?"


def _operand_boundary_queries(E, penv, k, booleans_only=True):
    """points on the boundary of every operand leaf of a Boolean combination: the pieces of an operand
    boundary that lie inside / outside the other operand are NOT on the boundary of the result."""
    A = E["a"] if E["t"] == "boundary" else None
    if A is None or rg.has(A, lambda n: n["t"] == "product") or \
            (booleans_only and not rg.has(A, lambda n: n["t"] in ("union", "cut", "isect"))):
        return None
    var = rg.space_vars(A)[0][0]
    rows = max(k, 1)
    out = {kk: [] for kk in list(penv.keys()) + [var]}

    def visit(n, chain):
        if n["t"] in rg.LEAVES:
            if n["t"] == "point":
                return
            for i in range(rows):
                pe1 = {kk: v[i:i + 1] for kk, v in penv.items()} if k else {}
                pts = rg.leaf_boundary_points(n, geo._penv_for(n, pe1), 5)[0]
                for node in chain:
                    pe = {kk: np.repeat(v, len(pts), axis=0) for kk, v in pe1.items()}
                    pts = rg.push_forward(node, pe, pts)
                out[var].append(pts)
                for kk in penv:
                    out[kk].append(np.repeat(penv[kk][i:i + 1], len(pts), axis=0))
        elif n["t"] in ("translate", "rotate"):
            visit(n["a"], [n] + list(chain))
        else:
            for c in rg.children(n):
                visit(c, chain)
    try:
        visit(A, [])
    except (KeyError, ValueError):
        return None
    if not out[var]:
        return None
    return {kk: np.concatenate(v) for kk, v in out.items()}


def _extended_edge_queries(E, penv, k):
    """points on the straight continuation of polygon edges beyond their end points (they are off
    the boundary although they satisfy the edge's line equation) for single-variable boundaries."""
    A = E["a"] if E["t"] == "boundary" else None
    if A is None or rg.has(A, lambda n: n["t"] == "product"):
        return None
    var = rg.space_vars(A)[0][0]
    rows = max(k, 1)
    out = {kk: [] for kk in list(penv.keys()) + [var]}

    def visit(n, chain):
        if n["t"] in ("par", "tri", "poly"):
            for i in range(rows):
                pe1 = {kk: v[i:i + 1] for kk, v in penv.items()} if k else {}
                rings = [rg._leaf_polygon(n, geo._penv_for(n, pe1), 1)[0]] if n["t"] != "poly" else \
                    [np.asarray(r, float) for r in rg._rings(n)]
                pts = []
                for ring in rings:
                    for j in range(len(ring)):
                        a, b = ring[j], ring[(j + 1) % len(ring)]
                        for t in (-1.5, -0.5, -0.15, 1.15, 1.5, 2.5):
                            pts.append(a + t * (b - a))
                pts = np.array(pts)
                for node in chain:
                    pe = {kk: np.repeat(v, len(pts), axis=0) for kk, v in pe1.items()}
                    pts = rg.push_forward(node, pe, pts)
                out[var].append(pts)
                for kk in penv:
                    out[kk].append(np.repeat(penv[kk][i:i + 1], len(pts), axis=0))
        elif n["t"] in ("translate", "rotate"):
            visit(n["a"], [n] + list(chain))
        else:
            for c in rg.children(n):
                visit(c, chain)
    try:
        visit(A, [])
    except (KeyError, ValueError):
        return None
    if not out[var]:
        return None
    return {kk: np.concatenate(v) for kk, v in out.items()}


def extra_cases(tier, seed):
    """pinned Boolean boundaries whose operands share a boundary piece exactly (lattice coordinates), with
    and without the `contained` / `disjoint` declarations."""
    C = specs.const
    A = {"t": "par", "var": "x", "o": C([0.0, 0.0]), "c1": C([2.0, 0.0]), "c2": C([0.0, 2.0])}
    out = []
    for op, rel, flags in (("cut", "notch", (False, True)), ("cut", "inside", (False, True)), ("cut", "attached", (False,)),
                           ("union", "attached", (False,)), ("union", "apart", (False, True)), ("union", "notch", (False,)),
                           ("isect", "notch", (False,)), ("isect", "same", (False,)), ("union", "same", (False,))):
        for variant in (0, 1, 5):
            for fl in flags:
                node = {"t": op, "a": A, "b": specs._partner(A, rel, variant)}
                if op == "union":
                    node["disjoint"] = fl
                if op == "cut":
                    node["contained"] = fl
                out.append({"dom": {"E": {"t": "boundary", "a": node}, "kind": "boundary", "pvars": [], "lattice": True, "far": False},
                            "prows": {}, "rng": 11 + variant + seed})
    I = {"t": "interval", "var": "u", "lo": C([-0.5]), "hi": C([1.5])}
    for op, rel, fl in (("cut", "notch", True), ("cut", "inside", True), ("union", "attached", False), ("union", "apart", True)):
        node = {"t": op, "a": I, "b": specs._partner(I, rel, 0)}
        node["disjoint" if op == "union" else "contained"] = fl
        out.append({"dom": {"E": {"t": "boundary", "a": node}, "kind": "boundary", "pvars": [], "lattice": True, "far": False},
                    "prows": {}, "rng": 3 + seed})
    # rotations about a pivot other than the origin (constant and moving), interior and boundary; large discs
    sq = {"t": "par", "var": "x", "o": C([0.5, 0.2]), "c1": C([1.7, 0.4]), "c2": C([0.3, 1.1])}
    pivots = (C([2.0, 1.0]), {"k": "affine", "var": "p", "v0": [2.0, 1.0], "V1": [[1.0], [-0.5]]})
    for j, piv in enumerate(pivots):
        for form, ang in (("angles", C([0.9])), ("matrix", C([2.4])), ("angles", {"k": "affine", "var": "p", "v0": [0.3], "V1": [[1.4]]})):
            R = {"t": "rotate", "a": sq, "angle": ang, "around": piv, "form": form}
            fv = rg.free_vars(R)
            for E in (R, {"t": "boundary", "a": R}):
                out.append({"dom": {"E": E, "kind": "boundary" if E is not R else "interior", "pvars": sorted(fv), "lattice": False, "far": False},
                            "prows": {"p": [[0.2], [0.9]]} if fv else {}, "rng": 40 + j + seed})
    for r in (C([250.0]), {"k": "affine", "var": "p", "v0": [40.0], "V1": [[300.0]]}):
        D0 = {"t": "circle", "var": "x", "c": C([30.0, -80.0]), "r": r}
        fv = rg.free_vars(D0)
        for E in (D0, {"t": "boundary", "a": D0}):
            out.append({"dom": {"E": E, "kind": "boundary" if E is not D0 else "interior", "pvars": sorted(fv), "lattice": False, "far": False},
                        "prows": {"p": [[0.3], [1.0]]} if fv else {}, "rng": 50 + seed})
    box = [[sx * 0.7 + 1, sy * 0.5 - 2, sz * 0.9] for sx in (-1, 1) for sy in (-1, 1) for sz in (-1, 1)]
    boxf = [[0, 1, 3], [0, 3, 2], [4, 6, 7], [4, 7, 5], [0, 4, 5], [0, 5, 1], [2, 3, 7], [2, 7, 6], [0, 2, 6], [0, 6, 4], [1, 5, 7], [1, 7, 3]]
    for tl in (0.01, 0.003):
        out.append({"dom": {"E": {"t": "boundary", "a": {"t": "mesh", "var": "y", "verts": box, "faces": boxf, "kind": "box", "winding": "out", "tol": tl}},
                            "kind": "boundary", "pvars": [], "lattice": False, "far": False}, "prows": {}, "rng": 7 + seed})
    return out
