"""C14 - conditions are isolated from each other and repeatable.

A case is a *pool spec* (intervals, deterministic samplers, data functions, data-function dicts,
Parameters, residual functions with mutable default arguments, models, DeepONets, function
sets) plus a *history*: a list of op dicts (construct / evaluate / evaluate_twice) interpreted
in run_case.  Pool objects are referenced by index modulo the pool size and are built lazily,
once, so every condition that names the same index gets the very same Python object - the way
notebooks reuse one `data_functions` dict, one sampler, one model for several conditions.

For every constructed condition an isolated twin is built from a completely fresh pool (same
spec, no object shared with anything else).  The twin is evaluated exactly when the real
condition is, with the same arguments, so both go through the same state sequence.

Sampler OBJECTS are shared, not only their domains: the raw sampler ("base": grid / exponential
interval / random uniform / data / sequence) is one pool object, its StaticSampler wrapper another,
and a condition with prod=m uses `base * GridSampler(t-interval, m)` (base as the FIRST factor of
a product sampler, m partner rows) with the x-t model, while other conditions use the same base
alone.  torch's global RNG is re-seeded with one number right before the twin's and right before
the real condition's constructor / forward call of every op, so a (non-static) random sampler draws
the same points for both and the losses stay comparable.
"""
import inspect

import torch
from hypothesis import strategies as st

from torchphysics.models import (DeepONet, FCBranchNet, FCN, FCTrunkNet, Parameter)
from torchphysics.problem.conditions import (AdaptiveWeightsCondition, DeepRitzCondition,
                                             HPM_EquationLoss_at_Sampler, IntegroPINNCondition,
                                             MeanCondition, PeriodicCondition,
                                             PIDeepONetCondition, PINNCondition,
                                             SingleModuleCondition)
from torchphysics.problem.conditions.condition import SquaredError
from torchphysics.problem.domains import CustomFunctionSet, Interval
from torchphysics.problem.samplers import (DataSampler, ExponentialIntervalSampler, GridSampler,
                                           PointSampler, RandomUniformSampler)
from torchphysics.problem.spaces import FunctionSpace, Points, R1
from torchphysics.utils import UserFunction
from torchphysics.utils import grad as tp_grad
from vf.core import CaseAborted

PROPERTY = "C14"
RULE = ("Hypothesis draws a pool spec - 1-2 x-intervals, one t-interval, 2-4 x-sampler OBJECTS "
        "(GridSampler / ExponentialIntervalSampler with exponent 0.5, 2 or 3 / RandomUniformSampler "
        "with n_points, never as sampler #0 / DataSampler built from a user dict / a user-defined "
        "sequence sampler whose k-th draw is a shifted grid, always wrapped static; 2-5 points; ~2/3 "
        "static = ONE StaticSampler wrapper per pool sampler, resample interval inf/1/2/3; the raw "
        "sampler under the wrapper is a pool object of its own), 1-3 data functions f(x, t=<tensor default>) "
        "(plain or UserFunction-wrapped), 1-3 data-function dicts over the names f,g (both key "
        "orders), 0-2 Parameters, 1-2 residual functions with mutable defaults (list or tensor, "
        "optional derivative term), 1-2 FCN models per input space, 1-2 DeepONets (their "
        "discretisation sampler is a pool sampler), 1-2 function sets - and a history of 2-3 "
        "construct ops followed by 0-8 (thorough 0-14) construct / evaluate / evaluate_twice "
        "ops; kinds: PINNCondition, MeanCondition, DeepRitzCondition, SingleModuleCondition "
        "(reduce=sum), AdaptiveWeightsCondition, HPM_EquationLoss_at_Sampler, "
        "IntegroPINNCondition, PeriodicCondition (A: periodic x-interval from the pool, default "
        "EmptySampler; B: periodic t-interval + pool x-sampler), PIDeepONetCondition; objects "
        "are named by index modulo pool size, so sharing is frequent; data_functions / parameter "
        "are omitted in a share (constructor defaults). prod=m (1-3, in ~1/2 of the construct ops; "
        "kinds pinn/mean/ritz/single/adaptive) makes the condition use the product sampler "
        "`raw sampler #i * GridSampler(t-interval, m)` (raw grid / exponential / random sampler as "
        "the FIRST factor, the m-point partner is a pool object too; wrapped in the condition's own "
        "StaticSampler if pool sampler #i is static) with the x-t model, so one sampler object is a "
        "product factor in one condition and used alone (or under its static wrapper, or as a "
        "DeepONet discretisation / integral / non-periodic sampler) in others, in every order of "
        "construction and evaluation; ~400 pinned histories enumerate that pattern for every "
        "shareable sampler kind. torch's RNG is seeded with the same number (spec rng + op count) "
        "right before the twin's and the real condition's constructor / forward call, so random "
        "samplers draw the same points for both. Evaluation passes iteration=None "
        "(default, what Solver.validation_step does) or a Solver-like step counter (each "
        "condition at most once per iteration value). Flags: own_dicts (every condition gets "
        "its own copy of the dict, so the other sharing channels are explored behind D14), "
        "skip_d19 (periodic+static drops its dict), it_mode none/step/mixed, theme (in 3/7 of the "
        "cases every kind except pinn/adaptive becomes PIDeepONet resp. Periodic so that several "
        "of them meet). After the history "
        "every live condition is evaluated once more. Oracles after every op: real loss == "
        "isolated twin's loss (1e-6 rel; not for a condition on a SHARED StaticSampler around a "
        "random sampler, which legitimately keeps the points of whoever drew first) and the shape "
        "of what the residual function receives (number of points) == the twin's, for every "
        "condition; every dict handed to a constructor keeps its keys and "
        "the identical value objects; data/residual functions' default objects, DataSampler "
        "input dicts, Parameter values, constructor default arguments and (at the end) model "
        "weights are unchanged; every evaluation of a static-sampler condition equals its first "
        "(random sampler: only with resample interval inf); "
        "periodic: the f_left/f_right (g_left/g_right) tensors received by the spying residual "
        "equal the data function computed by the harness at the left / right end. Non-trivial: "
        ">= 2 successfully constructed conditions share at least one pool object and one of them "
        "has a static sampler and a non-empty data-function dict, and both were evaluated; or a "
        "sampler object is the first factor of a product sampler with m > 1 in one evaluated "
        "condition and used by another evaluated condition. "
        "Distinct = spec hash without the rng seed.")
ASSUMPTIONS = [
    "grid, exponential-interval, data and sequence samplers are deterministic functions of their "
    "own draw count; a RandomUniformSampler is a deterministic function of torch's RNG state, which "
    "the harness sets to the same value before the real and the twin call of an op (pool objects are "
    "built before the seeding, so lazily initialised model weights do not shift the stream); the "
    "sequence sampler (k-th draw = grid shifted by 0.37*(k-1)) is only used inside a StaticSampler "
    "with infinite resample interval, so its first draw is what every sharer and every twin sees",
    "left out of the generator because the unmodified library already interferes there (reported, "
    "not judged): a StaticSampler OBJECT used as a product factor in one condition and alone in "
    "another (it caches whichever point set - x only or x,t with n*m rows - was drawn first); "
    "samplers defined by a density (len() raises until someone sampled them once: documented); "
    "DataSampler (debug prints with partner rows) and the sequence sampler (ignores partner rows) "
    "are never product factors; a DeepONet is never discretised on a random sampler",
    "a deviating number of points and a deviating loss are one deviation from the isolated twin: "
    "both are reported as twin-mismatch:<channel>",
    "no optimisation step occurs in a history; model weights are set from a torch.Generator seeded "
    "by spec['rng'] + index, so a fresh pool reproduces them exactly",
    "evaluation with an iteration number follows the Solver: increasing numbers, each condition at "
    "most once per number; iteration=None is the documented default of Condition.forward and what "
    "Solver.validation_step passes",
    "FunctionSets and DeepONet models count as user-supplied objects that conditions may share "
    "(one model for several function sets and one function set for several models)",
    "AdaptiveWeightsCondition is only built on static samplers (documented ValueError otherwise): "
    "the sampler index is taken modulo the static samplers of the pool, PINNCondition if none",
    "residual functions reshape what they receive to columns, so the (n,1) vs (n,1,1) shape of "
    "pre-evaluated vs. on-the-fly data inside IntegroPINNCondition is not judged here (C04)",
    "losses are float32 results of identical operation sequences in the real and the twin "
    "condition: tolerance 1e-6 relative + 1e-9 absolute; two NaN losses count as equal",
    "twin-mismatch / crash / periodic-side signatures carry the sharing channel that can explain "
    "them (diagnosis for the signature only, never for the verdict): shared-dict if the dict object "
    "is also used by a static-sampler condition (built earlier when the judged condition is static "
    "itself) and the judged condition's table of wrapped / pre-evaluated data functions differs in "
    "kind or content from its twin's; deeponet-stale-branch if DeepONet._forward_branch is about to "
    "skip the branch evaluation (iteration == function_set.current_iteration_num) although the last "
    "branch evaluation of that model was for another function set; otherwise the first of fn, "
    "sampler, domain, parameter, residual, model, fs, ctor-defaults that is shared",
]
BUDGET = {"quick": {"examples": 320, "workers": 4},
          "thorough": {"examples": 1500, "workers": 14}}

KINDS = ["pinn", "mean", "ritz", "single", "adaptive", "hpm", "integro", "periodicA",
         "periodicB", "deeponet"]
FAMILY = {"pinn": "single", "mean": "single", "ritz": "single", "single": "single",
          "adaptive": "single", "hpm": "hpm", "integro": "integro", "periodicA": "periodic",
          "periodicB": "periodic", "deeponet": "deeponet"}
CLASSES = {"pinn": PINNCondition, "mean": MeanCondition, "ritz": DeepRitzCondition,
           "single": SingleModuleCondition, "adaptive": AdaptiveWeightsCondition,
           "hpm": HPM_EquationLoss_at_Sampler, "integro": IntegroPINNCondition,
           "periodicA": PeriodicCondition, "periodicB": PeriodicCondition,
           "deeponet": PIDeepONetCondition}
MAX_CONDS = 6
PROD_KINDS = ("pinn", "mean", "ritz", "single", "adaptive")
PROD_FACTORS = ("grid", "exp", "rand")
_MISSING = object()
CHANNELS = ["dict", "fn", "sampler", "domain", "parameter", "residual", "model", "fs",
            "defaults"]


# =========================================================================================
# strategy
# =========================================================================================
def _pick(*vals):
    return st.sampled_from(list(vals))


_IDX = st.integers(0, 3)

_SAMPLER = st.fixed_dictionaries({
    "kind": _pick("grid", "grid", "grid", "data", "seq", "exp", "exp", "rand"),
    "dom": st.integers(0, 1),
    "n": st.integers(2, 5),
    "e": _pick(0.5, 2.0, 3.0),
    "static": _pick(True, True, False),
    "R": _pick(None, None, None, 1, 2, 3)})

_FN = st.fixed_dictionaries({
    "a": _pick(-2.0, -1.0, 0.5, 1.0, 3.0), "b": _pick(-1.5, 0.75, 2.0),
    "c": _pick(-1.0, 0.0, 0.25, 4.0), "td": _pick(-0.5, 0.5, 1.25),
    "wrap": _pick(False, False, True)})

_DICT = st.one_of(
    st.tuples(_IDX).map(lambda t: [["f", t[0]]]),
    st.tuples(_IDX).map(lambda t: [["f", t[0]]]),
    st.tuples(_IDX).map(lambda t: [["g", t[0]]]),
    st.tuples(_IDX, _IDX).map(lambda t: [["f", t[0]], ["g", t[1]]]),
    st.tuples(_IDX, _IDX).map(lambda t: [["g", t[0]], ["f", t[1]]]))

_RES = st.fixed_dictionaries({"c": _pick(0.5, 1.0, 2.0), "mut": _pick("list", "tensor"),
                              "deriv": _pick(False, False, True)})

_DOM = st.tuples(_pick(-1.0, 0.0, 0.5, 2.0), _pick(0.5, 1.0, 2.0)).map(list)

_FS = st.fixed_dictionaries({"lo": _pick(-1.0, 0.5, 3.0), "w": _pick(1.0, 2.0),
                             "n": st.integers(1, 3), "sh": _pick(0.0, 0.5)})

_POOL = st.fixed_dictionaries({
    "xdoms": st.lists(_DOM, min_size=1, max_size=2),
    "tdom": _DOM,
    "samplers": st.lists(_SAMPLER, min_size=2, max_size=4),
    "fns": st.lists(_FN, min_size=1, max_size=3),
    "dicts": st.lists(_DICT, min_size=1, max_size=3),
    "params": st.lists(_pick(-1.0, 0.5, 2.0), max_size=2),
    "res": st.lists(_RES, min_size=1, max_size=2),
    "n_models": st.integers(1, 2),
    "dons": st.lists(st.fixed_dictionaries({"disc": _IDX}), min_size=1, max_size=2),
    "fss": st.lists(_FS, min_size=1, max_size=2)})

_KIND = _pick("pinn", "pinn", "pinn", "mean", "ritz", "single", "adaptive", "adaptive", "hpm",
              "integro", "integro", "periodicA", "periodicB", "periodicB", "periodicB",
              "deeponet", "deeponet", "deeponet")

_CONSTRUCT = st.fixed_dictionaries({
    "op": st.just("construct"), "kind": _KIND, "model": st.integers(0, 1), "sampler": _IDX,
    "sampler2": _IDX, "dict": _pick(-1, 0, 0, 0, 1, 2), "param": _pick(-1, -1, 0, 1),
    "res": st.integers(0, 1), "dom": st.integers(0, 1), "fs": st.integers(0, 1),
    "prod": _pick(0, 0, 0, 0, 1, 2, 3, 3)})

_EVAL = st.fixed_dictionaries({
    "op": _pick("evaluate", "evaluate", "evaluate_twice", "evaluate", "train_start"), "c": st.integers(0, MAX_CONDS - 1),
    "it": _pick("none", "step")})


def _weighted(strategy, n):
    return [strategy.map(lambda v: v) for _ in range(n)]


def strategy(tier):
    body = st.lists(st.one_of(*_weighted(_CONSTRUCT, 2), *_weighted(_EVAL, 3)),
                    max_size=8 if tier == "quick" else 14)
    ops = st.builds(lambda h, b: h + b, st.lists(_CONSTRUCT, min_size=2, max_size=3), body)
    return st.fixed_dictionaries({
        "pool": _POOL, "ops": ops,
        "own_dicts": _pick(False, False, False, True, True),
        "skip_d19": _pick(False, True, True),
        "it_mode": _pick("none", "step", "step", "mixed", "mixed"),
        "theme": _pick(None, None, None, None, "deeponet", "deeponet", "periodic"),
        "rng": st.integers(0, 2 ** 31 - 1)})


_BASE_POOL = {
    "xdoms": [[0.0, 1.0], [2.0, 1.0]], "tdom": [0.0, 2.0],
    "samplers": [{"kind": "grid", "dom": 0, "n": 5, "static": True, "R": None},
                 {"kind": "grid", "dom": 1, "n": 5, "static": False, "R": None},
                 {"kind": "seq", "dom": 0, "n": 3, "static": True, "R": None},
                 {"kind": "data", "dom": 1, "n": 4, "static": True, "R": 2}],
    "fns": [{"a": 3.0, "b": 2.0, "c": 0.25, "td": 0.5, "wrap": False},
            {"a": -1.0, "b": 0.75, "c": 4.0, "td": 1.25, "wrap": True}],
    "dicts": [[["f", 0]], [["g", 1], ["f", 0]]],
    "params": [2.0], "res": [{"c": 2.0, "mut": "list", "deriv": False},
                             {"c": 0.5, "mut": "tensor", "deriv": True}],
    "n_models": 2, "dons": [{"disc": 0}, {"disc": 1}],
    "fss": [{"lo": 0.5, "w": 1.0, "n": 2, "sh": 0.0}, {"lo": 3.0, "w": 2.0, "n": 3, "sh": 0.5}]}


# samplers 0-3 non-static grid / exponential (both branches of the exponent) / random, samplers
# 4-6 static with the same spec as 0-2 (another object: only pinned histories that address the
# same index share), DeepONets 1 / 2 discretised on the exponential sampler 1 / its static twin 5
_PROD_POOL = dict(_BASE_POOL, samplers=[
    {"kind": "grid", "dom": 0, "n": 4, "static": False, "R": None, "e": 2.0},
    {"kind": "exp", "dom": 0, "n": 5, "static": False, "R": None, "e": 2.0},
    {"kind": "exp", "dom": 1, "n": 3, "static": False, "R": None, "e": 0.5},
    {"kind": "rand", "dom": 0, "n": 4, "static": False, "R": None, "e": 2.0},
    {"kind": "grid", "dom": 0, "n": 4, "static": True, "R": None, "e": 2.0},
    {"kind": "exp", "dom": 0, "n": 5, "static": True, "R": 2, "e": 2.0},
    {"kind": "exp", "dom": 1, "n": 3, "static": True, "R": None, "e": 0.5}],
    dons=[{"disc": 0}, {"disc": 1}, {"disc": 5}])


def _c(kind, **kw):
    op = {"op": "construct", "kind": kind, "model": 0, "sampler": 0, "sampler2": 1, "dict": 0,
          "param": -1, "res": 0, "dom": 0, "fs": 0, "prod": 0}
    op.update(kw)
    return op


def _e(c, it="none", twice=False):
    return {"op": "evaluate_twice" if twice else "evaluate", "c": c, "it": it}


def extra_cases(tier, seed):
    """Pinned histories: every kind twice on the same objects next to a static PINN condition with
    the same dict (shared and own dicts), the three patterns of the known defects, and one sampler
    object as a product factor in one condition and alone in another (every order)."""
    rng = 4000 + seed % 1000
    for own in (False, True):
        for kind in KINDS:
            for it in ("none", "step"):
                yield {"pool": _BASE_POOL, "own_dicts": own, "skip_d19": own, "it_mode": it,
                       "rng": rng,
                       "ops": [_c("pinn"), _c(kind, param=0), _e(0), _e(1), _c(kind, res=1),
                               _e(2, twice=True), _e(0), _c(kind, sampler=1, dict=1, fs=1),
                               _e(1), _e(3)]}
    # one dict, static sampler first, then a second condition elsewhere (D14)
    yield {"pool": _BASE_POOL, "own_dicts": False, "skip_d19": True, "it_mode": "none", "rng": rng,
           "ops": [_c("pinn", sampler=0), _c("pinn", sampler=1), _e(1)]}
    # periodic condition with a static sampler and data functions (D19)
    yield {"pool": _BASE_POOL, "own_dicts": True, "skip_d19": False, "it_mode": "none", "rng": rng,
           "ops": [_c("periodicB", sampler=0), _c("pinn", sampler=0), _e(0), _e(1)]}
    # one DeepONet, function sets F0, F1, F0 in one training iteration (the Solver's loop order)
    yield {"pool": _BASE_POOL, "own_dicts": True, "skip_d19": True, "it_mode": "step", "rng": rng,
           "ops": [_c("deeponet", fs=0), _c("deeponet", fs=1), _c("deeponet", fs=0, sampler=1),
                   _e(0, "step"), _e(1, "step"), _e(2, "step")]}
    # one function set for two DeepONets
    yield {"pool": _BASE_POOL, "own_dicts": True, "skip_d19": True, "it_mode": "step", "rng": rng,
           "ops": [_c("deeponet", model=0), _c("deeponet", model=1), _e(0, "step"), _e(1, "step"),
                   _e(0, "step"), _e(1, "step")]}
    # one DeepONet, two function sets, evaluated with the default iteration=None
    yield {"pool": _BASE_POOL, "own_dicts": True, "skip_d19": True, "it_mode": "none", "rng": rng,
           "ops": [_c("deeponet", fs=0), _c("deeponet", fs=1), _e(0), _e(1), _e(0)]}
    # one sampler object as the first factor of a product sampler (m partner rows) in one condition
    # and alone in another one, both orders of construction and evaluation, every shareable kind
    for s in range(len(_PROD_POOL["samplers"])):
        for m in (1, 3):
            for kind in ("pinn", "mean", "periodicB", "integro", "deeponet"):
                a, b = _c("pinn", sampler=s, prod=m), _c(kind, sampler=s, sampler2=s)
                for ops in ([a, b, _e(0), _e(1), _e(0), _e(1)], [b, a, _e(0), _e(1), _e(1), _e(0)],
                            [a, _e(0), b, _e(1), _e(0)], [b, _e(0), a, _e(1), _e(0)],
                            [b, a, _e(1), _e(0), _e(1)]):
                    yield {"pool": _PROD_POOL, "own_dicts": True, "skip_d19": True,
                           "it_mode": "none", "theme": None, "rng": rng, "ops": ops}
    # the same with a StaticSampler wrapper of the shared sampler on the other side (its length is
    # what AdaptiveWeightsCondition / PeriodicCondition / FCBranchNet size their internals with)
    for s in (4, 5, 6):
        for kind in ("adaptive", "periodicB", "pinn", "integro"):
            a, b = _c("pinn", sampler=s, prod=2), _c(kind, sampler=s, sampler2=s, model=1)
            for ops in ([a, _e(0), b, _e(1), _e(0), _e(1)], [a, b, _e(0), _e(1)],
                        [b, a, _e(1), _e(0), _e(1)], [_c("adaptive", sampler=s, prod=3), b, _e(0),
                                                      _e(1), _e(0)]):
                yield {"pool": _PROD_POOL, "own_dicts": True, "skip_d19": True,
                       "it_mode": "step", "theme": None, "rng": rng, "ops": ops}
    # ... and as the discretisation sampler of a DeepONet that is built (lazily) afterwards
    for s, don in ((0, 0), (1, 1), (5, 2)):
        a, b = _c("pinn", sampler=s, prod=3), _c("deeponet", sampler=3, model=don)
        for ops in ([a, _e(0), b, _e(1), _e(0)], [b, a, _e(1), _e(0), _e(1)]):
            yield {"pool": _PROD_POOL, "own_dicts": True, "skip_d19": True,
                   "it_mode": "step", "theme": None, "rng": rng, "ops": ops}


# =========================================================================================
# user objects
# =========================================================================================
class SeqSampler(PointSampler):
    """A user-defined deterministic sampler: the k-th draw is a mid-point grid shifted by
    0.37*(k-1) interval lengths (wrapped around).  Only used inside a StaticSampler."""

    def __init__(self, lo, w, n):
        super().__init__(n_points=n)
        self.lo, self.w, self.draws = lo, w, 0

    def sample_points(self, params=Points.empty(), device="cpu", **kwargs):
        self.draws += 1
        i = torch.arange(self.n_points, dtype=torch.float32)
        frac = torch.remainder((i + 0.5) / self.n_points + 0.37 * (self.draws - 1), 1.0)
        return Points((self.lo + self.w * frac).reshape(-1, 1).to(device), R1("x"))


def _fn_value(fs, x, t):
    """The data function of spec `fs` computed by the harness (float32 like the library)."""
    return fs["a"] * x * x + fs["b"] * t + fs["c"]


def _make_fn(fs):
    a, b, c = fs["a"], fs["b"], fs["c"]
    TD = torch.tensor([[fs["td"]]])

    def f(x, t=TD):
        return a * x * x + b * t + c
    return f


def _make_res(rs, family, spy, rows):
    """`rows` receives the shape of the first argument of every call (the number of points the
    condition worked on), `spy` the data the periodic residual was given."""
    c, deriv = rs["c"], rs["deriv"]
    W = [0.5, 2.0] if rs["mut"] == "list" else torch.tensor([0.5, 2.0])
    DF, DG, DD = torch.tensor([[0.3]]), torch.tensor([[-0.7]]), torch.tensor([[1.5]])
    if family == "single":
        def res(u, x, f=DF, g=DG, D=DD, w=W):
            rows.append(list(u.shape))
            out = u - c * x + f * D - w[0] * g * x + w[1]
            if deriv:
                out = out + 0.25 * tp_grad(u, x)
            return out
    elif family == "hpm":
        def res(x, f=DF, g=DG, D=DD, w=W):
            rows.append(list(x.shape))
            return c * x * x + f * D - w[0] * g + w[1] * x
    elif family == "integro":
        def res(u, u_integral, x, x_integral, f=DF, g=DG, D=DD, w=W):
            rows.append(list(u.shape) + list(u_integral.shape))
            n = u.shape[0]
            ui = (u_integral * x_integral).mean(dim=1).reshape(n, -1)
            return (u.reshape(n, -1) - c * ui + f.reshape(-1, 1) * D
                    - w[0] * g.reshape(-1, 1) + w[1] * x.reshape(n, -1))
    elif family == "periodic":
        def res(u_left, u_right, f_left=DF, f_right=DF, g_left=DG, g_right=DG, D=DD, w=W):
            rows.append(list(u_left.shape))
            spy.append({"f_left": None if f_left is DF else f_left.detach().clone(),
                        "f_right": None if f_right is DF else f_right.detach().clone(),
                        "g_left": None if g_left is DG else g_left.detach().clone(),
                        "g_right": None if g_right is DG else g_right.detach().clone()})
            return (u_left - c * u_right + f_left * D - 2.0 * f_right + w[0] * g_left
                    - w[1] * g_right)
    else:
        def res(u, x, fin, f=DF, g=DG, D=DD, w=W):
            rows.append(list(u.shape))
            out = u - c * fin + f * D - w[0] * g * x + w[1]
            if deriv:
                out = out + 0.25 * tp_grad(u, x)
            return out
    return res


def _snap_default(v):
    if isinstance(v, torch.Tensor):
        return ("tensor", v.detach().clone())
    if isinstance(v, list):
        return ("list", list(v))
    return ("other", v)


def _default_changed(v, snap):
    if snap[0] == "tensor":
        return not (isinstance(v, torch.Tensor) and v.shape == snap[1].shape
                    and torch.equal(v.detach(), snap[1]))
    if snap[0] == "list":
        return not (isinstance(v, list) and v == snap[1])
    return v is not snap[1]


class _Pool:
    """Lazily built user objects of one pool spec.  `audit=True` records snapshots of every user
    container so that `audit()` can tell whether the library modified one."""

    def __init__(self, spec, audit=False):
        self.p, self.rng = spec["pool"], int(spec["rng"])
        self.cache = {}
        self.keep_audit = audit
        self.audits = []          # callables -> list of (kind, feature, detail)
        self.spies = {}           # residual index -> list filled by the periodic residual
        self.rows = {}            # residual index -> shapes seen by the residual, one per call

    # ---- index resolution ----------------------------------------------------------------
    def n(self, typ):
        return {"xdom": len(self.p["xdoms"]), "sampler": len(self.p["samplers"]),
                "fn": len(self.p["fns"]), "dict": len(self.p["dicts"]),
                "param": len(self.p["params"]), "res": len(self.p["res"]),
                "model": self.p["n_models"], "xtmodel": 1, "don": len(self.p["dons"]),
                "fs": len(self.p["fss"]), "tdom": 1, "fspace": 1,
                "base": len(self.p["samplers"]), "tsampler": 4}[typ]

    def sampler_spec(self, i):
        i = i % self.n("sampler")
        s = dict(self.p["samplers"][i])
        if s["kind"] == "seq":
            s["static"], s["R"] = True, None
        if s["kind"] == "rand" and i == 0:
            s["kind"] = "grid"       # sampler #0 is never random (DeepONet discretisation)
        s["dom"] = s["dom"] % self.n("xdom")
        s.setdefault("e", 2.0)
        return s

    def disc_index(self, don):
        """The pool sampler a DeepONet's branch net is discretised on: never a random one (a
        legitimately skipped branch evaluation would keep the points of an earlier draw)."""
        ok = [j for j in range(self.n("sampler")) if self.sampler_spec(j)["kind"] != "rand"]
        return ok[self.p["dons"][don % self.n("don")]["disc"] % len(ok)]

    def get(self, typ, i=0, sub=None):
        i = i % self.n(typ)
        key = (typ, i) if sub is None else (typ, i, sub)
        if key not in self.cache:
            self.cache[key] = getattr(self, "_build_" + typ)(i) if sub is None \
                else getattr(self, "_build_" + typ)(i, sub)
        return self.cache[key]

    # ---- builders -----------------------------------------------------------------------
    def _build_xdom(self, i):
        lo, w = self.p["xdoms"][i]
        return Interval(R1("x"), lo, lo + w)

    def _build_tdom(self, i):
        lo, w = self.p["tdom"]
        return Interval(R1("t"), lo, lo + w)

    def _build_tsampler(self, m):
        """The partner of a product sampler: m grid points in the t-interval."""
        return GridSampler(self.get("tdom", 0), n_points=max(m, 1))

    def _build_sampler(self, i):
        """What a condition is given: the raw sampler or ONE StaticSampler wrapper of it."""
        s, smp = self.sampler_spec(i), self.get("base", i)
        if s["static"]:
            smp = smp.make_static() if s["R"] is None else smp.make_static(s["R"])
        return smp

    def _build_base(self, i):
        """The raw (never static) sampler object #i; also the first factor of product samplers."""
        s = self.sampler_spec(i)
        lo, w = self.p["xdoms"][s["dom"]]
        if s["kind"] == "grid":
            smp = GridSampler(self.get("xdom", s["dom"]), n_points=s["n"])
        elif s["kind"] == "exp":
            smp = ExponentialIntervalSampler(self.get("xdom", s["dom"]), s["n"], s["e"])
        elif s["kind"] == "rand":
            smp = RandomUniformSampler(self.get("xdom", s["dom"]), n_points=s["n"])
        elif s["kind"] == "seq":
            smp = SeqSampler(lo, w, s["n"])
        else:
            j = torch.arange(1, s["n"] + 1, dtype=torch.float32)
            user = {"x": (lo + w * torch.remainder(j * 0.618, 1.0)).reshape(-1, 1)}
            if self.keep_audit:
                ref, val = user["x"], user["x"].clone()

                def check(user=user, ref=ref, val=val):
                    if list(user.keys()) != ["x"] or user["x"] is not ref \
                            or not torch.equal(ref, val) or ref.requires_grad:
                        return [("user-container-modified", "data-sampler-points",
                                 f"the dict given to DataSampler #{i} was changed")]
                    return []
                self.audits.append(check)
            smp = DataSampler(user)
        return smp

    def _build_fn(self, i):
        fs = self.p["fns"][i]
        raw = _make_fn(fs)
        obj = UserFunction(raw) if fs["wrap"] else raw
        if self.keep_audit:
            d0 = raw.__defaults__
            snap = [_snap_default(v) for v in d0]
            wrap_snap = (dict(obj.defaults), list(obj.args)) if fs["wrap"] else None

            def check():
                bad = raw.__defaults__ is not d0 or any(_default_changed(v, s)
                                                        for v, s in zip(d0, snap))
                if wrap_snap is not None:
                    bad = bad or obj.fun is not raw or list(obj.args) != wrap_snap[1] \
                        or list(obj.defaults.keys()) != list(wrap_snap[0].keys()) \
                        or any(obj.defaults[k] is not wrap_snap[0][k] for k in wrap_snap[0])
                return [("user-function-modified", "data-function",
                         f"data function #{i} (defaults / wrapper state) was changed")] if bad else []
            self.audits.append(check)
        return obj

    def _build_dict(self, i):
        return {name: self.get("fn", j) for name, j in self.p["dicts"][i]}

    def _build_param(self, i):
        init = self.p["params"][i]
        par = Parameter(init, R1("D"))
        if self.keep_audit:
            def check():
                t = par.as_tensor
                if t.shape != (1, 1) or float(t.detach()[0, 0]) != float(torch.tensor(init)) \
                        or not t.requires_grad:
                    return [("user-parameter-modified", "value",
                             f"Parameter #{i} (init {init}) is now {t.detach().tolist()}")]
                return []
            self.audits.append(check)
        return par

    def _build_res(self, i, family):
        spy = self.spies.setdefault(i, [])
        fn = _make_res(self.p["res"][i], family, spy, self.rows.setdefault(i, []))
        if self.keep_audit:
            d0 = fn.__defaults__
            snap = [_snap_default(v) for v in d0]

            def check():
                if fn.__defaults__ is not d0 or any(_default_changed(v, s)
                                                    for v, s in zip(d0, snap)):
                    return [("user-function-modified", "residual-default",
                             f"a default argument object of residual #{i}/{family} was changed")]
                return []
            self.audits.append(check)
        return fn

    def _randomise(self, module, salt):
        gen = torch.Generator().manual_seed((self.rng + 7919 * salt) % (2 ** 31))
        with torch.no_grad():
            for prm in module.parameters():
                prm.copy_(torch.randn(prm.shape, generator=gen) * 0.7)
        return module

    def _build_model(self, i):
        return self._randomise(FCN(R1("x"), R1("u"), hidden=(3,)), 1 + i)

    def _build_xtmodel(self, i):
        return self._randomise(FCN(R1("x") * R1("t"), R1("u"), hidden=(3,)), 11 + i)

    def _build_fspace(self, i):
        return FunctionSpace(self.get("xdom", 0), R1("fin"))

    def _build_don(self, i):
        disc = self.get("sampler", self.disc_index(i))
        trunk = FCTrunkNet(R1("x"), hidden=(3,))
        branch = FCBranchNet(self.get("fspace"), disc, hidden=(3,))
        return self._randomise(DeepONet(trunk, branch, R1("u"), output_neurons=4), 21 + i)

    def _build_fs(self, i):
        f = self.p["fss"][i]
        sh = f["sh"]
        ksampler = GridSampler(Interval(R1("k"), f["lo"], f["lo"] + f["w"]), n_points=f["n"])
        return CustomFunctionSet(self.get("fspace"), ksampler, lambda k, x: k * x + sh)

    # ---- audit --------------------------------------------------------------------------
    def watch_dict(self, d, label):
        snap = list(d.items())

        def check():
            keys_now = list(d.keys())
            if keys_now != [k for k, _ in snap]:
                return [("user-dict-modified", "data_functions",
                         f"{label}: keys {[k for k, _ in snap]} became {keys_now}")]
            for k, v in snap:
                if d[k] is not v:
                    return [("user-dict-modified", "data_functions",
                             f"{label}: value under '{k}' was {type(v).__name__}, the dict now "
                             f"holds another object ({type(d[k]).__name__} wrapping "
                             f"{type(getattr(d[k], 'fun', None)).__name__})")]
            return []
        self.audits.append(check)

    def audit(self):
        out = []
        for chk in self.audits:
            out.extend(chk())
        return out

    def model_states(self):
        return {k: {n: t.detach().clone() for n, t in m.state_dict().items()}
                for k, m in self.cache.items() if k[0] in ("model", "xtmodel", "don")}


def _default_state(d):
    if isinstance(d, dict):
        return ("dict", list(d.items()))
    if isinstance(d, Points):
        return ("points", tuple(d._t.shape), list(d.space.keys()), d._t.detach().clone().tolist())
    if isinstance(d, PointSampler):     # behaviour only: kind, static flag, length
        try:
            n = len(d)
        except Exception:   # noqa: BLE001
            n = None
        return ("sampler", type(d).__name__, bool(d.is_static), n)
    return None


def _ctor_defaults(cls):
    return {name: prm.default for name, prm in inspect.signature(cls.__init__).parameters.items()
            if _default_state(prm.default) is not None}


# state of the mutable constructor defaults when this module is imported (before any case ran)
_CTOR_SNAP = {cls: {name: (d, _default_state(d)) for name, d in _ctor_defaults(cls).items()}
              for cls in set(CLASSES.values())}


def _ctor_defaults_changed(cls):
    out = []
    now = _ctor_defaults(cls)
    for name, (obj, state) in _CTOR_SNAP[cls].items():
        if now.get(name) is not obj or _default_state(obj) != state:
            out.append((name, f"{cls.__name__}.__init__ default argument '{name}' changed: "
                              f"{state} -> {_default_state(now.get(name))}"))
    return out


# =========================================================================================
# building one condition from a pool
# =========================================================================================
class _Plan:
    """A construct op resolved against the pool spec: which objects, by key."""


def _plan(op, pool, spec, order):
    p = _Plan()
    kind = op["kind"]
    theme = spec.get("theme")
    if theme == "deeponet" and kind not in ("pinn", "adaptive", "deeponet"):
        kind = "deeponet"      # several DeepONet conditions next to the PINN-type ones
    elif theme == "periodic" and kind not in ("pinn", "adaptive", "periodicA", "periodicB"):
        kind = "periodicB" if op["model"] % 2 else "periodicA"
    si = op["sampler"] % pool.n("sampler")
    if kind == "adaptive":
        statics = [j for j in range(pool.n("sampler")) if pool.sampler_spec(j)["static"]]
        if statics:
            si = statics[op["sampler"] % len(statics)]
        else:
            kind = "pinn"
    # product sampler `base #si * GridSampler(t, m)`: the first factor must honour the partner
    # rows it is given (grid / exponential / random; DataSampler prints, SeqSampler ignores them)
    p.prod = 0
    if kind in PROD_KINDS and int(op.get("prod", 0)) > 0:
        cand = [j for j in range(pool.n("sampler"))
                if pool.sampler_spec(j)["kind"] in PROD_FACTORS
                and (kind != "adaptive" or pool.sampler_spec(j)["static"])]
        if cand:
            si = si if si in cand else cand[op["sampler"] % len(cand)]
            p.prod = int(op["prod"])
    p.kind, p.family, p.order = kind, FAMILY[kind], order
    p.sampler = si
    p.sampler2 = op["sampler2"] % pool.n("sampler")
    sspec = pool.sampler_spec(si)
    p.static = sspec["static"] and kind != "periodicA"
    p.skind = sspec["kind"]
    # a shared StaticSampler around a random sampler keeps the points of whoever drew first (or
    # resampled last): only the number of rows is comparable with the isolated twin.  The static
    # wrapper of a product sampler is the condition's own, so it draws when its twin does.
    s2 = pool.sampler_spec(p.sampler2)
    p.free_points = (kind != "periodicA" and not p.prod and p.static and p.skind == "rand") or \
        (kind == "integro" and s2["static"] and s2["kind"] == "rand")
    p.repeatable = p.static and not (p.skind == "rand" and sspec["R"] is not None) and not \
        (kind == "integro" and s2["kind"] == "rand" and not (s2["static"] and s2["R"] is None))
    p.dict = op["dict"] % pool.n("dict") if op["dict"] >= 0 else None
    if kind == "periodicB" and p.static and spec.get("skip_d19"):
        p.dict = None
    p.param = op["param"] % pool.n("param") if op["param"] >= 0 and pool.n("param") else None
    p.res = op["res"] % pool.n("res")
    p.dom = op["dom"] % pool.n("xdom")
    p.model = op["model"] % (pool.n("don") if kind == "deeponet" else
                             1 if kind == "periodicB" or p.prod else pool.n("model"))
    p.fs = op["fs"] % pool.n("fs")
    p.own_dict = bool(spec.get("own_dicts"))
    p.names = [nm for nm, _ in pool.p["dicts"][p.dict]] if p.dict is not None else []
    # ---- keys of the user objects this condition touches -----------------------------------
    uses = {("residual", p.res, p.family)}
    if kind != "periodicA":
        if p.prod:
            uses.add(("sampler", "t", p.prod))
            uses.add(("domain", "t", 0))
        else:
            uses.add(("sampler", si))
        uses.add(("sampler", "base", si))
        uses.add(("domain", "x", sspec["dom"]))
    if kind == "integro":
        uses.add(("sampler", p.sampler2))
        uses.add(("sampler", "base", p.sampler2))
        uses.add(("domain", "x", pool.sampler_spec(p.sampler2)["dom"]))
    if kind == "periodicA":
        uses.add(("domain", "x", p.dom))
        uses.add(("defaults", "non_periodic_sampler"))
    if kind == "periodicB":
        uses.add(("domain", "t", 0))
    if kind == "deeponet":
        uses.add(("model", "don", p.model))
        uses.add(("fs", p.fs))
        dsi = pool.disc_index(p.model)
        uses.add(("sampler", dsi))
        uses.add(("sampler", "base", dsi))
        uses.add(("domain", "x", pool.sampler_spec(dsi)["dom"]))
        uses.add(("domain", "x", 0))
    elif kind == "periodicB" or p.prod:
        uses.add(("model", "xt", 0))
    else:
        uses.add(("model", "x", p.model))
    if p.dict is None:
        uses.add(("defaults", "data_functions"))
    else:
        uses.add(("dict", p.dict, order) if p.own_dict else ("dict", p.dict))
        for _, j in pool.p["dicts"][p.dict]:
            uses.add(("fn", j % pool.n("fn")))
    if p.param is None:
        uses.add(("defaults", "parameter"))
    else:
        uses.add(("parameter", p.param))
    p.uses = uses
    p.has_data = bool(p.names)
    return p


def _build(p, pool, watch, seed):
    """Construct the condition described by plan `p` from the objects of `pool`.  All pool objects
    are fetched (built) first, then torch's RNG is seeded, then the library constructor runs."""
    args, kw = _build_args(p, pool, watch)
    torch.manual_seed(seed)
    if p.kind == "single":
        return SingleModuleCondition(*args, SquaredError(), reduce_fn=torch.sum, **kw)
    return CLASSES[p.kind](*args, **kw)


def _build_args(p, pool, watch):
    kw = {}
    if p.dict is not None:
        d = pool.get("dict", p.dict)
        if p.own_dict:
            d = dict(d)
        if watch:
            pool.watch_dict(d, f"dict #{p.dict} given to condition {p.order} ({p.kind})")
        kw["data_functions"] = d
    if p.param is not None:
        kw["parameter"] = pool.get("param", p.param)
    res = pool.get("res", p.res, p.family)
    kw["name"] = f"c{p.order}"
    k = p.kind
    if k == "deeponet":
        return (pool.get("don", p.model), pool.get("fs", p.fs), pool.get("sampler", p.sampler),
                res), kw
    if k == "periodicA":
        return (pool.get("model", p.model), pool.get("xdom", p.dom), res), kw
    if k == "periodicB":
        kw["non_periodic_sampler"] = pool.get("sampler", p.sampler)
        return (pool.get("xtmodel", 0), pool.get("tdom", 0), res), kw
    if p.prod:
        # the shared raw sampler as the first factor; the product (and its static wrapper) is new
        model, sspec = pool.get("xtmodel", 0), pool.sampler_spec(p.sampler)
        sampler = pool.get("base", p.sampler) * pool.get("tsampler", p.prod)
        if sspec["static"]:
            sampler = sampler.make_static() if sspec["R"] is None else \
                sampler.make_static(sspec["R"])
    else:
        model, sampler = pool.get("model", p.model), pool.get("sampler", p.sampler)
    if k == "integro":
        return (model, sampler, res, pool.get("sampler", p.sampler2)), kw
    return (model, sampler, res), kw


class _Cond:
    pass


def _shares(a, b):
    """channels through which plans a and b share an object"""
    common = a.uses & b.uses
    return {key[0] for key in common}


def _data_tables(cond):
    out = []
    for name in ("data_functions", "left_data_functions", "right_data_functions"):
        d = getattr(cond, name, None)
        if isinstance(d, dict):
            out.append(d)
    return out


def _tables_differ(real, twin):
    """Diagnosis only (never the verdict): does the condition's own table name -> wrapped or
    pre-evaluated data function (the state named in the property's anchors) differ in kind or
    content from its isolated twin's?  None if the tables cannot be found."""
    tr, tt = _data_tables(real), _data_tables(twin)
    if not tr or len(tr) != len(tt):
        return None
    for dr, dt in zip(tr, tt):
        if list(dr) != list(dt):
            return True
        for k in dr:
            fr, ft = getattr(dr[k], "fun", dr[k]), getattr(dt[k], "fun", dt[k])
            if isinstance(fr, torch.Tensor) != isinstance(ft, torch.Tensor):
                return True
            if isinstance(fr, torch.Tensor) and (fr.shape != ft.shape or not torch.equal(fr, ft)):
                return True
    return False


def _attribution(c, conds, stale_branch=False):
    """The sharing channel that can explain a deviation of condition c from its twin."""
    others = [o for o in conds if o is not c]
    dkey = next((k for k in c.plan.uses if k[0] == "dict"), None)
    if dkey is not None and any(dkey in o.plan.uses for o in others):
        differ = _tables_differ(c.real, c.twin) if getattr(c, "real", None) is not None else None
        if differ is None or differ:
            # D14 pattern: a static-sampler condition pre-evaluated into the shared dict
            both = "+deeponet-stale-branch" if c.plan.kind == "deeponet" and stale_branch else ""
            if any(dkey in o.plan.uses and o.plan.static
                   and (not c.plan.static or o.order < c.order) for o in others):
                return "shared-dict" + both
            return "shared-dict-without-static-writer" + both
    if c.plan.kind == "deeponet" and stale_branch:
        return "deeponet-stale-branch"
    chans = set()
    for o in others:
        chans |= _shares(c.plan, o.plan)
    for ch in CHANNELS[1:]:      # a shared dict whose tables are intact explains nothing
        if ch in chans:
            return "shared-" + ch if ch != "defaults" else "shared-ctor-defaults"
    return "nothing-shared"


def _scalar(v):
    if isinstance(v, torch.Tensor) and v.numel() == 1:
        return float(v.detach().reshape(()))
    return None


def _close(a, b):
    if a != a and b != b:
        return True
    if a != a or b != b:
        return False
    if a in (float("inf"), float("-inf")) or b in (float("inf"), float("-inf")):
        return a == b
    return abs(a - b) <= 1e-6 * max(abs(a), abs(b)) + 1e-9


# =========================================================================================
# the interpreter
# =========================================================================================
def run_case(spec, ctx):
    pool = _Pool(spec, audit=True)
    conds = []                 # every construct attempt that ran library code (alive or dead)
    classes = {"it:" + spec["it_mode"], "theme:" + str(spec.get("theme"))}
    if spec.get("own_dicts"):
        classes.add("own-dicts")
    reported = set()
    stats = {"evals": 0, "max_abs_diff": 0.0, "spy_checks": 0, "constructs": 0, "row_checks": 0,
             "seeds": 0}

    def next_seed():
        """One torch seed per library call pair (twin, real): both start from the same RNG state."""
        stats["seeds"] += 1
        return (int(spec["rng"]) + 7907 * stats["seeds"]) % (2 ** 31 - 1)
    step = {"counter": 0, "last": {}}
    branch_of = {}             # DeepONet index -> function-set index its branch output belongs to
    used_classes = set()

    def once(kind, feature, detail):
        if (kind, feature) not in reported:
            reported.add((kind, feature))
            ctx.violation(kind, feature, detail)

    def guarded(label, feature, fn):
        """(True, value) or (False, None) after a crash violation was recorded."""
        before = ctx.inconclusive
        try:
            with ctx.lib(label, feature=feature):
                return True, fn()
        except CaseAborted:
            if ctx.inconclusive != before:
                raise
            return False, None

    def audit(where):
        for kind, feature, detail in pool.audit():
            once(kind, feature, f"after {where}: {detail}")
        for cls in used_classes:
            for name, detail in _ctor_defaults_changed(cls):
                once("ctor-default-modified", name, f"after {where}: {detail}")

    def iso_feature(p):
        return p.family + ("-static" if p.static else "") + ("-data" if p.has_data else "") + \
            ("-prod" if p.prod else "")

    # ---- construct ------------------------------------------------------------------------
    def construct(op, pos):
        order = len(conds)
        p = _plan(op, pool, spec, order)
        c = _Cond()
        c.plan, c.order, c.alive, c.first, c.n_eval = p, order, False, None, 0
        c.real = c.twin = None
        c.twin_pool = _Pool(spec)
        used_classes.add(CLASSES[p.kind])
        stats["constructs"] += 1
        classes.add("kind:" + p.kind)
        classes.add("static" if p.static else "non-static")
        if p.has_data:
            classes.add("static+data" if p.static else "non-static+data")
        if p.kind != "periodicA":
            classes.add("sampler:" + p.skind + ("-static" if p.static else ""))
        if p.prod:
            classes.add("prod:m>1" if p.prod > 1 else "prod:m=1")
        seed = next_seed()
        ok, c.twin = guarded(f"op {pos}: construct isolated {p.kind}", iso_feature(p),
                             lambda: _build(p, c.twin_pool, False, seed))
        if not ok:
            classes.add("isolated-crash")
            # keep the side effects of the real construction on the shared objects
            try:
                _build(p, pool, True, seed)
            except Exception:   # noqa: BLE001 - already reported on the isolated twin
                pass
            conds.append(c)
            return
        c.alive = True       # provisional, so that the attribution sees the sharing partners
        conds.append(c)
        ok, c.real = guarded(f"op {pos}: construct {p.kind} #{order} on shared objects",
                             _attribution(c, conds),
                             lambda: _build(p, pool, True, seed))
        if not ok:
            c.alive = False
            classes.add("shared-crash")

    # ---- evaluate -------------------------------------------------------------------------
    def evaluate(c, mode, pos):
        p = c.plan
        if mode == "step":
            if step["last"].get(c.order) == step["counter"]:
                step["counter"] += 1
            it = step["counter"]
            step["last"][c.order] = it
            kw = {"iteration": it}
        else:
            kw = {}
        seed = next_seed()
        twin_rows = c.twin_pool.rows.get(p.res, [])
        n_twin_rows = len(twin_rows)

        def call(cond):
            torch.manual_seed(seed)
            return cond(**kw)
        ok, tv = guarded(f"op {pos}: evaluate isolated twin of #{c.order} ({p.kind})",
                         iso_feature(p), lambda: call(c.twin))
        if not ok:
            c.alive = False
            classes.add("isolated-crash")
            return
        # diagnosis for the signature only: will DeepONet._forward_branch skip the branch
        # evaluation although the model's stored branch output belongs to another function set?
        stale, will_skip = False, None
        if p.kind == "deeponet":
            cur = getattr(pool.get("fs", p.fs), "current_iteration_num", _MISSING)
            if cur is _MISSING:
                stale = any(o is not c and o.plan.kind == "deeponet"
                            and (o.plan.model == p.model) != (o.plan.fs == p.fs) for o in conds)
            else:
                will_skip = cur == kw.get("iteration")
                stale = will_skip and branch_of.get(p.model) != p.fs
        attr = _attribution(c, conds, stale)
        if stale:
            classes.add("deeponet-stale-branch-expected")
        n_spy = len(pool.spies.get(p.res, []))
        real_rows = pool.rows.get(p.res, [])
        n_real_rows = len(real_rows)
        ok, rv = guarded(f"op {pos}: evaluate #{c.order} ({p.kind}, iteration={kw.get('iteration')})",
                         attr, lambda: call(c.real))
        if will_skip is False:
            branch_of[p.model] = p.fs
        if not ok:
            c.alive = False
            classes.add("shared-crash")
            return
        stats["evals"] += 1
        c.n_eval += 1
        # the number of points the residual saw (comparable for every sampler kind)
        stats["row_checks"] += 1
        got_rows, want_rows = real_rows[n_real_rows:], twin_rows[n_twin_rows:]
        if got_rows != want_rows:
            # same signature as a deviating loss: one root cause, one signature
            once("twin-mismatch", attr,
                 f"op {pos}: the residual of condition #{c.order} ({p.kind}, sampler #{p.sampler} "
                 f"{p.skind}{'-static' if p.static else ''}, prod={p.prod}) was called with shapes "
                 f"{got_rows}, the one of its isolated twin with {want_rows}")
        a, b = _scalar(rv), _scalar(tv)
        if a is None or b is None:
            once("loss-shape", p.family,
                 f"op {pos}: condition #{c.order} ({p.kind}) returned {type(rv).__name__} "
                 f"{tuple(getattr(rv, 'shape', ()))}, twin {tuple(getattr(tv, 'shape', ()))}")
            c.alive = False
            return
        if a == a and b == b and abs(a) != float("inf") and abs(b) != float("inf"):
            stats["max_abs_diff"] = max(stats["max_abs_diff"], abs(a - b))
        if p.free_points:
            classes.add("rows-only(shared static random sampler)")
        elif not _close(a, b):
            partners = sorted(o.order for o in conds
                              if o is not c and _shares(c.plan, o.plan) - {"defaults"})
            once("twin-mismatch", attr,
                 f"op {pos}: condition #{c.order} ({p.kind}, {'static' if p.static else 'non-static'} "
                 f"sampler #{p.sampler}, dict {p.dict}, iteration={kw.get('iteration')}) returned "
                 f"{a!r}, its isolated twin {b!r}; shares objects with conditions {partners}")
        if p.repeatable:
            if c.first is None:
                c.first = a
                # a first value that already deviates from the twin carries its own explanation
                c.first_attr = attr if not _close(a, b) else None
            elif not _close(a, c.first):
                special = ("shared-dict", "deeponet-stale-branch",
                           "shared-dict+deeponet-stale-branch")
                why = attr if attr in special else c.first_attr if c.first_attr in special else None
                once("repeat-mismatch", "static" if why is None else "static|" + why,
                     f"op {pos}: condition #{c.order} ({p.kind}, static sampler) returned {c.first!r} "
                     f"on its first and {a!r} on evaluation {c.n_eval} without an optimisation step")
        if p.family == "periodic" and p.has_data and not p.free_points:
            check_sides(c, pos, n_spy, "|shared-dict" if attr == "shared-dict" else "", seed)

    def check_sides(c, pos, n_spy, suffix, seed):
        p = c.plan
        spy = pool.spies.get(p.res, [])
        if len(spy) <= n_spy:
            once("periodic-side", "residual-not-called", f"op {pos}: residual was not called")
            return
        got = spy[-1]
        if p.kind == "periodicA":
            lo, w = pool.p["xdoms"][p.dom]
            xs = {"left": torch.tensor([[lo]]), "right": torch.tensor([[lo + w]])}
            ts = {"left": None, "right": None}
        else:
            def fresh_points():     # forward() draws the non periodic points first
                smp = _Pool(spec).get("sampler", p.sampler)
                torch.manual_seed(seed)
                return smp.sample_points().as_tensor
            ok, probe = guarded(f"op {pos}: sample a fresh copy of sampler #{p.sampler}", "probe-sampler",
                                fresh_points)
            if not ok or not isinstance(probe, torch.Tensor) or probe.dim() != 2:
                return
            lo, w = pool.p["tdom"]
            xs = {"left": probe, "right": probe}
            ts = {"left": torch.full_like(probe, lo), "right": torch.full_like(probe, lo + w)}
        for name, j in pool.p["dicts"][p.dict]:
            fs = pool.p["fns"][j % pool.n("fn")]
            for side in ("left", "right"):
                t = ts[side] if ts[side] is not None else torch.tensor([[fs["td"]]])
                want = _fn_value(fs, xs[side], t)
                have = got.get(f"{name}_{side}")
                stats["spy_checks"] += 1
                if have is None or have.numel() != want.numel():
                    once("periodic-side", f"{side}-shape{suffix}",
                         f"op {pos}: condition #{c.order}: {name}_{side} is "
                         f"{None if have is None else tuple(have.shape)}, expected {tuple(want.shape)}")
                    continue
                err = float((have.reshape(-1) - want.reshape(-1)).abs().max())
                if not err <= 1e-6 * max(1.0, float(want.abs().max())):
                    other = _fn_value(fs, xs[side], ts["right" if side == "left" else "left"]) \
                        if ts[side] is not None else \
                        _fn_value(fs, xs["right" if side == "left" else "left"], t)
                    is_other = other.numel() == have.numel() and \
                        float((have.reshape(-1) - other.reshape(-1)).abs().max()) <= 1e-6 * \
                        max(1.0, float(other.abs().max()))
                    once("periodic-side", f"{side}-data-not-from-{side}-end{suffix}",
                         f"op {pos}: condition #{c.order} ({p.kind}, {'static' if p.static else 'non-static'}): "
                         f"{name}_{side} = {have.reshape(-1).tolist()}, data function at the {side} end = "
                         f"{want.reshape(-1).tolist()}" + (" (these are the values of the other end)"
                                                           if is_other else ""))

    # ---- history --------------------------------------------------------------------------
    def mode_of(op):
        m = spec["it_mode"]
        return op.get("it", "none") if m == "mixed" else m

    for pos, op in enumerate(spec["ops"]):
        if op["op"] == "construct" and len(conds) < MAX_CONDS:
            construct(op, pos)
            audit(f"op {pos} (construct {op['kind']})")
            continue
        live = [c for c in conds if c.alive]
        if not live:
            continue
        if op["op"] == "train_start":
            # what Solver.on_train_start does with every condition before the first step: move the
            # pre-evaluated (static) data to the training device; it must not change any value
            classes.add("train-start")
            for cc in live:
                for who, obj in (("isolated twin", cc.twin), ("condition", cc.real)):
                    ok, _ = guarded(f"op {pos}: _move_static_data of {who} #{cc.order} ({cc.plan.kind})",
                                    iso_feature(cc.plan) if who != "condition" else "train-start",
                                    lambda obj=obj: obj._move_static_data("cpu"))
                    if not ok:
                        cc.alive = False
            audit(f"op {pos} (train start)")
            continue
        c = live[op.get("c", op.get("sampler", 0)) % len(live)]
        mode = mode_of(op)
        evaluate(c, mode, pos)
        if op["op"] == "evaluate_twice" and c.alive:
            classes.add("evaluate-twice")
            evaluate(c, mode, pos)
        audit(f"op {pos} (evaluate #{c.order})")
    final_mode = "step" if spec["it_mode"] == "step" else "none"
    for c in conds:
        if c.alive:
            evaluate(c, final_mode, "final")
    audit("the final sweep")
    # models are only read by conditions
    fresh = _Pool(spec)
    for key, state in pool.model_states().items():
        ok, ref = guarded(f"rebuild {key[0]} #{key[1]}", "rebuild-model",
                          lambda: fresh.get(key[0], key[1]).state_dict())
        if not ok:
            break
        for name, t in state.items():
            if name not in ref or ref[name].shape != t.shape or not torch.equal(ref[name], t):
                once("model-weights-modified", key[0],
                     f"{key[0]} #{key[1]}: '{name}' differs from the freshly built model")
                break

    # ---- classification -------------------------------------------------------------------
    good = [c for c in conds if c.n_eval > 0]
    nontrivial = False
    for i, a in enumerate(good):
        for b in good[i + 1:]:
            ch = _shares(a.plan, b.plan) - {"defaults"}
            for x in ch:
                classes.add("share:" + x)
            if "defaults" in _shares(a.plan, b.plan):
                classes.add("share:ctor-defaults")
            if ch and ((a.plan.static and a.plan.has_data) or (b.plan.static and b.plan.has_data)):
                nontrivial = True
            for x, y in ((a, b), (b, a)):
                if x.plan.prod > 1 and ("sampler", "base", x.plan.sampler) in y.plan.uses:
                    # one sampler object: first factor of a product here, anything there
                    nontrivial = True
                    classes.add("share:product-factor|" + ("product" if y.plan.prod else "alone")
                                + ("-built-first" if y.order < x.order else "-built-later"))
    if stats["spy_checks"]:
        classes.add("periodic-sides-checked")
    if any(c.plan.static and c.n_eval >= 2 for c in conds):
        classes.add("static-repeated")
    classes.add("conds:%d" % min(len(good), 4))
    return {"nontrivial": nontrivial, "classes": sorted(classes),
            "summary": {"conditions": len(conds), "evaluated": len(good),
                        "evaluations": stats["evals"], "spy_checks": stats["spy_checks"],
                        "row_checks": stats["row_checks"],
                        "max_abs_real_minus_twin": stats["max_abs_diff"]}}
