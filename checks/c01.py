"""C01 - every sampled point lies in the domain it was sampled from (and sampling terminates)."""
import numpy as np
import torch

from vf import build, geo, refgeo as rg, sampling, specs

PROPERTY = "C01"
RULE = ("Hypothesis draws a domain expression (leaves incl. slanted/clockwise/parameter-dependent "
        "shapes, polygons with holes, convex meshes; nested + - &, Translate, Rotate; independent and "
        "dependent products; boundaries of all of these), 0-5 parameter rows, a sampling path (domain "
        "methods random/grid with n or density; RandomUniform/Grid samplers with n or density, with "
        "and without filter; static wrappers; Gaussian, LHS, exponential-interval and the two adaptive "
        "samplers over a short loss history) and n in {1,2,3,5,8,10,11,12,17,37,64,100}. Oracle: every "
        "returned row is judged by the float64 reference geometry at the parameter row it is paired "
        "with; a row is a violation only if the reference places it outside (interior) / off the "
        "boundary (boundary) by more than the tolerance; values finite; filter predicate holds; the "
        "call terminates within a budget of 4000 random draws. Non-trivial: not a plain axis-aligned "
        "parameter-free leaf and at least one judged row lies within 10% of the reference box diameter "
        "of the boundary; distinct = spec hash without rng.")
ASSUMPTIONS = ["reference geometry vf/refgeo.py (self-tested against closed forms)",
               "tolerances tol_in=2e-5*scale (interior), tol_b=1e-4*scale (boundary); undecided rows only counted",
               "domain-level grid and density sampling are driven with at most one parameter row (the way the library's own samplers drive them); ProductDomain grids are NotImplemented by design and not generated",
               "generated cut/intersection nodes keep >= 8% of their first operand (bounded rejection loops)"]
BUDGET = {"quick": {"examples": 130, "workers": 4}, "thorough": {"examples": 2000, "workers": 14}}


def strategy(tier):
    return sampling.scenario_strategy(tier)


def run_case(spec, ctx):
    E, prows, path = spec["dom"]["E"], spec["prows"], spec["path"]
    penv = build.params_env(prows)
    classes = geo.case_classes(spec) + ["path:" + path, "n%d" % spec["n"] if spec["n"] <= 3 else
                                        ("n4-10" if spec["n"] <= 10 else "n11-100" if spec["n"] <= 100 else "n>100")]
    out = sampling.run_scenario(spec, ctx)
    if out.skipped:
        ctx.event("skipped:" + out.skipped)
        return {"nontrivial": False, "classes": classes, "summary": {"skipped": out.skipped}}
    tol = geo.tolerances(E, penv)
    bdry = rg.has(E, rg.is_boundary)
    t = tol["tol_b"] if bdry else tol["tol_in"]
    top = geo.node_label(geo._strip_boundary(E) if E["t"] != "product" else E)
    feat = f"{path}|{top}"
    judged = close = outside = 0
    box = geo.space_box(E, penv)
    diam = max(float(np.max(hi - lo)) for lo, hi in box.values())
    interior = geo._strip_boundary(E)
    for c in out.calls:
        P = c["points"]
        tt = P.as_tensor
        if tt.numel() and not torch.isfinite(tt).all():
            ctx.violation("nonfinite", feat, f"{c['kind']}: {int((~torch.isfinite(tt)).sum())} non-finite entries in the sample")
            continue
        env = c["env"]
        if env is None or rg.env_len(env) == 0:
            ctx.event("rows-unpairable")      # wrong row count / missing columns: C02's business
            continue
        st = rg.status(E, env, t)
        bad = st == rg.OUT
        judged += int((st != rg.UNDECIDED).sum())
        if not bdry:
            m = rg.margin(interior, env)
            close += int(((st == rg.IN) & (m < 0.1 * diam)).sum())
        else:
            close += int((st == rg.IN).sum())
        if bad.any():
            i = int(np.where(bad)[0][0])
            outside += int(bad.sum())
            who = _blame(E, {kk: v[[i]] for kk, v in env.items()}, t)
            ctx.violation("outside-boundary" if bdry else "outside",
                          (f"{who}|{_pathclass(path)}" if "depproduct-extparams" not in getattr(out, "tag", "")
                           else f"{who}|depproduct-extparams-k2+")
                          + (("+touching:" + _contact_of(E, env, bad, t)) if "+touching" in getattr(out, "tag", "") else ""),
                          f"{c['kind']}: {bad.sum()} of {len(st)} returned rows are not "
                          f"{'on the boundary' if bdry else 'in the domain'} (tol {t:.2g}), e.g. "
                          f"{ {kk: np.round(v[i], 6).tolist() for kk, v in env.items()} }")
        if "filter" in path and hasattr(out, "filter"):
            var, axis, cval = out.filter
            viol = env[var][:, axis] > cval + 1e-6 * tol["scale"]
            if viol.any():
                ctx.violation("filter-ignored", _pathclass(path),
                              f"{viol.sum()} rows violate the filter {var}[:,{axis}] <= {cval:.6g}")
    nontrivial = (not geo.is_plain(spec)) and close > 0
    return {"nontrivial": bool(nontrivial), "classes": classes,
            "summary": {"calls": len(out.calls), "judged": judged, "close": close, "outside": outside}}


def _contact_of(E, env, bad, t):
    """operation joining the two operand boundaries a wrongly returned row lies on (D21 contact sets)."""
    for i in np.where(bad)[0][:20]:
        try:
            op = geo.contact_op(E, {kk: v[[i]] for kk, v in env.items()}, t)
        except Exception:      # noqa: BLE001 - classification only
            op = None
        if op is None:
            return "off-contact"
    return op.split("+")[0] if op else "off-contact"


def _pathclass(path):
    return path.split("#")[0]


def _blame(E, env1, tol):
    """label of the node whose own samples are already wrong, else of the top node."""
    if rg.is_boundary(E) or rg.has(E, rg.is_boundary):
        return "boundary:" + geo.node_label(geo._strip_boundary(E) if E["t"] != "product" else E)
    return geo.node_label(E)


def extra_cases(tier, seed):
    return sampling.pinned_scenarios(seed)
