"""C08 - models are row-wise functions of named variables.

A case is a JSON model tree (leaf architectures, NormalizationLayer, Sequential, Parallel), a
presentation order of the input variables, batch sizes and an rng seed.  All oracles are
metamorphic: the library model is compared with itself on re-presented data, and compositions
are compared with their parts called one by one on Points that the harness assembles itself
(torch.cat of per-variable tensors, never the library's own slicing).
"""
import math

import torch
from hypothesis import strategies as st

from torchphysics.models import (FCN, QRES, AdaptiveActivationFunction, DeepRitzNet,
                                 Harmonic_FCN, NormalizationLayer, Parallel, Polynomial_FCN,
                                 ReLUn, Sequential, Sinus)
from torchphysics.problem.domains import Circle, Interval, Parallelogram, Sphere
from torchphysics.problem.spaces import Points, Space

PROPERTY = "C08"
RULE = ("Hypothesis draws a model tree: top level one of FCN, Harmonic_FCN, Polynomial_FCN, QRES, "
        "DeepRitzNet, NormalizationLayer (product of Interval/Circle/Parallelogram/Sphere), "
        "Sequential (optional normalisation + 1-2 stages, intermediate variables possibly in "
        "another order) or Parallel (2-3 children on overlapping subsets of the inputs), nested "
        "up to depth 2; hidden sizes, per-layer or shared activations (Tanh, ReLU, Sigmoid, Sinus, "
        "ReLUn, AdaptiveActivationFunction), weights drawn from a torch.Generator seeded by the "
        "case; 1-4 input variables of dimension 1-3, a permutation of their order, N=1-12 rows, "
        "a (B,M,d) batch where every part of the model accepts one. Oracles: m(P)==m(P with "
        "variables reordered); a Points in which a required variable is dropped or replaced by "
        "a foreign one of equal dimension must raise; m(P)[i]==m(P[i]); m(P[rows permuted])=="
        "m(P)[rows permuted]; m((B,M,d))==m((B*M,d)); Sequential == stage-by-stage calls; "
        "Parallel == concatenation of the children on their own variables; output Points have "
        "the declared space/shape. Non-trivial: >=2 input variables presented in an order "
        "different from the model's, or a composition, or a rank-3 batch was compared; distinct "
        "= spec hash without the rng seed.")
ASSUMPTIONS = [
    "Polynomial_FCN (undocumented, uses len(tensor) as batch size) accepts only (N,d) batches; "
    "rank-3 batches are used only when no Polynomial_FCN is part of the model",
    "float32; |a-b| <= 1e-5*max(|a|,|b|) + 1e-6*max|m(P)|; weights are scaled by 1/sqrt(fan_in) "
    "so that outputs stay finite; a non-finite base output is counted inconclusive",
    "a float32 disagreement is reported only if the same relation also fails (1e-9 relative) on a "
    "float64 twin of the model built from the same spec and seed; if float32 and float64 values of "
    "the same expression differ by more than 1e-3 the network is ill-conditioned and the case is "
    "counted inconclusive (events f32-difference-resolved-in-f64 / inconclusive:ill-conditioned)",
    "NormalizationLayer only over independent products of Interval, Circle, counter-clockwise "
    "Parallelogram and Sphere (their bounding boxes are exact); its weights are not randomised",
    "Points construction from a tensor and a Space, Space products and Points.as_tensor are "
    "trusted (property C12); inputs are assembled with torch.cat by the harness",
    "extra (unneeded) variables in the input of a Parallel are outside the stated property and "
    "are not generated",
]
BUDGET = {"quick": {"examples": 300, "workers": 4},
          "thorough": {"examples": 4000, "workers": 14}}

LEAVES = ["FCN", "Harmonic_FCN", "Polynomial_FCN", "QRES", "DeepRitzNet"]
IN_NAMES = ["x", "y", "z", "t"]
MID_NAMES = ["p", "q", "r"]
OUT_NAMES = ["u", "v", "w"]
FOREIGN = "zz"
RTOL, AFLOOR = 1e-5, 1e-6


# ====================================================================== generator
def _quarters(lo, hi):
    return st.integers(int(lo * 4), int(hi * 4)).map(lambda i: i / 4.0)


@st.composite
def _vars(draw, names, kmin, kmax):
    k = draw(st.integers(kmin, kmax))
    chosen = list(draw(st.permutations(names)))[:k]
    return [[n, draw(st.integers(1, 3))] for n in chosen]


@st.composite
def _act(draw, inner=False):
    k = draw(st.sampled_from(["tanh", "relu", "sigmoid", "sinus", "relun"]
                             + ([] if inner else ["adaptive", "adaptive"])))
    if k == "relun":
        return {"k": k, "n": draw(st.sampled_from([1, 2, 3, 1.5]))}
    if k == "adaptive":
        return {"k": k, "inner": draw(_act(inner=True)),
                "a": draw(st.sampled_from([0.5, 1.0, 1.5])),
                "scaling": draw(st.sampled_from([1.0, 2.0, 5.0]))}
    return {"k": k}


@st.composite
def _leaf(draw, in_vars, out_vars, tier, arch=None):
    arch = arch or draw(st.sampled_from(LEAVES))
    hmax = 8 if tier == "quick" else 16
    spec = {"arch": arch, "in": [list(v) for v in in_vars], "out": [list(v) for v in out_vars],
            "g": draw(st.sampled_from([0.5, 1.0, 1.5]))}
    if arch == "DeepRitzNet":
        spec["width"] = draw(st.integers(1, hmax))
        spec["depth"] = draw(st.integers(0, 3))
        return spec
    nh = draw(st.integers(1, 3))
    if arch == "Polynomial_FCN":
        spec["degree"] = draw(st.integers(1, 3))
        spec["res"] = draw(st.booleans())
        if spec["res"]:      # the residual connection adds activations of consecutive layers
            spec["hidden"] = [draw(st.integers(1, hmax))] * nh
        else:
            spec["hidden"] = [draw(st.integers(1, hmax)) for _ in range(nh)]
        spec["act"] = [draw(_act())]
        return spec
    spec["hidden"] = [draw(st.integers(1, hmax)) for _ in range(nh)]
    spec["act"] = [draw(_act())] if draw(st.booleans()) else [draw(_act()) for _ in range(nh)]
    if arch == "Harmonic_FCN":
        spec["fmax"] = draw(st.integers(1, 3))
        spec["fmin"] = draw(st.integers(0, spec["fmax"] - 1))
    return spec


@st.composite
def _norm(draw, in_vars):
    factors = []
    for name, dim in in_vars:
        if dim == 1:
            lo = draw(_quarters(-4, 4))
            f = {"kind": "interval", "lo": lo, "hi": lo + draw(_quarters(0.5, 6))}
        elif dim == 2 and draw(st.booleans()):
            f = {"kind": "circle", "c": [draw(_quarters(-4, 4)) for _ in range(2)],
                 "r": draw(_quarters(0.5, 4))}
        elif dim == 2:
            o = [draw(_quarters(-4, 4)) for _ in range(2)]
            a, b = draw(_quarters(1, 4)), draw(_quarters(1, 4))
            s1, s2 = draw(_quarters(-0.75, 0.75)), draw(_quarters(-0.75, 0.75))
            # counter-clockwise, det = a*b - s1*s2 >= 1 - 0.5625 > 0
            f = {"kind": "parallelogram", "o": o, "c1": [o[0] + a, o[1] + s1],
                 "c2": [o[0] + s2, o[1] + b]}
        else:
            f = {"kind": "sphere", "c": [draw(_quarters(-4, 4)) for _ in range(3)],
                 "r": draw(_quarters(0.5, 4))}
        f["var"], f["dim"] = name, dim
        factors.append(f)
    return {"arch": "NormalizationLayer", "factors": factors}


@st.composite
def _seq(draw, in_vars, out_vars, depth, tier):
    stages = []
    use_norm = draw(st.booleans())
    two = draw(st.booleans()) if use_norm else True
    if use_norm:
        stages.append(draw(_norm(in_vars)))
    cur = in_vars
    if two:
        mid = draw(_vars(MID_NAMES, 1, 3))
        stages.append(draw(_model(list(draw(st.permutations(cur))), mid, depth - 1, tier)))
        cur = mid
    stages.append(draw(_model(list(draw(st.permutations(cur))), out_vars, depth - 1, tier)))
    return {"arch": "Sequential", "models": stages}


@st.composite
def _par(draw, in_vars, out_vars, depth, tier):
    n_out, k = len(out_vars), len(in_vars)
    c = draw(st.integers(2, min(3, n_out)))
    cuts = sorted(draw(st.lists(st.integers(1, n_out - 1), min_size=c - 1, max_size=c - 1,
                                unique=True)))
    bounds = [0] + cuts + [n_out]
    chunks = [out_vars[bounds[j]:bounds[j + 1]] for j in range(c)]
    member = [[draw(st.booleans()) for _ in range(k)] for _ in range(c)]
    for v in range(k):
        if not any(member[j][v] for j in range(c)):
            member[v % c][v] = True
    for j in range(c):
        if not any(member[j]):
            member[j][j % k] = True
    children = []
    for j in range(c):
        sub = [in_vars[v] for v in range(k) if member[j][v]]
        sub = list(draw(st.permutations(sub)))
        children.append(draw(_model(sub, chunks[j], depth - 1, tier)))
    return {"arch": "Parallel", "models": children}


@st.composite
def _model(draw, in_vars, out_vars, depth, tier):
    kinds = ["leaf", "leaf"]
    if depth > 0:
        kinds.append("seq")
        if len(out_vars) >= 2:
            kinds.append("par")
    kind = draw(st.sampled_from(kinds))
    if kind == "seq":
        return draw(_seq(in_vars, out_vars, depth, tier))
    if kind == "par":
        return draw(_par(in_vars, out_vars, depth, tier))
    return draw(_leaf(in_vars, out_vars, tier))


@st.composite
def _case(draw, tier):
    top = draw(st.sampled_from(LEAVES + ["NormalizationLayer", "Sequential", "Sequential",
                                         "Parallel", "Parallel"]))
    k = draw(st.sampled_from([1, 2, 2, 3, 3, 4]))
    in_vars = draw(_vars(IN_NAMES, k, k))
    out_vars = draw(_vars(OUT_NAMES, 2 if top == "Parallel" else 1, 3))
    depth = 2
    if top == "NormalizationLayer":
        model = draw(_norm(in_vars))
    elif top == "Sequential":
        model = draw(_seq(in_vars, out_vars, depth, tier))
    elif top == "Parallel":
        model = draw(_par(in_vars, out_vars, depth, tier))
    else:
        model = draw(_leaf(in_vars, out_vars, tier, arch=top))
    n = draw(st.integers(1, 12))
    return {"model": model,
            "perm": list(draw(st.permutations(list(range(k))))),
            "n": n,
            "rows": draw(st.lists(st.integers(0, n - 1), min_size=1, max_size=3, unique=True)),
            "batch3": [draw(st.integers(1, 3)), draw(st.integers(1, 5))],
            "missing": {"var": draw(st.integers(0, k - 1)),
                        "mode": draw(st.sampled_from(["drop", "rename", "rename"]))},
            "rng": draw(st.integers(0, 2 ** 31 - 1))}


def strategy(tier):
    return _case(tier)


def extra_cases(tier, seed):
    """Every leaf architecture with two swapped variables (and a rank-3 batch), one
    Sequential and one overlapping Parallel - run on every invocation."""
    base_in, base_out = [["x", 2], ["t", 1]], [["u", 1], ["v", 2]]
    tanh = [{"k": "tanh"}]

    def leaf(arch, in_vars=base_in, out_vars=base_out):
        s = {"arch": arch, "in": in_vars, "out": out_vars, "g": 1.0}
        if arch == "DeepRitzNet":
            s.update(width=5, depth=2)
        elif arch == "Polynomial_FCN":
            s.update(degree=2, res=True, hidden=[4, 4, 4], act=tanh)
        else:
            s.update(hidden=[5, 4], act=tanh)
            if arch == "Harmonic_FCN":
                s.update(fmax=2, fmin=0)
        return s

    norm = {"arch": "NormalizationLayer", "factors": [
        {"kind": "circle", "c": [1.0, 0.0], "r": 2.0, "var": "x", "dim": 2},
        {"kind": "interval", "lo": 0.0, "hi": 4.0, "var": "t", "dim": 1}]}
    models = [leaf(a) for a in LEAVES] + [
        norm,
        {"arch": "Sequential", "models": [norm, leaf("FCN", [["t", 1], ["x", 2]])]},
        {"arch": "Parallel", "models": [leaf("FCN", [["t", 1], ["x", 2]], [["u", 1]]),
                                        leaf("QRES", [["x", 2]], [["v", 2]])]},
    ]
    for i, m in enumerate(models):
        yield {"model": m, "perm": [1, 0], "n": 5, "rows": [0, 3], "batch3": [2, 3],
               "missing": {"var": 0, "mode": "rename"}, "rng": (seed * 7919 + i) % (2 ** 31)}
        yield {"model": m, "perm": [1, 0], "n": 3, "rows": [2], "batch3": [3, 1],
               "missing": {"var": 1, "mode": "drop"}, "rng": (seed * 104729 + i) % (2 ** 31)}


# ====================================================================== spec helpers
def _in_vars(spec):
    """Expected input variables {name: dim} in order of first appearance."""
    a = spec["arch"]
    if a == "NormalizationLayer":
        return {f["var"]: f["dim"] for f in spec["factors"]}
    if a == "Sequential":
        return _in_vars(spec["models"][0])
    if a == "Parallel":
        out = {}
        for c in spec["models"]:
            for n, d in _in_vars(c).items():
                out.setdefault(n, d)
        return out
    return {n: d for n, d in spec["in"]}


def _out_vars(spec):
    """Expected output variables as an ordered list of [name, dim]."""
    a = spec["arch"]
    if a == "NormalizationLayer":
        return [[f["var"], f["dim"]] for f in spec["factors"]]
    if a == "Sequential":
        return _out_vars(spec["models"][-1])
    if a == "Parallel":
        return [v for c in spec["models"] for v in _out_vars(c)]
    return [list(v) for v in spec["out"]]


def _leaf_archs(spec, acc=None):
    acc = [] if acc is None else acc
    if spec["arch"] in ("Sequential", "Parallel"):
        for c in spec["models"]:
            _leaf_archs(c, acc)
    else:
        acc.append(spec["arch"])
    return acc


def _depth(spec):
    if spec["arch"] in ("Sequential", "Parallel"):
        return 1 + max(_depth(c) for c in spec["models"])
    return 0


def _act_kinds(spec, acc):
    if spec["arch"] in ("Sequential", "Parallel"):
        for c in spec["models"]:
            _act_kinds(c, acc)
    for a in spec.get("act", ()):
        acc.add(a["k"])
        if a["k"] == "adaptive":
            acc.add("adaptive-" + a["inner"]["k"])
    return acc


def _overlap(spec):
    if spec["arch"] == "Parallel":
        seen = set()
        for c in spec["models"]:
            names = set(_in_vars(c))
            if names & seen:
                return True
            seen |= names
    if spec["arch"] in ("Sequential", "Parallel"):
        return any(_overlap(c) for c in spec["models"])
    return False


# ====================================================================== builders
def _space(var_list):
    return Space({n: d for n, d in var_list})


def _mk_act(a):
    k = a["k"]
    if k == "tanh":
        return torch.nn.Tanh()
    if k == "relu":
        return torch.nn.ReLU()
    if k == "sigmoid":
        return torch.nn.Sigmoid()
    if k == "sinus":
        return Sinus()
    if k == "relun":
        return ReLUn(a["n"])
    return AdaptiveActivationFunction(_mk_act(a["inner"]), inital_a=a["a"], scaling=a["scaling"])


def _randomise(module, gen, g):
    """Weights from the case's generator (replays exactly). 1/sqrt(fan_in) scaling keeps the
    quadratic/cubic architectures finite; adaptive slopes (0-dim) keep their constructor value."""
    with torch.no_grad():
        for name, p in module.named_parameters():
            if p.dim() == 0:
                continue
            r = torch.randn(p.shape, generator=gen)
            if name.endswith("bias") or p.dim() == 1:
                p.copy_(0.3 * r)
            elif p.dim() == 2:          # nn.Linear weight (out, in)
                p.copy_(r * (g / math.sqrt(p.shape[1])))
            else:                       # Polynomial_FCN layer (in, out, degree)
                p.copy_(r * (g / math.sqrt(p.shape[0])))


def _build(spec, gen):
    a = spec["arch"]
    if a in ("Sequential", "Parallel"):
        children = [_build(c, gen) for c in spec["models"]]
        return Sequential(*children) if a == "Sequential" else Parallel(*children)
    if a == "NormalizationLayer":
        dom = None
        for f in spec["factors"]:
            sp = Space({f["var"]: f["dim"]})
            if f["kind"] == "interval":
                d = Interval(sp, f["lo"], f["hi"])
            elif f["kind"] == "circle":
                d = Circle(sp, f["c"], f["r"])
            elif f["kind"] == "parallelogram":
                d = Parallelogram(sp, f["o"], f["c1"], f["c2"])
            else:
                d = Sphere(sp, f["c"], f["r"])
            dom = d if dom is None else dom * d
        return NormalizationLayer(dom)
    isp, osp = _space(spec["in"]), _space(spec["out"])
    if a == "DeepRitzNet":
        m = DeepRitzNet(isp, osp, width=spec["width"], depth=spec["depth"])
    else:
        acts = [_mk_act(x) for x in spec["act"]]
        if a == "Polynomial_FCN":
            m = Polynomial_FCN(isp, osp, polynomial_degree=spec["degree"],
                               hidden=tuple(spec["hidden"]), activation=acts[0],
                               res_connection=spec["res"])
        else:
            act = acts[0] if len(acts) == 1 else acts
            if a == "FCN":
                m = FCN(isp, osp, hidden=tuple(spec["hidden"]), activations=act)
            elif a == "QRES":
                m = QRES(isp, osp, hidden=tuple(spec["hidden"]), activations=act)
            else:
                m = Harmonic_FCN(isp, osp, max_frequenz=spec["fmax"], min_frequenz=spec["fmin"],
                                 hidden=tuple(spec["hidden"]), activations=act)
    # DeepRitz blocks cube twice per block: a smaller gain keeps float32 finite
    _randomise(m, gen, spec["g"] * (0.5 if a == "DeepRitzNet" else 1.0))
    return m


def _points(coords, order, cast):
    """Points assembled by the harness: per-variable tensors concatenated in `order`."""
    return Points(torch.cat([cast(coords[n]) for n, _ in order], dim=-1), _space(order))


def _declared(model, expected):
    """The model's own input order if it declares the expected variables, else None."""
    try:
        got = [[n, int(d)] for n, d in model.input_space.items()]
    except Exception:   # noqa: BLE001 - malformed attribute: reported by the caller
        return None
    if {n: d for n, d in got} != dict(expected) or len(got) != len(expected):
        return None
    return got


# ====================================================================== comparison
def _close(a, b, rtol, afloor):
    """(None | description, max |a-b|/tolerance)."""
    if tuple(a.shape) != tuple(b.shape):
        return f"shapes {tuple(a.shape)} vs {tuple(b.shape)}", float("inf")
    if a.numel() == 0:
        return None, 0.0
    a, b = a.detach().double(), b.detach().double()
    tol = torch.clamp(rtol * torch.maximum(a.abs(), b.abs()) + afloor, min=1e-300)
    ratio = (a - b).abs() / tol
    ratio = torch.where(torch.isfinite(ratio), ratio, torch.full_like(ratio, float("inf")))
    r = float(ratio.max())
    if r > 1.0:
        return f"max|a-b|={float((a - b).abs().max()):.3e} = {r:.3g} x tolerance", r
    return None, r


def _same(t):
    return t


def _to64(t):
    return t.double()


def _validate(out, expected_out, batch_shape):
    """Problems of a returned object against the declared output space; (tensor|None, msgs)."""
    if not isinstance(out, Points):
        return None, [("shape", f"model returned {type(out).__name__}, not Points")]
    t = out.as_tensor
    dim = sum(d for _, d in expected_out)
    if not isinstance(t, torch.Tensor) or tuple(t.shape) != tuple(batch_shape) + (dim,):
        return None, [("shape", f"output tensor shape {tuple(getattr(t, 'shape', ()))}, expected "
                                f"{tuple(batch_shape) + (dim,)}")]
    msgs = []
    try:
        got = [[n, int(d)] for n, d in out.space.items()]
    except Exception:   # noqa: BLE001
        got = repr(getattr(out, "space", None))
    if got != [list(v) for v in expected_out]:
        msgs.append(("out-space", f"output space {got}, declared {expected_out}"))
    return t, msgs


def _silent(out, expected_out, batch_shape, feat):
    return _validate(out, expected_out, batch_shape)[0]


def _pair(a, b):
    return None if a is None or b is None else (a, b)


def _split(t, var_list):
    coords, start = {}, 0
    for n, d in var_list:
        coords[n] = t[..., start:start + d]
        start += d
    return coords


def _resolve(root, path):
    for i in path:
        root = root.models[i]
    return root


class _Case:
    """Per-case state: the model, its lazily built float64 twin, tolerance scale, reporting."""

    def __init__(self, ctx, model, spec):
        self.ctx, self.model, self.spec = ctx, model, spec
        self._shadow = None
        self.scale = 1.0
        self.worst = 0.0
        self.ill = False
        self.reported = set()

    def strict(self, out, expected_out, batch_shape, feat):
        t, msgs = _validate(out, expected_out, batch_shape)
        for kind, msg in msgs:
            if (kind, feat) not in self.reported:      # once per case and signature
                self.reported.add((kind, feat))
                self.ctx.violation(kind, feat, msg)
        return t

    def shadow(self):
        if self._shadow is None:
            # rebuilt from the spec with the same generator seed -> identical weights
            # (copy.deepcopy cannot be used: ReLUn holds an unpicklable autograd Function)
            gen = torch.Generator().manual_seed(int(self.spec["rng"]))
            self._shadow = _build(self.spec["model"], gen).double().eval()
        return self._shadow

    def relation(self, kind, feat, what, fn, label, crash_feat=None):
        """fn(root_model, cast, chk) -> (a, b) tensors that must agree, or None when an output
        was malformed (reported by chk).  A float32 disagreement is confirmed on a float64
        copy of the model before it is reported (rounding amplified by an ill-conditioned
        network is not a violation of the property)."""
        ctx = self.ctx
        with ctx.lib(label, feature=crash_feat or feat):
            r = fn(self.model, _same, self.strict)
        if r is None:
            return True
        a, b = r
        bad, ratio = _close(a, b, RTOL, AFLOOR * self.scale)
        if math.isfinite(ratio):
            self.worst = max(self.worst, ratio)
        if bad is None:
            return True
        note = ""
        try:
            r64 = fn(self.shadow(), _to64, _silent)
        except Exception as e:      # noqa: BLE001 - the float32 verdict stands
            r64, note = None, f"; float64 re-evaluation raised {type(e).__name__}"
        if r64 is not None:
            a64, b64 = r64
            s64 = float(max(a64.abs().max(), b64.abs().max())) if a64.numel() else 0.0
            bad64, _ = _close(a64, b64, 1e-9, 1e-10 * s64)
            if bad64 is None:
                ctx.event("f32-difference-resolved-in-f64")
                return True
            drift = float((a.detach().double() - a64).abs().max()) \
                if tuple(a.shape) == tuple(a64.shape) and a.numel() else 0.0
            if not math.isfinite(drift) or not math.isfinite(s64) or drift > 1e-3 * s64:
                if not self.ill:
                    self.ill = True
                    ctx.inconclusive_case("ill-conditioned")
                return True
            note = "; float64: " + bad64
        ctx.violation(kind, feat, f"{what}: {bad} (scale {self.scale:.2e}){note}")
        return False


# ====================================================================== composition oracle
def _check_compose(case, spec, path, coords):
    """Sequential == b(a(P)) stage by stage, Parallel == concatenation of the children
    evaluated on Points holding only their own variables in their own declared order."""
    a = spec["arch"]
    if a not in ("Sequential", "Parallel"):
        return
    ctx = case.ctx
    node = _resolve(case.model, path)
    exp_in = _in_vars(spec)
    order = _declared(node, exp_in) or [[n, d] for n, d in exp_in.items()]
    shape = tuple(next(iter(coords.values())).shape[:-1])
    kids = list(getattr(node, "models", []))
    if len(kids) != len(spec["models"]):
        ctx.violation("compose", a, f"{len(kids)} sub-models kept of {len(spec['models'])}")
        return
    cin = {n: coords[n] for n in exp_in}
    kid_orders = []
    for cs, cm in zip(spec["models"], kids):
        c_exp = _in_vars(cs)
        kid_orders.append(_declared(cm, c_exp) or [[n, d] for n, d in c_exp.items()])

    def whole_vs_parts(root, cast, chk):
        nd = _resolve(root, path)
        ks = list(nd.models)
        y = chk(nd(_points(cin, order, cast)), _out_vars(spec), shape, a)
        if a == "Sequential":
            prev, ref = _points(cin, order, cast), None
            for cs, cm in zip(spec["models"], ks):
                prev = cm(prev)
                ref = chk(prev, _out_vars(cs), shape, cs["arch"])
                if ref is None:
                    return None
        else:
            parts = []
            for cs, cm, co in zip(spec["models"], ks, kid_orders):
                z = chk(cm(_points(cin, co, cast)), _out_vars(cs), shape, cs["arch"])
                if z is None:
                    return None
                parts.append(z)
            ref = torch.cat(parts, dim=-1)
        return _pair(y, ref)

    case.relation("compose", a, f"{a}(P) differs from its parts called one by one",
                  whole_vs_parts, "forward-composite")

    # inputs of the children (float32) for the recursion
    child_inputs = []
    if a == "Sequential":
        cur, prev = cin, _points(cin, order, _same)
        for idx, (cs, cm) in enumerate(zip(spec["models"], kids)):
            c_exp = _in_vars(cs)
            if set(c_exp) != set(cur) or any(cur[n].shape[-1] != d for n, d in c_exp.items()):
                # generator invariant (stages fit): a harness bug, not a library one
                raise AssertionError(f"stage input {c_exp} does not fit {list(cur)}")
            child_inputs.append(cur)
            if idx > 0:
                # A later stage gets the previous stage's output as is. Called on the same
                # values re-assembled in its own declared order it must answer the same,
                # else that stage is not a function of named variables (same signature as
                # the top-level reorder oracle: same root cause).
                def stage_order(root, cast, chk, idx=idx, cs=cs):
                    ks = list(_resolve(root, path).models)
                    p = _points(cin, order, cast)
                    for j in range(idx):
                        p = ks[j](p)
                    t = chk(p, _out_vars(spec["models"][idx - 1]), shape, spec["models"][idx - 1]["arch"])
                    if t is None:
                        return None
                    vals = _split(t, _out_vars(spec["models"][idx - 1]))
                    return _pair(chk(ks[idx](p), _out_vars(cs), shape, cs["arch"]),
                                 chk(ks[idx](_points(vals, kid_orders[idx], cast)),
                                     _out_vars(cs), shape, cs["arch"]))
                case.relation("reorder", cs["arch"],
                              f"stage {idx} of a Sequential, input in the previous stage's output "
                              f"order vs in its own declared order", stage_order, "forward-stage")
            if idx + 1 < len(kids):
                with ctx.lib("forward-stage", feature=cs["arch"]):
                    prev = cm(prev)
                t = case.strict(prev, _out_vars(cs), shape, cs["arch"])
                if t is None:
                    return
                cur = _split(t.detach(), _out_vars(cs))
    else:
        child_inputs = [{n: cin[n] for n in _in_vars(cs)} for cs in spec["models"]]
    for i, (cs, ci) in enumerate(zip(spec["models"], child_inputs)):
        _check_compose(case, cs, path + (i,), ci)


# ====================================================================== the case
def run_case(spec, ctx):
    ms = spec["model"]
    arch = ms["arch"]
    gen = torch.Generator().manual_seed(int(spec["rng"]))
    with ctx.lib("construct", feature=arch):
        model = _build(ms, gen)
    model.eval()
    case = _Case(ctx, model, spec)

    exp_in = _in_vars(ms)
    exp_out = _out_vars(ms)
    k = len(exp_in)
    order = _declared(model, exp_in)
    if order is None:
        ctx.violation("in-space", arch, f"declared input space {dict(getattr(model, 'input_space', {}))}, "
                                        f"expected variables {exp_in}")
        order = [[n, d] for n, d in exp_in.items()]
    got_out = [[n, int(d)] for n, d in model.output_space.items()]
    if got_out != exp_out:
        ctx.violation("out-space", arch + "-declared", f"declared output space {got_out}, expected {exp_out}")

    n = int(spec["n"])
    coords = {nm: 1.5 * torch.randn((n, d), generator=gen) for nm, d in order}
    perm = [int(i) % k for i in spec["perm"]]
    if sorted(perm) != list(range(k)):
        perm = list(range(k))
    presented = [order[i] for i in perm]
    permuted = presented != order

    classes = ["arch:" + arch, f"vars{k}", f"depth{_depth(ms)}"]
    if arch in ("Sequential", "Parallel"):
        classes += sorted({"sub:" + a for a in _leaf_archs(ms)})
        if _overlap(ms):
            classes.append("parallel-overlap")
    classes += sorted("act:" + a for a in _act_kinds(ms, set()))
    if permuted:
        classes.append("perm")

    def ev(root, cast, chk, c, o, shape, feat=arch):
        return chk(root(_points(c, o, cast)), exp_out, shape, feat)

    # ---- base evaluation: declared space and shape --------------------------------
    with ctx.lib("forward", feature=arch):
        y0 = ev(model, _same, case.strict, coords, order, (n,))
    if y0 is None:
        return {"nontrivial": False, "classes": classes + ["malformed-output"], "summary": {}}
    y0 = y0.detach()
    if not bool(torch.isfinite(y0).all()):
        ctx.inconclusive_case("nonfinite-output")
        return {"nontrivial": False, "classes": classes + ["nonfinite:" + arch], "summary": {}}
    case.scale = float(y0.abs().max())

    # ---- variables presented in another order -------------------------------------
    reorder_ok = True
    if permuted:
        reorder_ok = case.relation(
            "reorder", arch,
            f"variables presented as {[v[0] for v in presented]} instead of {[v[0] for v in order]}",
            lambda root, cast, chk: _pair(ev(root, cast, chk, coords, presented, (n,)),
                                          ev(root, cast, chk, coords, order, (n,))),
            "forward-reordered")

    # ---- ... and afterwards in a second, different order on the SAME model instance (a model
    # must not remember how an earlier input was ordered)
    if k >= 3:
        cands = [presented[1:] + presented[:1], presented[::-1], order[1:] + order[:1], order[::-1]]
        second = next((c for c in cands if c != order and c != presented), None)
        if second is not None:
            classes.append("second-order")
            case.relation(
                "reorder", arch,
                f"second presentation order {[v[0] for v in second]} after {[v[0] for v in presented]} "
                f"(declared {[v[0] for v in order]})",
                # the whole history is replayed on whatever model is handed in (the float64
                # confirmation uses a fresh copy, which has to see the first order as well)
                lambda root, cast, chk: (ev(root, cast, chk, coords, presented, (n,)),
                                         _pair(ev(root, cast, chk, coords, second, (n,)),
                                               ev(root, cast, chk, coords, order, (n,))))[1],
                "forward-reordered-again")

    # ---- a required variable is missing --------------------------------------------
    miss = spec["missing"]
    mv = int(miss["var"]) % k
    mode = miss["mode"] if k > 1 else "rename"
    if mode == "drop":
        m_order = [v for i, v in enumerate(order) if i != mv]
        m_coords = coords
    else:
        m_order = [[FOREIGN, v[1]] if i == mv else v for i, v in enumerate(order)]
        m_coords = dict(coords)
        m_coords[FOREIGN] = coords[order[mv][0]]
    classes.append("missing:" + mode)
    try:
        res = model(_points(m_coords, m_order, _same))
    except Exception:      # noqa: BLE001 - the contract is "rejected": any exception is a pass
        pass
    else:
        ctx.violation("missing-var", arch,
                      f"Points with variables {[v[0] for v in m_order]} ({mode} of "
                      f"'{order[mv][0]}') accepted, returned {type(res).__name__}")

    # ---- rows are mapped independently ----------------------------------------------
    rows_ok = True
    for i in sorted({int(r) % n for r in spec["rows"]}):
        if not rows_ok:
            break
        one = {nm: t[i:i + 1] for nm, t in coords.items()}

        def single(root, cast, chk, i=i, one=one):
            full = ev(root, cast, chk, coords, order, (n,))
            return _pair(ev(root, cast, chk, one, order, (1,)),
                         None if full is None else full[i:i + 1])
        rows_ok = case.relation("rows", arch, f"row {i} alone vs inside the batch of {n}",
                                single, "forward-single-row")
    rp = torch.randperm(n, generator=gen)
    if n > 1 and rows_ok:
        shuffled = {nm: t[rp] for nm, t in coords.items()}

        def rowperm(root, cast, chk):
            full = ev(root, cast, chk, coords, order, (n,))
            return _pair(ev(root, cast, chk, shuffled, order, (n,)),
                         None if full is None else full[rp])
        case.relation("rows", arch, f"rows permuted by {rp.tolist()}", rowperm,
                      "forward-rows-permuted")

    # ---- several batch axes ------------------------------------------------------------
    did_rank3 = False
    if "Polynomial_FCN" not in _leaf_archs(ms):
        b, m = (max(1, int(v)) for v in spec["batch3"])
        c3 = {nm: 1.5 * torch.randn((b, m, d), generator=gen) for nm, d in order}
        flat = {nm: t.reshape(b * m, -1) for nm, t in c3.items()}

        def rank3(root, cast, chk):
            y3 = ev(root, cast, chk, c3, order, (b, m), arch + "-rank3")
            yf = ev(root, cast, chk, flat, order, (b * m,))
            return _pair(None if y3 is None else y3.reshape(b * m, -1), yf)
        did_rank3 = True
        classes.append("rank3")
        ok3 = case.relation("rank3", arch, f"({b},{m},d) batch vs flattened ({b * m},d)", rank3,
                            "forward-rank3", crash_feat=arch + "-rank3")
        if permuted and reorder_ok and ok3:
            # same oracle and signature as the rank-2 reorder (run only when that one passed)
            case.relation("reorder", arch, f"({b},{m},d) batch, variables reordered",
                          lambda root, cast, chk: _pair(
                              ev(root, cast, chk, c3, presented, (b, m), arch + "-rank3"),
                              ev(root, cast, chk, c3, order, (b, m), arch + "-rank3")),
                          "forward-rank3-reordered", crash_feat=arch + "-rank3")

    # ---- compositions equal their parts ---------------------------------------------------
    if arch in ("Sequential", "Parallel"):
        _check_compose(case, ms, (), coords)

    nontrivial = (k >= 2 and permuted) or arch in ("Sequential", "Parallel") or did_rank3
    return {"nontrivial": bool(nontrivial), "classes": classes,
            "summary": {"n": n, "out_scale": case.scale, "worst_err_over_tol_f32": case.worst}}
