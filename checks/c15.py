"""C15 - static and adaptive samplers follow their documented state machines.

Two families of cases.

static    A history (list of op dicts) is interpreted against a pool of sampler objects and,
          in lock step, against a model of the documented state machine.  Leaves of the
          sampler graphs are either counting stubs (PointSampler subclasses whose k-th draw
          returns rows labelled (leaf, k, row)) or recording RandomUniformSamplers; both log
          every draw, so "which draw did this call return" is decided exactly.
adaptive  AdaptiveThresholdRejectionSampler / AdaptiveRandomRejectionSampler on an Interval,
          an axis-aligned Parallelogram or a Circle, driven with a sequence of loss vectors.
          The inner RandomUniformSampler is wrapped so the freshly drawn rows of every call
          are known; every returned row is classified kept / fresh / neither.
"""
import math

import torch
from hypothesis import strategies as st

from torchphysics.problem.domains import Circle, Interval, Parallelogram
from torchphysics.problem.samplers import (AdaptiveRandomRejectionSampler,
                                           AdaptiveThresholdRejectionSampler, PointSampler,
                                           RandomUniformSampler, StaticSampler)
from torchphysics.problem.spaces import Points, R1, R2

PROPERTY = "C15"
RULE = ("Static family: Hypothesis draws a history of <= 24 ops (<= 40 thorough; a sample op "
        "carries a repeat count 1-11, <= 90 calls per history; sample_points with params "
        "none/explicit-empty/1-3 rows and device omitted/'cpu'/torch.device('cpu'); next(); "
        "make_static(R) with R in {1,2,3,5,default=inf} on plain samplers (creates a "
        "StaticSampler) and on static ones (re-staticise); StaticSampler(obj,R) directly "
        "(nested static); a+b) over a pool seeded with 1-2 leaves that are counting stubs or "
        "recording RandomUniformSamplers; op targets are pool indices modulo pool size. Model: "
        "uses since last draw, cached iff cache exists and uses < R_current; after every op "
        "the returned set must equal bitwise the composition of logged leaf draws the model "
        "predicts and every leaf must have been drawn exactly as often as predicted, with the "
        "caller's params/device. Adaptive family: domain numbers, n (1-12, or 300-1500 for the "
        "frequency test) or density, ratio (dyadic or arbitrary in [0,1]), 0-3 parameter "
        "rows, optional filter, 1-8 loss vectors (small-integer levels with ties/all-equal, "
        "or arbitrary floats); oracles: row count constant, kept rows bitwise unchanged, "
        "other rows equal the recorded fresh draw and lie in the domain/filter, random "
        "variant keep frequency per relative loss level within a Hoeffding bound. "
        "Non-trivial: a static history in which some StaticSampler with finite R received "
        ">= 2R+1 sample calls or was re-staticised after its first draw and sampled again; "
        "an adaptive history with >= 3 calls and a step with both kept and replaced rows. "
        "Distinct = spec hash without the rng seed.")
ASSUMPTIONS = [
    "next() on a StaticSampler that holds a cache is a peek: it returns the cached set and does "
    "not consume one of the R uses (StaticSampler.__next__ override, "
    "tests/test_samplers.py::test_static_sampler_next); on every other sampler next() == "
    "sample_points() with default arguments (PointSampler.__iter__ docstring)",
    "a cached return ignores the params of the call (docs: 'the points are saved and will always "
    "be returned'); params/device are forwarded to the inner sampler only when it draws",
    "threshold variant: kept iff loss >= min+ratio*(max-min) (property statement; the code's "
    "'replace iff loss < threshold'); integer-level losses with dyadic ratios make the threshold "
    "exact in float32 so ties are decided exactly; for arbitrary float losses rows within "
    "1e-5*max(1,|min|,|max|) of the threshold are not judged",
    "random variant: the docstring only says 'points with high loss are more likely to be kept'; "
    "the quantitative law P(keep) = (loss-min)/(max-min) is the threshold rule with a uniform "
    "random ratio per row (DESIGN.md C15); judged with Hoeffding's inequality at alpha=1e-13 per "
    "level and case (< 1e-9 per quick run), rows with max loss / all-equal losses are kept surely",
    "loss vectors have shape (N,) float32 as produced by Condition.forward; the first call passes "
    "unreduced_loss=None; a later None is only required to return rows that are old or fresh",
    "the same params are passed on every call of an adaptive history; domains do not depend on "
    "the params (fixed-count primitives)",
    "fresh-row membership uses a float64 reference with tolerance 2e-5*scale (DESIGN 3.3)",
]
BUDGET = {"quick": {"examples": 260, "workers": 4},
          "thorough": {"examples": 2000, "workers": 14}}

RS = [1, 2, 3, 5, None]          # None = make_static() default = math.inf
ALPHA = 1e-13
MAX_POOL = 7


# =========================================================================================
# strategies
# =========================================================================================
def _w(strategy, n):
    """n weighted copies of a strategy for st.one_of (which drops identical branch objects)."""
    return [strategy.map(lambda v: v) for _ in range(n)]


def _ops_strategy(max_ops):
    obj = st.sampled_from([-1, -1, -1, -1, -1, 0, 1, 2, 3])
    R = st.sampled_from(RS)
    dev = st.sampled_from(["default", "default", "str", "obj"])
    par = st.sampled_from([0, 0, 0, -1, 1, 2, 3])
    # `times` > 1 repeats the call (device variants cycle) so that long runs on one object -
    # the ones that cross several resample boundaries - are generated and shrunk as one op
    sample = st.fixed_dictionaries({"op": st.just("sample"), "obj": obj, "params": par,
                                    "device": dev,
                                    "times": st.sampled_from([1, 1, 1, 1, 2, 3, 4, 6, 11])})
    nxt = st.fixed_dictionaries({"op": st.just("next"), "obj": obj})
    mk = st.fixed_dictionaries({"op": st.just("make_static"), "obj": obj, "R": R})
    wrap = st.fixed_dictionaries({"op": st.just("wrap_static"), "obj": obj, "R": R})
    cat = st.fixed_dictionaries({"op": st.just("concat"), "a": obj, "b": obj})
    body = st.lists(st.one_of(*_w(sample, 12), *_w(nxt, 2), *_w(mk, 3), wrap, cat),
                    min_size=1, max_size=max_ops)
    head = st.lists(st.fixed_dictionaries({"op": st.just("make_static"), "obj": st.just(0),
                                           "R": R}), max_size=1)
    return st.builds(lambda h, b: h + b, head, body)


@st.composite
def _static_case(draw, tier):
    leaf = draw(st.sampled_from(["stub", "stub", "real"]))
    spec = {"case": "static", "leaf": leaf, "n_leaves": draw(st.sampled_from([1, 1, 2]))}
    if leaf == "stub":
        spec["rows"] = draw(st.integers(1, 3))
        # draws (1-based, per leaf) on which the stub returns an empty point set
        spec["empty"] = draw(st.sampled_from([[]] * 6 + [[1], [2], [1, 3]] + [[]] * 6))
    else:
        spec["rows"] = draw(st.integers(2, 4))
        spec["dom"] = draw(st.sampled_from(["interval", "circle"]))
        spec["fixed_params"] = draw(st.sampled_from([0, 0, 1, 2]))
    spec["ops"] = draw(_ops_strategy(24 if tier == "quick" else 40))
    spec["rng"] = draw(st.integers(0, 2 ** 31 - 1))
    return spec


def _num(lo, hi):
    return st.floats(lo, hi, allow_nan=False, allow_infinity=False).map(lambda v: round(v, 2))


@st.composite
def _domain_spec(draw):
    kind = draw(st.sampled_from(["interval", "rect", "circle"]))
    if kind == "interval":
        lo = draw(_num(-10, 10))
        return {"kind": kind, "lo": lo, "hi": round(lo + draw(_num(0.3, 6)), 2)}
    if kind == "rect":
        return {"kind": kind, "o": [draw(_num(-10, 10)), draw(_num(-10, 10))],
                "w": draw(_num(0.3, 6)), "h": draw(_num(0.3, 6))}
    return {"kind": kind, "c": [draw(_num(-10, 10)), draw(_num(-10, 10))],
            "r": draw(_num(0.3, 4))}


def _volume(d):
    if d["kind"] == "interval":
        return d["hi"] - d["lo"]
    if d["kind"] == "rect":
        return d["w"] * d["h"]
    return math.pi * d["r"] ** 2


_INT_LOSS = st.fixed_dictionaries({
    "mode": st.just("int"),
    "vals": st.lists(st.integers(0, 4), min_size=1, max_size=9),
    "scale": st.sampled_from([1.0, 0.5, 8.0])})
_FLOAT_LOSS = st.fixed_dictionaries({
    "mode": st.just("float"),
    "vals": st.lists(st.floats(0, 100, allow_nan=False, width=32), min_size=1, max_size=9)})


@st.composite
def _adaptive_case(draw, tier, variant):
    dom = draw(_domain_spec())
    spec = {"case": "adaptive", "variant": variant, "domain": dom}
    big = variant == "random" and draw(st.booleans())
    use_density = (not big) and draw(st.sampled_from([False, False, True]))
    if use_density:
        want = draw(st.integers(1, 30))
        spec["density"] = round(max(0.05, (want - 0.5) / _volume(dom)), 3)
    else:
        spec["n"] = draw(st.integers(300, 1500)) if big else draw(st.integers(1, 12))
    # density + filter gives a random row count per draw (known finding) - generated rarely
    spec["filter"] = draw(st.sampled_from([False] * 4 + [True] + [False] * 4)) if use_density \
        else draw(st.sampled_from([False, False, True]))
    spec["params"] = 0 if big else draw(st.sampled_from([0, 0, 1, 2, 3]))
    if variant == "threshold":
        spec["ratio"] = draw(st.one_of(
            st.sampled_from([0.0, 0.125, 0.25, 0.5, 0.75, 1.0]),
            st.floats(0, 1, allow_nan=False).map(lambda v: round(v, 4))))
    dev = st.sampled_from(["default", "default", "str", "obj"])
    spec["first_device"] = draw(dev)
    loss = _w(_INT_LOSS, 9) + ([] if big else _w(_FLOAT_LOSS, 3))
    step = st.fixed_dictionaries({"loss": st.one_of(*loss[:6], st.none(), *loss[6:]),
                                  "device": dev})
    spec["steps"] = draw(st.lists(step, min_size=3 if big else 1, max_size=8))
    spec["rng"] = draw(st.integers(0, 2 ** 31 - 1))
    return spec


def strategy(tier):
    return st.one_of(_static_case(tier), _static_case(tier), _static_case(tier),
                     _adaptive_case(tier, "threshold"), _adaptive_case(tier, "threshold"),
                     _adaptive_case(tier, "random"))


def extra_cases(tier, seed):
    """Pinned small histories: every R with both leaf kinds crosses >= 2 resample boundaries,
    re-staticising in both directions, nested static, and threshold ties."""
    devs = ["default", "str", "obj"]
    rng = 1000 + seed % 1000

    def samples(n, obj=-1):
        return [{"op": "sample", "obj": obj, "params": [0, 2, -1][i % 3], "device": devs[i % 3]}
                for i in range(n)]

    for leaf in ("stub", "real"):
        base = {"case": "static", "leaf": leaf, "n_leaves": 1, "rows": 2, "rng": rng}
        if leaf == "stub":
            base["empty"] = []
        else:
            base.update(dom="interval", fixed_params=0)
        for R in RS:
            n = 3 * (R or 4) + 2
            yield dict(base, ops=[{"op": "make_static", "obj": 0, "R": R}] + samples(n))
        # shrink the interval below the uses already made, then enlarge it
        yield dict(base, ops=[{"op": "make_static", "obj": 0, "R": 5}] + samples(3)
                   + [{"op": "make_static", "obj": -1, "R": 2}] + samples(5)
                   + [{"op": "make_static", "obj": -1, "R": 5}] + samples(7)
                   + [{"op": "next", "obj": -1}] + samples(4))
        # nested static: outer interval 2 around inner interval 3
        yield dict(base, ops=[{"op": "make_static", "obj": 0, "R": 3},
                              {"op": "wrap_static", "obj": -1, "R": 2}] + samples(14)
                   + samples(3, obj=1) + samples(4))
    for ratio in (0.0, 0.5, 1.0):
        for vals in ([0, 1, 2, 3, 4], [2, 2, 2], [0, 4, 4, 0, 2]):
            step = {"loss": {"mode": "int", "vals": vals, "scale": 1.0}, "device": "default"}
            yield {"case": "adaptive", "variant": "threshold", "n": 10, "filter": False,
                   "params": 0, "ratio": ratio, "first_device": "default",
                   "domain": {"kind": "interval", "lo": 0.0, "hi": 1.0},
                   "steps": [step, step, step], "rng": rng}
    step = {"loss": {"mode": "int", "vals": [0, 1, 2, 3, 4], "scale": 1.0}, "device": "default"}
    yield {"case": "adaptive", "variant": "random", "n": 1000, "filter": False, "params": 0,
           "first_device": "default", "domain": {"kind": "circle", "c": [1.0, -2.0], "r": 1.5},
           "steps": [step] * 6, "rng": rng}


# =========================================================================================
# helpers
# =========================================================================================
def _snap(points):
    """(space signature, detached clone) of a Points object."""
    return (tuple((k, points.space[k]) for k in points.space.keys()),
            points.as_tensor.detach().clone())


def _same(a, b):
    return a[0] == b[0] and a[1].shape == b[1].shape and torch.equal(a[1], b[1])


def _params(k):
    if k <= 0:
        return None
    return Points(torch.arange(1, k + 1, dtype=torch.float32).reshape(k, 1) * 0.5, R1("p"))


def _call_kwargs(k, device):
    kw = {}
    if k == -1:
        kw["params"] = Points.empty()
    elif k > 0:
        kw["params"] = _params(k)
    if device == "str":
        kw["device"] = "cpu"
    elif device == "obj":
        kw["device"] = torch.device("cpu")
    return kw


def _devtype(d):
    try:
        return torch.device(d).type
    except Exception:   # noqa: BLE001
        return repr(d)


def _is_points(x):
    return isinstance(x, Points) and isinstance(getattr(x, "_t", None), torch.Tensor) \
        and x._t.dim() == 2


DEVS = ["default", "str", "obj"]
MAX_CALLS = 90


def _expand(ops):
    """Unroll `times` of sample ops (device variants cycle); at most MAX_CALLS observations."""
    out, calls = [], 0
    for op in ops:
        if op["op"] == "sample":
            start = DEVS.index(op["device"])
            for i in range(op.get("times", 1)):
                if calls < MAX_CALLS:
                    out.append(dict(op, device=DEVS[(start + i) % 3]))
                    calls += 1
        elif op["op"] == "next":
            if calls < MAX_CALLS:
                out.append(op)
                calls += 1
        else:
            out.append(op)
    return out


LABEL_SPACE = R1("leaf") * R1("draw") * R1("row")


class CountingStub(PointSampler):
    """The k-th draw returns `rows` points labelled (leaf id, k, row); logs every draw."""

    def __init__(self, idx, rows, empty):
        super().__init__(n_points=rows)
        self.idx, self.rows, self.empty = idx, rows, set(empty)
        self.draws, self.log, self.calls = 0, [], []

    def sample_points(self, params=Points.empty(), device="cpu", **kwargs):
        self.draws += 1
        n = 0 if self.draws in self.empty else self.rows
        t = torch.tensor([[float(self.idx), float(self.draws), float(i)] for i in range(n)],
                         dtype=torch.float32, device=device).reshape(n, 3)
        out = Points(t, LABEL_SPACE)
        self.calls.append((len(params), params.as_tensor.detach().clone(), _devtype(device)))
        self.log.append(_snap(out))
        return out


class RecordingUniform(RandomUniformSampler):
    """A real random sampler that logs every draw it makes."""

    def __init__(self, idx, domain, rows):
        super().__init__(domain, n_points=rows)
        self.idx = idx
        self.draws, self.log, self.calls = 0, [], []

    def sample_points(self, params=Points.empty(), device="cpu"):
        out = super().sample_points(params, device=device)
        self.draws += 1
        self.calls.append((len(params), params.as_tensor.detach().clone(), _devtype(device)))
        self.log.append(_snap(out))
        return out


# ---- model of the documented state machine ------------------------------------------------
class _MLeaf:
    kind = "leaf"
    has_static = False
    composite = False

    def __init__(self, idx, real):
        self.idx, self.real = idx, real
        self.draws, self.calls = 0, []

    def sample(self, call):
        self.draws += 1
        self.calls.append(call)
        return [(self.idx, self.draws)], "fresh"

    def next(self):
        return self.sample((0, "cpu"))


class _MStatic:
    kind = "static"
    composite = False

    def __init__(self, inner, R, real, trace):
        self.inner, self.real, self.trace = inner, real, trace
        self.R = math.inf if R is None else R
        self.uses, self.cache = 0, None
        self.n_sample, self.restat, self.restat_used = 0, False, False
        self.has_static = True
        self.nested = inner.has_static

    def set_interval(self, R):
        self.R = math.inf if R is None else R
        if self.cache is not None:
            self.restat = True

    def sample(self, call):
        self.n_sample += 1
        if self.restat:
            self.restat_used = True
        if self.cache is not None and self.uses < self.R:
            self.uses += 1
            self.trace.append(self.cache)
            return self.cache, "cached"
        blocks, _ = self.inner.sample(call)
        self.cache, self.uses = blocks, 1
        return blocks, "fresh"

    def next(self):
        if self.cache is not None:
            self.trace.append(self.cache)
            return self.cache, "cached"
        return self.sample((0, "cpu"))


class _MConcat:
    kind = "concat"
    composite = True

    def __init__(self, a, b, real):
        self.a, self.b, self.real = a, b, real
        self.has_static = a.has_static or b.has_static

    def sample(self, call):
        ba, _ = self.a.sample(call)
        bb, _ = self.b.sample(call)
        return ba + bb, "composite"

    def next(self):
        return self.sample((0, "cpu"))


def _statics_below(node):
    """All model StaticSamplers in the sampler graph rooted at `node` (including itself)."""
    if node.kind == "static":
        return [node] + _statics_below(node.inner)
    if node.kind == "concat":
        return _statics_below(node.a) + _statics_below(node.b)
    return []


def _expected_set(blocks, leaves):
    """Concatenation of the logged leaf draws named by `blocks`; None if a draw is missing."""
    parts, space = [], None
    for idx, k in blocks:
        log = leaves[idx].real.log
        if k - 1 >= len(log):
            return None
        space = space or log[k - 1][0]
        if log[k - 1][0] != space:
            return None
        parts.append(log[k - 1][1])
    return space, torch.cat(parts, dim=0)


def _describe(obs):
    """Short label description of a returned stub set: which (leaf, draw) pairs it contains."""
    if obs[0] != _snap(Points(torch.zeros((0, 3)), LABEL_SPACE))[0]:
        return f"{tuple(obs[1].shape)} tensor"
    seen = []
    for row in obs[1].tolist():
        key = (int(row[0]), int(row[1]))
        if key not in seen:
            seen.append(key)
    return f"rows={obs[1].shape[0]} (leaf,draw)={seen}"


# =========================================================================================
# static family
# =========================================================================================
def _run_static(spec, ctx):
    stub = spec["leaf"] == "stub"
    leaves, pool = [], []
    with ctx.lib("construct-leaf", feature="static"):
        for i in range(spec["n_leaves"]):
            if stub:
                real = CountingStub(i, spec["rows"], spec.get("empty", []))
            else:
                dom = Interval(R1("x"), 0.0, 1.0) if spec["dom"] == "interval" \
                    else Circle(R2("x"), [0.5, -1.0], 1.25)
                real = RecordingUniform(i, dom, spec["rows"])
            node = _MLeaf(i, real)
            leaves.append(node)
            pool.append(node)
    fixed_k = None if stub else spec.get("fixed_params", 0)
    classes = {"static", spec["leaf"]}
    statics = []
    fwd_reported = set()
    trace = []       # cached block lists returned by model StaticSamplers during the current op
    n_ops = n_checked = 0
    desynced = False

    def pick(i):
        return pool[i % len(pool)]

    for pos, op in enumerate(_expand(spec["ops"])):
        kind = op["op"]
        if kind in ("make_static", "wrap_static", "concat") and len(pool) >= MAX_POOL \
                and not (kind == "make_static" and pick(op["obj"]).kind == "static"):
            kind, op = "sample", {"op": "sample", "obj": op.get("obj", op.get("a")),
                                  "params": 0, "device": "default"}
        if kind == "concat" and fixed_k:
            kind, op = "sample", {"op": "sample", "obj": op["a"], "params": 0,
                                  "device": "default"}
        n_ops += 1
        # ---- construction ops -------------------------------------------------------------
        if kind in ("make_static", "wrap_static"):
            node = pick(op["obj"])
            R = op["R"]
            classes.add("R" + ("inf" if R is None else str(R)))
            args = () if R is None else (R,)
            with ctx.lib(kind, feature="static"):
                new = node.real.make_static(*args) if kind == "make_static" \
                    else StaticSampler(node.real, *args)
            if kind == "make_static" and node.kind == "static":
                classes.add("restaticise")
                if new is not node.real:
                    ctx.violation("restaticise", "not-same-object",
                                  f"op {pos}: make_static on a StaticSampler returned another object")
                    desynced = True
                    break
                node.set_interval(R)
                continue
            if not isinstance(new, StaticSampler) or new.is_static is not True \
                    or node.real.is_static is not (node.kind == "static"):
                ctx.violation("is-static-flag", kind,
                              f"op {pos}: {type(new).__name__} is_static={getattr(new, 'is_static', None)}")
            m = _MStatic(node, R, new, trace)
            if m.nested:
                classes.add("nested")
            pool.append(m)
            statics.append(m)
            continue
        if kind == "concat":
            a, b = pick(op["a"]), pick(op["b"])
            with ctx.lib("concat", feature="static"):
                new = a.real + b.real
            pool.append(_MConcat(a, b, new))
            classes.add("concat")
            continue
        # ---- observation ops --------------------------------------------------------------
        node = pick(op["obj"])
        del trace[:]
        before = [len(l.real.log) for l in leaves]
        prev_leaf_snap = node.real.log[-1] if node.kind == "leaf" and node.real.log else None
        if kind == "sample":
            k = op["params"] if fixed_k is None else fixed_k
            kw = _call_kwargs(k, op["device"])
            call = (max(k, 0), "cpu")
            if k > 0:
                classes.add("params")
            if op["device"] == "obj":
                classes.add("device-obj")
            with ctx.lib("sample_points", feature="static-" + node.kind):
                out = node.real.sample_points(**kw)
            blocks, mode = node.sample(call)
        else:
            classes.add("next")
            with ctx.lib("next", feature="static-" + node.kind):
                out = next(node.real)
            blocks, mode = node.next()
        n_checked += 1
        # ---- compare with the model ---------------------------------------------------------
        exp = _expected_set(blocks, leaves)
        exp_rows = None if exp is None else exp[1].shape[0]
        state = ""
        if node.kind == "static":
            state = f" R={node.R} model-uses-after={node.uses} lib-counter={getattr(node.real, 'counter', '?')}"
        if not _is_points(out):
            ctx.violation("static-model", "not-points",
                          f"op {pos} {kind} on {node.kind}: returned {type(out).__name__}")
            desynced = True
            break
        obs = _snap(out)
        lib_draws = sum(l.real.draws for l in leaves)
        model_draws = sum(l.draws for l in leaves)
        if exp is None or not _same(obs, exp) or lib_draws != model_draws \
                or any(l.real.draws != l.draws for l in leaves):
            # signature = what the library did wrong (leaf draw counters decide it, also through
            # nested / composite samplers) | the context that triggers it
            if lib_draws > model_draws:
                what = "extra-draw"        # drew although the cached set was due
            elif lib_draws < model_draws:
                what = "missing-draw"      # returned an old set although a fresh draw was due
            else:
                what = "wrong-set"         # right number of draws, wrong points returned
            empty_cached = False           # had some StaticSampler to return a cached *empty* set?
            for cached_blocks in trace:
                e = _expected_set(cached_blocks, leaves)
                empty_cached = empty_cached or (e is not None and e[1].shape[0] == 0)
            if empty_cached:
                where = "empty-cache"
            elif kind == "next" and node.kind == "static":
                where = "next"           # StaticSampler.__next__ is its own code path
            elif any(m.restat for m in _statics_below(node)):
                where = "restaticised"
            elif node.kind == "leaf":
                where = "non-static"
            else:
                where = "plain"
            got = _describe(obs) if stub else f"rows={obs[1].shape[0]}"
            ctx.violation(
                "static-model", f"{what}|{where}",
                f"op {pos} {kind} on {node.kind}:{state} expected draws {blocks} ({mode}), got {got}; "
                f"leaf draw counts lib={[l.real.draws for l in leaves]} model={[l.draws for l in leaves]}")
            desynced = True
            break
        # params / device reach the drawing leaves unchanged
        for l, b in zip(leaves, before):
            for j in range(b, len(l.real.calls)):
                rk, rt, rdev = l.real.calls[j]
                mk, mdev = l.calls[j]
                want = _params(mk)
                if (rk != mk or (want is not None and not torch.equal(rt, want.as_tensor))) \
                        and "params" not in fwd_reported:
                    fwd_reported.add("params")
                    ctx.violation("forwarding", "params",
                                  f"op {pos}: leaf {l.idx} drew with {rk} param rows, caller passed {mk}")
                if rdev != mdev and "device" not in fwd_reported:
                    fwd_reported.add("device")
                    ctx.violation("forwarding", "device",
                                  f"op {pos}: leaf {l.idx} drew on {rdev}, caller passed {mdev}")
        # a real non-static sampler draws fresh points on every call
        if node.kind == "leaf" and not stub and prev_leaf_snap is not None \
                and obs[1].shape[0] >= 2 and _same(obs, prev_leaf_snap):
            ctx.violation("nonstatic-repeat", "real-uniform",
                          f"op {pos}: two successive draws of a RandomUniformSampler are identical")
        if node.kind == "static" and mode == "fresh" and exp_rows == 0:
            classes.add("empty-draw")

    crossed = [m for m in statics if m.R != math.inf and m.n_sample >= 2 * m.R + 1]
    restat = [m for m in statics if m.restat_used]
    if crossed:
        classes.add("crosses2")
    if restat:
        classes.add("restaticise-used")
    if desynced:
        classes.add("aborted-after-mismatch")
    return {"nontrivial": bool(crossed or restat), "classes": sorted(classes),
            "summary": {"ops": n_ops, "checked_calls": n_checked, "pool": len(pool),
                        "static_objects": len(statics),
                        "max_calls_on_static": max([m.n_sample for m in statics], default=0)}}


# =========================================================================================
# adaptive family
# =========================================================================================
def _build_domain(d):
    if d["kind"] == "interval":
        dom = Interval(R1("x"), d["lo"], d["hi"])
        scale = max(1.0, abs(d["lo"]), abs(d["hi"]))
        tol = 2e-5 * scale

        def inside(x):
            return (x[:, 0] >= d["lo"] - tol) & (x[:, 0] <= d["hi"] + tol)
        return dom, inside, 1, (d["lo"] + d["hi"]) / 2, tol
    if d["kind"] == "rect":
        o, w, h = d["o"], d["w"], d["h"]
        dom = Parallelogram(R2("x"), o, [o[0] + w, o[1]], [o[0], o[1] + h])
        scale = max(1.0, abs(o[0]) + w, abs(o[1]) + h)
        tol = 2e-5 * scale

        def inside(x):
            return ((x[:, 0] >= o[0] - tol) & (x[:, 0] <= o[0] + w + tol)
                    & (x[:, 1] >= o[1] - tol) & (x[:, 1] <= o[1] + h + tol))
        return dom, inside, 2, o[0] + w / 2, tol
    c, r = d["c"], d["r"]
    dom = Circle(R2("x"), c, r)
    scale = max(1.0, abs(c[0]) + r, abs(c[1]) + r)
    tol = 2e-5 * scale

    def inside(x):
        return ((x[:, 0] - c[0]) ** 2 + (x[:, 1] - c[1]) ** 2).sqrt() <= r + tol
    return dom, inside, 2, c[0], tol


def _loss_tensor(rec, n):
    vals = rec["vals"]
    t = torch.tensor([float(vals[i % len(vals)]) for i in range(n)], dtype=torch.float32)
    if rec["mode"] == "int":
        t = t * rec["scale"]
    return t


def _row_eq(a, b):
    """Bitwise row equality of two (N, d) tensors -> bool vector."""
    return (a == b).all(dim=1)


def _run_adaptive(spec, ctx):
    variant = spec["variant"]
    thr_variant = variant == "threshold"
    kindname = "adaptive-threshold" if thr_variant else "adaptive-random"
    dom, inside, dim, mid, tol = _build_domain(spec["domain"])
    use_density = "density" in spec
    filt = bool(spec["filter"])
    libfeat = "adaptive-density-filter" if (use_density and filt) else \
        ("adaptive-thr" if thr_variant else "adaptive-rand")
    kw = {"density": spec["density"]} if use_density else {"n_points": spec["n"]}
    if filt:
        kw["filter_fn"] = lambda x: x[:, 0] > mid
    # density + filter_fn cannot give a fixed number of points (known finding); a constructor
    # that refuses the combination is a clean rejection, not a violation
    reject_ok = (ValueError, NotImplementedError, AssertionError) if use_density and filt else ()
    try:
        with ctx.lib("construct", feature=libfeat, ok=reject_ok):
            if thr_variant:
                s = AdaptiveThresholdRejectionSampler(dom, spec["ratio"], **kw)
            else:
                s = AdaptiveRandomRejectionSampler(dom, **kw)
    except reject_ok:
        return {"nontrivial": False, "classes": ["adaptive", "density-filter-rejected"],
                "summary": {"calls": 0}}
    if s.is_adaptive is not True or s.is_static is not False:
        ctx.violation("is-adaptive-flag", variant, f"is_adaptive={s.is_adaptive}")
    # record what the inner random sampler draws
    draws = []
    inner = s.random_sampler
    orig = inner.sample_points

    def recording(*a, **k):
        out = orig(*a, **k)
        draws.append(_snap(out))
        return out
    inner.sample_points = recording

    k = spec["params"]
    classes = {"adaptive", "thr" if thr_variant else "rand", spec["domain"]["kind"],
               "density" if use_density else "n"}
    if k:
        classes.add("params")
    if filt:
        classes.add("filter")
    if thr_variant and spec["ratio"] in (0.0, 1.0):
        classes.add("ratio%d" % spec["ratio"])
    reported = set()

    def once(kind, feature, detail):
        if (kind, feature) not in reported:
            reported.add((kind, feature))
            ctx.violation(kind, feature, detail)

    def check_domain(rows, what, j):
        xs = rows[:, :dim].double()
        bad = ~inside(xs)
        if filt:
            bad = bad | ~(xs[:, 0] > mid - tol)
        if bool(bad.any()):
            i = int(torch.where(bad)[0][0])
            once("domain", f"{kindname}|{what}",
                 f"call {j}: {int(bad.sum())} {what} row(s) outside the domain/filter, e.g. row {i} = "
                 f"{rows[i].tolist()} for {spec['domain']}")

    prev = None
    n0 = None
    tallies = {}
    mixed_steps = 0
    kept_total = repl_total = 0
    calls = 0
    steps = [{"loss": None, "device": spec["first_device"]}] + list(spec["steps"])
    for j, step in enumerate(steps):
        rec = step["loss"] if j > 0 else None
        if prev is not None and prev[1].shape[0] == 0:
            classes.add("zero-rows")    # no loss vector exists for an empty set: history ends
            break
        loss = None if rec is None else _loss_tensor(rec, prev[1].shape[0])
        call_kw = _call_kwargs(k, step["device"])
        n_draws = len(draws)
        with ctx.lib("sample_points", feature=libfeat):
            out = s.sample_points(unreduced_loss=loss, **call_kw)
        calls += 1
        if not _is_points(out):
            once("rowcount", f"{kindname}|not-points", f"call {j}: returned {type(out).__name__}")
            break
        cur = _snap(out)
        fresh = draws[-1] if len(draws) > n_draws else None
        if n0 is None:
            n0 = cur[1].shape[0]
            if not use_density and n0 != spec["n"] * max(1, k):
                once("rowcount", f"{kindname}|fixed-count",
                     f"first call returned {n0} rows for n_points={spec['n']}, {k} param rows")
        if cur[1].shape[0] != n0 or (prev is not None and cur[0] != prev[0]):
            once("rowcount", f"{kindname}|" + ("density-filter" if use_density and filt
                                               else "fixed-count"),
                 f"call {j}: {cur[1].shape[0]} rows / space {cur[0]}, first call had {n0} rows")
            prev = cur
            continue
        if prev is not None and prev[1].shape != cur[1].shape:
            prev = cur      # the previous call already reported the changed row count
            continue
        if prev is None or fresh is None or fresh[1].shape != cur[1].shape:
            if prev is None:
                check_domain(cur[1], "initial", j)
                if fresh is not None and not _same(cur, fresh):
                    once(kindname, "first-call-not-the-fresh-draw",
                         "first call did not return the points drawn by the inner sampler")
            elif fresh is None:
                once(kindname, "no-fresh-draw", f"call {j}: inner random sampler was not asked for points")
            else:
                once("rowcount", f"{kindname}|" + ("density-filter" if use_density and filt
                                               else "fixed-count"),
                     f"call {j}: inner draw has shape {tuple(fresh[1].shape)}, set has {tuple(cur[1].shape)}")
            prev = cur
            continue
        is_old = _row_eq(cur[1], prev[1])
        is_new = _row_eq(cur[1], fresh[1])
        neither = ~(is_old | is_new)
        if bool(neither.any()):
            i = int(torch.where(neither)[0][0])
            once(kindname, "row-neither-kept-nor-fresh",
                 f"call {j}: row {i} = {cur[1][i].tolist()} was {prev[1][i].tolist()}, fresh draw has "
                 f"{fresh[1][i].tolist()}")
        replaced = is_new & ~is_old
        if bool(replaced.any()):
            check_domain(cur[1][replaced], "fresh", j)
        kept_total += int((is_old & ~is_new).sum())
        repl_total += int(replaced.sum())
        if bool((is_old & ~is_new).any()) and bool(replaced.any()):
            mixed_steps += 1
        if loss is None:
            classes.add("none-mid")
            prev = cur
            continue
        # ---- the retain rule ----------------------------------------------------------------
        l64 = loss.double()
        mn, mx = float(l64.min()), float(l64.max())
        exact = rec["mode"] == "int"
        classes.add("int-loss" if exact else "float-loss")
        if mx == mn:
            classes.add("all-equal")
        elif len(set(loss.tolist())) < loss.numel():
            classes.add("ties")
        if thr_variant:
            ratio = float(spec["ratio"])
            thr = mn + ratio * (mx - mn)
            band = 0.0 if exact and (ratio * 8).is_integer() else 1e-5 * max(1.0, abs(mn), abs(mx))
            must_keep = l64 >= thr + band if band else l64 >= thr
            must_replace = l64 < thr - band
            at_thr = l64 == thr
            if bool(at_thr.any()) and band == 0.0:
                classes.add("tie-at-threshold")
            bad = must_keep & ~is_old
            if bool(bad.any()):
                i = int(torch.where(bad)[0][0])
                tag = "at-threshold" if bool((bad & at_thr).any()) and not bool((bad & ~at_thr).any()) \
                    else "above-threshold"
                once(kindname, f"kept-row-changed|{tag}",
                     f"call {j}: {int(bad.sum())} row(s) with loss >= threshold {thr} changed, e.g. row {i} "
                     f"loss {float(loss[i])} (min {mn}, max {mx}, ratio {ratio})")
            bad = must_replace & ~is_new
            if bool(bad.any()):
                i = int(torch.where(bad)[0][0])
                tag = "low-row-kept" if bool(is_old[i]) else "low-row-not-fresh"
                once(kindname, tag,
                     f"call {j}: {int(bad.sum())} row(s) with loss < threshold {thr} are not the fresh rows, "
                     f"e.g. row {i} loss {float(loss[i])} (min {mn}, max {mx}, ratio {ratio})")
        else:
            # exact for integer levels (all float32 operations of the rule are exact and
            # monotone) and for all-equal losses; not asserted for arbitrary floats, where
            # min + fl(max-min)*U can round above max
            sure = (l64 == mx) if (exact or mx == mn) else torch.zeros_like(is_old)
            bad = sure & ~is_old
            if bool(bad.any()):
                i = int(torch.where(bad)[0][0])
                once(kindname, "equal-loss-row-replaced" if mx == mn else "max-row-replaced",
                     f"call {j}: row {i} with the maximal loss {mx} (min {mn}) was replaced")
            if exact and mx > mn:
                unamb = is_old ^ is_new
                for v in sorted(set(loss.tolist())):
                    sel = (loss == v) & unamb
                    lev = round((v - mn) / (mx - mn), 6)
                    t = tallies.setdefault(lev, [0, 0])
                    t[0] += int((sel & is_old).sum())
                    t[1] += int(sel.sum())
        prev = cur

    worst = 0.0
    for lev, (kept, tot) in sorted(tallies.items()):
        if tot < 50:
            continue
        classes.add("freq-tested")
        eps = math.sqrt(math.log(2.0 / ALPHA) / (2.0 * tot))
        dev = abs(kept / tot - lev)
        worst = max(worst, dev / eps)
        if dev > eps:
            once(kindname, "keep-frequency",
                 f"relative loss {lev}: kept {kept} of {tot} rows = {kept / tot:.4f}, documented "
                 f"probability {lev} (Hoeffding bound {eps:.4f} at alpha={ALPHA})")
    if mixed_steps:
        classes.add("mixed")
    return {"nontrivial": calls >= 3 and mixed_steps >= 1, "classes": sorted(classes),
            "summary": {"calls": calls, "rows": n0, "kept_rows": kept_total,
                        "replaced_rows": repl_total, "mixed_steps": mixed_steps,
                        "freq_worst_dev_over_bound": round(worst, 3)}}


def run_case(spec, ctx):
    if spec["case"] == "static":
        return _run_static(spec, ctx)
    return _run_adaptive(spec, ctx)
